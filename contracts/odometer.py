"""Contract of helper.update_odometer (prover side, z3): mixed-radix successor for lists of ANY length.

requires  len(old) == len(upper) == n >= 0 and 0 <= old[i] < upper[i]
ensures   len(result) == n and
          ( exists pivot p:  result[i] == old[i] (i < p),  result[p] == old[p] + 1 < upper[p],
                             result[i] == 0 and old[i] == upper[i] - 1 (i > p) )
          or ( for all i: result[i] == 0 and old[i] == upper[i] - 1 )            -- everything wrapped (also n == 0)
frame     list input: the argument is not modified;  ndarray input: `modifies old_ind` (the copy `old_ind[:]` is a view, S-alias)
          upper_lim is never modified.
The loop invariant below is proof text (scaffolding), not property text."""
import z3

from vt.pyvc.intvc import Cell, ZList


class OdometerContract:
    def __init__(self, kind="list"):
        self.kind = kind

    def inputs(self):
        n = z3.Int("n")
        old = z3.Array("old", z3.IntSort(), z3.IntSort())
        up = z3.Array("upper", z3.IntSort(), z3.IntSort())
        i = z3.Int("i")
        pc = [n >= 0, z3.ForAll([i], z3.Implies(z3.And(i >= 0, i < n), z3.And(old[i] >= 0, old[i] < up[i])))]
        self.n, self.old0, self.up0 = n, old, up
        env = {"old_ind": ZList(Cell(old), n, self.kind), "upper_lim": ZList(Cell(up), n, "list")}
        return env, pc

    def loop_invariant(self, ordinal):
        if ordinal != 0:
            return None
        n, old, up = self.n, self.old0, self.up0

        def inv(eng, env):
            j = env["j"]
            new = env["new_ind"]
            a = new.cell.arr
            i = z3.Int("i")
            return z3.And(
                new.n == n,
                j >= 0,
                j <= n,
                z3.ForAll([i], z3.Implies(z3.And(i >= 0, i < j - 1), a[i] == old[i])),
                z3.Implies(j >= 1, a[j - 1] == old[j - 1] + 1),
                z3.ForAll([i], z3.Implies(z3.And(i >= j, i < n), z3.And(a[i] == 0, old[i] == up[i] - 1))),
            )

        return inv

    def post(self, eng, value, env):
        n, old, up = self.n, self.old0, self.up0
        out = []
        if not isinstance(value, ZList):
            return [("result is a list", False)]
        a = value.cell.arr
        i = z3.Int("i")
        out.append(("len(result) == len(old)", value.n == n))
        out.append(("result is the mixed-radix successor of old (pivot form) or everything wrapped to zero", successor_formula(n, a, old, up)))
        upn = env["upper_lim"].cell.arr
        out.append(("frame: upper_lim unchanged", z3.ForAll([i], z3.Implies(z3.And(i >= 0, i < n), upn[i] == up[i]))))
        if self.kind == "list":
            oa = env["old_ind"].cell.arr
            out.append(("frame: a list argument is not modified", z3.ForAll([i], z3.Implies(z3.And(i >= 0, i < n), oa[i] == old[i]))))
        return out


def successor_formula(n, a, old, up):
    """the postcondition proved above, as a formula over arrays a (result), old, up and the length n (quantified form)"""
    i, p = z3.Int("i"), z3.Int("p")
    wrapped = z3.ForAll([i], z3.Implies(z3.And(i >= 0, i < n), z3.And(a[i] == 0, old[i] == up[i] - 1)))
    pivot = z3.Exists(
        [p],
        z3.And(
            p >= 0,
            p < n,
            a[p] == old[p] + 1,
            a[p] < up[p],
            z3.ForAll([i], z3.Implies(z3.And(i >= 0, i < p), a[i] == old[i])),
            z3.ForAll([i], z3.Implies(z3.And(i > p, i < n), z3.And(a[i] == 0, old[i] == up[i] - 1))),
        ),
    )
    return z3.Or(pivot, wrapped)


def successor_concrete(new, old, ups):
    """the same postcondition instantiated at a fixed length len(new): a quantifier-free disjunction over the pivot position.
    `instantiation_lemma(n)` checks (z3) that the quantified form implies this one, so callers that assume it assume no more than
    what was proved for update_odometer."""
    n = len(new)
    cases = []
    for p in range(n):
        cases.append(z3.And(*([new[i] == old[i] for i in range(p)] + [new[p] == old[p] + 1, new[p] < ups[p]] + [z3.And(new[i] == 0, old[i] == ups[i] - 1) for i in range(p + 1, n)])))
    cases.append(z3.And(*[z3.And(new[i] == 0, old[i] == ups[i] - 1) for i in range(n)]) if n else z3.BoolVal(True))
    return z3.Or(*cases)


def instantiation_lemma(n, timeout_ms=10000):
    """z3: successor_formula(n, a, old, up) implies successor_concrete([a[0..n-1]], [old[0..n-1]], [up[0..n-1]]); returns 'unsat' when proved"""
    a = z3.Array("a_res", z3.IntSort(), z3.IntSort())
    old = z3.Array("a_old", z3.IntSort(), z3.IntSort())
    up = z3.Array("a_up", z3.IntSort(), z3.IntSort())
    s = z3.Solver()
    s.set("timeout", timeout_ms)
    s.add(successor_formula(z3.IntVal(n), a, old, up))
    s.add(z3.Not(successor_concrete([a[i] for i in range(n)], [old[i] for i in range(n)], [up[i] for i in range(n)])))
    return str(s.check())
