"""Stated programs of the picos-based SDP builders (E1-prog, vt/pyvc/progvc.py) -- prover side.

Each entry states the textbook program the property refers to, written with the term constructors of progvc (NOT with the code's
own expression forms: objectives are compared modulo the linearity axioms, constraints as (lhs, rhs) pairs of the Loewner order).
  rho_i = to_density_matrix(vectors[i]),  p_i = probs[i],  n = number of states (enumerated), d = dim.

state_distinguishability
  min-error primal   max  sum_i p_i <rho_i, M_i>        s.t.  M_i >= 0,  sum_i M_i == I_d                       returns (value, [M_i])
  min-error dual     min  Tr Y                           s.t.  Y >= p_i rho_i  (i = 0..n-1, in this order)      returns (value, [conj(dual of constraint i)])
  unambiguous primal max  <probs, q>                     s.t.  G - diag(q) >= 0   (G the Gram matrix, q >= 0 by declaration)
  unambiguous dual   min  Tr(G Z)                        s.t.  Z >= 0,  Z_ii >= p_i
state_exclusion
  min-error primal   min  sum_i p_i <rho_i, M_i>        s.t.  M_i >= 0,  sum_i M_i == I_d
  min-error dual     max  Tr Y                           s.t.  Y <= p_i rho_i
  unambiguous primal min  <sum_i p_i rho_i, I - sum M>   s.t.  M_i >= 0, I - sum M >= 0, <M_i, p_i rho_i> == 0
  unambiguous dual   max  1 - Tr N                       s.t.  N >= 0,  N + a_i p_i rho_i >= sum_j p_j rho_j
ppt_distinguishability
  min-error primal   max  sum_i p_i <rho_i, M_i>        s.t.  M_i >= 0, sum M_i == I, PT(M_i) >= 0
  min-error dual     min  Tr Y                           s.t.  Y - p_i rho_i >= PT(Q_i),  Q_i >= 0
"""
import z3

from contracts.metrics_c import TermContract, tq
from vt.pyvc.progvc import Cons, ProgContract, Struct, herm, ip, madd, mmul, msub, msum, smul, tr
from vt.pyvc.termvc import Arr, lift, uf

R = z3.RealSort()
SD = "toqito/state_opt/state_distinguishability.py"
SE = "toqito/state_opt/state_exclusion.py"
PPT = "toqito/state_opt/ppt_distinguishability.py"


def rho(v):
    return tq("to_density_matrix", Arr, input_array=v)


def hvar(name, *shape):
    return uf("picos.HermitianVariable[%s]" % name, Arr, *[lift(x) for x in shape])


def rvar(name, n, extra=""):
    return uf("picos.RealVariable[%s%s]" % (name, ";" + extra if extra else ""), Arr, lift(n))


def eye(d):
    return uf("picos.I", Arr, lift(d))


def psd(a, b=0):
    return Cons("psd", a, lift(b))


def zero():
    return lift(0)


def gram(vs):
    return tq("vectors_to_gram_matrix", Arr, vectors=list(vs))


def ptr(x, e):
    return uf("picos.partial_transpose(subsystems,dimensions)", Arr, x, e["subsystems"], e["dimensions"])


def entry(a, *idx):
    return uf("entry[%s]" % ",".join(str(i) for i in idx), R, a)


def _duals(prob, n):
    return [Struct("np.conj", Struct("np.array", Struct("dual-of-constraint", id(prob.cons[k])))) for k in range(n)]


def _raw_duals(prob, n):
    return [Struct("dual-of-constraint", id(prob.cons[k])) for k in range(n)]


def specs(n):
    """{key: (file, function, params, requires, spec, text)} for n states"""
    rng = range(n)
    P = [("vectors", "arrlist%d" % n), ("dim", "real"), ("probs", "reallist%d" % n), ("solver", "solver"), ("kwargs", "kwargs")]
    P_nodim = [p for p in P if p[0] != "dim"]
    PP = [("vectors", "arrlist%d" % n), ("subsystems", "arr"), ("dimensions", "arr"), ("probs", "reallist%d" % n), ("solver", "solver"), ("strategy", "min_error")]

    def M(e, i):
        return hvar("M[%d]" % i, e["dim"], e["dim"])

    out = {}
    out["sd.min_error_primal"] = (SD, "_min_error_primal", P, [], lambda e: dict(
        direction="max", objective=sum(lift(e["probs"][i]) * ip(rho(e["vectors"][i]), M(e, i)) for i in rng), objective_text="sum_i p_i <rho_i, M_i>",
        constraints=[psd(M(e, i)) for i in rng] + [Cons("eq", msum([M(e, i) for i in rng]), eye(e["dim"]))], ordered=False,
        constraint_text=["M_%d >= 0" % i for i in rng] + ["sum_i M_i == I"], result=lambda prob: [M(e, i) for i in rng], result_text="[M_0, ..., M_{n-1}]"),
        "state_distinguishability, min-error primal: max sum_i p_i <rho_i, M_i> s.t. M_i >= 0, sum_i M_i = I")
    out["sd.min_error_dual"] = (SD, "_min_error_dual", P, [], lambda e: dict(
        direction="min", objective=tr(hvar("Y", e["dim"], e["dim"])), objective_text="Tr Y",
        constraints=[Cons("psd", hvar("Y", e["dim"], e["dim"]), smul(e["probs"][i], rho(e["vectors"][i]))) for i in rng], ordered=True,
        constraint_text=["Y >= p_%d rho_%d" % (i, i) for i in rng], result=lambda prob: _duals(prob, n), result_text="[conj(dual of constraint i)]"),
        "state_distinguishability, min-error dual: min Tr Y s.t. Y >= p_i rho_i")
    out["sd.unambiguous_primal"] = (SD, "_unambiguous_primal", P_nodim, [], lambda e: dict(
        direction="max", objective=ip(uf("np.array[list%d]" % n, Arr, *[lift(p) for p in e["probs"]]), rvar("success_probabilities", n, "lower=0")), objective_text="<probs, q>",
        constraints=[Cons("psd", msub(gram(e["vectors"]), uf("picos.diag", Arr, rvar("success_probabilities", n, "lower=0"))), zero())], ordered=True,
        constraint_text=["G - diag(q) >= 0"], result=lambda prob: (rvar("success_probabilities", n, "lower=0"),), result_text="(q,)"),
        "state_distinguishability, unambiguous primal: max <probs, q> s.t. G - diag(q) >= 0, q >= 0")
    out["sd.unambiguous_dual"] = (SD, "_unambiguous_dual", P_nodim, [], lambda e: dict(
        direction="min", objective=tr(mmul(gram(e["vectors"]), hvar("Z", n, n))), objective_text="Tr(G Z)",
        constraints=[psd(hvar("Z", n, n))] + [Cons("scalar", entry(hvar("Z", n, n), i, i) >= lift(e["probs"][i])) for i in rng], ordered=False,
        constraint_text=["Z >= 0"] + ["Z_%d%d >= p_%d" % (i, i, i) for i in rng], result=lambda prob: (hvar("Z", n, n),), result_text="(Z,)"),
        "state_distinguishability, unambiguous dual: min Tr(G Z) s.t. Z >= 0, Z_ii >= p_i")
    out["se.min_error_primal"] = (SE, "_min_error_primal", P, [], lambda e: dict(
        direction="min", objective=sum(lift(e["probs"][i]) * ip(rho(e["vectors"][i]), M(e, i)) for i in rng), objective_text="sum_i p_i <rho_i, M_i>",
        constraints=[psd(M(e, i)) for i in rng] + [Cons("eq", msum([M(e, i) for i in rng]), eye(e["dim"]))], ordered=False,
        constraint_text=["M_%d >= 0" % i for i in rng] + ["sum_i M_i == I"], result=lambda prob: [M(e, i) for i in rng], result_text="[M_0, ..., M_{n-1}]"),
        "state_exclusion, min-error primal: min sum_i p_i <rho_i, M_i> s.t. M_i >= 0, sum_i M_i = I")
    out["se.min_error_dual"] = (SE, "_min_error_dual", P, [], lambda e: dict(
        direction="max", objective=tr(hvar("Y", e["dim"], e["dim"])), objective_text="Tr Y",
        constraints=[Cons("psd", smul(e["probs"][i], rho(e["vectors"][i])), hvar("Y", e["dim"], e["dim"])) for i in rng], ordered=True,
        constraint_text=["Y <= p_%d rho_%d" % (i, i) for i in rng], result=lambda prob: _duals(prob, n), result_text="[conj(dual of constraint i)]"),
        "state_exclusion, min-error dual: max Tr Y s.t. Y <= p_i rho_i")

    def inconclusive(e):
        return msub(eye(e["dim"]), msum([M(e, i) for i in rng]))

    out["se.unambiguous_primal"] = (SE, "_unambiguous_primal", P, [], lambda e: dict(
        direction="min", objective=ip(msum([smul(e["probs"][i], rho(e["vectors"][i])) for i in rng]), inconclusive(e)), objective_text="<sum_i p_i rho_i, I - sum_i M_i>",
        constraints=[psd(M(e, i)) for i in rng] + [psd(inconclusive(e))] + [Cons("scalar", ip(M(e, i), smul(e["probs"][i], rho(e["vectors"][i]))) == lift(0)) for i in rng], ordered=False,
        constraint_text=["M_%d >= 0" % i for i in rng] + ["I - sum_i M_i >= 0"] + ["<M_%d, p_%d rho_%d> == 0" % (i, i, i) for i in rng],
        result=lambda prob: [M(e, i) for i in rng] + [inconclusive(e)], result_text="[M_0, ..., M_{n-1}, I - sum_i M_i]"),
        "state_exclusion, unambiguous primal: min <sum_i p_i rho_i, I - sum M> s.t. M_i >= 0, I - sum M >= 0, <M_i, p_i rho_i> = 0")

    def bigN(e):
        return hvar("N", e["dim"], e["dim"])

    out["se.unambiguous_dual"] = (SE, "_unambiguous_dual", P, [], lambda e: dict(
        direction="max", objective=1 - tr(bigN(e)), objective_text="1 - Tr N",
        constraints=[psd(bigN(e))] + [Cons("psd", madd(bigN(e), smul(entry(rvar("a", n), i), smul(e["probs"][i], rho(e["vectors"][i])))), msum([smul(e["probs"][j], rho(e["vectors"][j])) for j in rng])) for i in rng], ordered=False,
        constraint_text=["N >= 0"] + ["N + a_%d p_%d rho_%d >= sum_j p_j rho_j" % (i, i, i) for i in rng], result=lambda prob: (bigN(e), rvar("a", n)), result_text="(N, a)"),
        "state_exclusion, unambiguous dual: max 1 - Tr N s.t. N >= 0, N + a_i p_i rho_i >= sum_j p_j rho_j")

    def d_of(e):
        return tq("calculate_vector_matrix_dimension", R, item=e["vectors"][0])

    def Mp(e, i):
        return hvar("M[%d]" % i, d_of(e), d_of(e))

    out["ppt.min_error_primal"] = (PPT, "_min_error_primal", PP, [], lambda e: dict(
        direction="max", objective=sum(lift(e["probs"][i]) * ip(rho(e["vectors"][i]), Mp(e, i)) for i in rng), objective_text="sum_i p_i <rho_i, M_i>",
        constraints=[psd(Mp(e, i)) for i in rng] + [Cons("eq", msum([Mp(e, i) for i in rng]), eye(d_of(e)))] + [psd(ptr(Mp(e, i), e)) for i in rng], ordered=False,
        constraint_text=["M_%d >= 0" % i for i in rng] + ["sum_i M_i == I"] + ["PT(M_%d) >= 0" % i for i in rng], result=lambda prob: [Mp(e, i) for i in rng], result_text="[M_0, ..., M_{n-1}]"),
        "ppt_distinguishability, min-error primal: max sum_i p_i <rho_i, M_i> s.t. M_i >= 0, sum M_i = I, PT(M_i) >= 0")

    def d0(e):
        return uf("shape[0]", R, e["vectors"][0])

    out["ppt.min_error_dual"] = (PPT, "_min_error_dual", PP, [], lambda e: dict(
        direction="min", objective=tr(hvar("Y", d0(e), d0(e))), objective_text="Tr Y",
        constraints=[Cons("psd", msub(hvar("Y", d0(e), d0(e)), smul(e["probs"][i], rho(e["vectors"][i]))), ptr(hvar("Q[%d]" % i, d0(e), d0(e)), e)) for i in rng] + [psd(hvar("Q[%d]" % i, d0(e), d0(e))) for i in rng], ordered=True,
        constraint_text=["Y - p_%d rho_%d >= PT(Q_%d)" % (i, i, i) for i in rng] + ["Q_%d >= 0" % i for i in rng], result=lambda prob: _raw_duals(prob, n), result_text="[dual of constraint i]"),
        "ppt_distinguishability, min-error dual: min Tr Y s.t. Y - p_i rho_i >= PT(Q_i), Q_i >= 0")
    return out


class SdpContract(ProgContract):
    def __init__(self, params, requires, spec, text):
        super().__init__(TermContract, params, requires, spec, text)

    def inputs(self):
        env, pc = super().inputs()
        vs = env.get("vectors")
        self.hermitian_facts = [herm(rho(v)) for v in vs] if isinstance(vs, list) else []
        return env, pc


def dispatch_specs(n):
    """public entry points: (file, function, params, requires, spec, text, local builders) per (strategy, primal_dual, probs given?)"""
    out = {}
    builders = ["_min_error_primal", "_min_error_dual", "_unambiguous_primal", "_unambiguous_dual"]
    for fn, rel, dim_for_unamb in (("state_distinguishability", SD, False), ("state_exclusion", SE, True)):
        for strategy in ("min_error", "unambiguous"):
            for pd in ("primal", "dual"):
                for given in (True, False):
                    params = [("vectors", "arrlist%d" % n), ("probs", "reallist%d" % n if given else None), ("strategy", strategy), ("solver", "solver"), ("primal_dual", pd), ("kwargs", "kwargs")]
                    bname = "_%s_%s" % ("min_error" if strategy == "min_error" else "unambiguous", pd)

                    def spec(e, bname=bname, strategy=strategy, dim_for_unamb=dim_for_unamb):
                        from vt.pyvc.progvc import Param

                        kw = {"vectors": e["vectors"], "probs": e["probs"] if e["probs"] is not None else [1 / n] * n, "solver": Param("solver"), "**": Param("kwargs")}
                        if strategy == "min_error" or dim_for_unamb:
                            kw["dim"] = tq("calculate_vector_matrix_dimension", R, item=e["vectors"][0])
                        return bname, kw

                    out["%s/%s/%s/%s" % (fn, strategy, pd, "probs" if given else "uniform")] = (rel, fn, params, ["has_same_dimension(vectors)"], spec,
                        "%s(strategy=%r, primal_dual=%r) == %s(vectors, %sprobs or the uniform prior, solver, **kwargs)" % (fn, strategy, pd, bname, "dim = calculate_vector_matrix_dimension(vectors[0]), " if (strategy == "min_error" or dim_for_unamb) else ""), builders)
    for pd in ("primal", "dual"):
        for given in (True, False):
            params = [("vectors", "arrlist%d" % n), ("subsystems", "arr"), ("dimensions", "arr"), ("probs", "reallist%d" % n if given else None), ("strategy", "min_error"), ("solver", "solver"), ("primal_dual", pd)]

            def spec(e, pd=pd):
                from vt.pyvc.progvc import Param

                return "_min_error_" + pd, {"vectors": e["vectors"], "subsystems": e["subsystems"], "dimensions": e["dimensions"], "probs": e["probs"] if e["probs"] is not None else [1 / n] * n, "solver": Param("solver"), "strategy": "min_error"}

            out["ppt_distinguishability/%s/%s" % (pd, "probs" if given else "uniform")] = (PPT, "ppt_distinguishability", params, ["has_same_dimension(vectors)"], spec,
                "ppt_distinguishability(primal_dual=%r) == _min_error_%s(vectors, subsystems, dimensions, probs or the uniform prior, solver, strategy)" % (pd, pd), ["_min_error_primal", "_min_error_dual"])
    return out


# ---------------------------------------------------------------------------------------------
# cvxpy builders: QuantumHedging (four programs) and optimal_clone's primal_problem / dual_problem
# ---------------------------------------------------------------------------------------------
QH = "toqito/nonlocal_games/quantum_hedging.py"
OC = "toqito/state_opt/optimal_clone.py"


def cvar(k, opts, *shape):
    return uf("cvxpy.Variable#%d[%s]" % (k, opts), Arr, *[lift(x) for x in shape])


def ident(fn, n):
    return uf("%s[%d]" % (fn, n), Arr)


def dagger(a):
    return uf("transpose", Arr, uf("conj", Arr, a))


def mat(a, b):
    return uf("matmul", Arr, a, b)


def ptrace(x, sys, dim):
    return tq("partial_trace", Arr, consts=["dim=%r" % (list(dim),), "sys=%r" % (list(sys),)], input_mat=x)


def cvx_specs(reps):
    """{key: (file, qualname, params, requires, spec, text)} for `reps` repetitions (enumerated)"""
    out = {}
    n = reps
    sys_h = list(range(0, 2 * n - 1, 2))
    dim_h = [2] * (2 * n)
    PH = [("self._q_a", "arr"), ("self._num_reps", n), ("self._sys", sys_h), ("self._dim", dim_h), ("self._pperm", "arr")]

    def X():
        return cvar(0, "hermitian=True", 4**n, 4**n)

    def Y():
        return cvar(0, "hermitian=True", 2**n, 2**n)

    def permuted(e):
        K = uf("kron", Arr, ident("np.eye", 2**n), Y())
        P = e["self._pperm"]
        if n == 1:
            return uf("multiply", Arr, uf("multiply", Arr, P, K), dagger(P))
        return mat(mat(P, K), dagger(P))

    for which, direction in (("max", "max"), ("min", "min")):
        out["hedge.%s_primal" % which] = (QH, "QuantumHedging.%s_prob_outcome_a_primal" % which, PH, [], lambda e, direction=direction: dict(
            direction=direction, objective=ip(e["self._q_a"], X()), objective_text="<Q, X>", scalar_result=True, solver_param=False,
            constraints=[Cons("eq", ptrace(X(), sys_h, dim_h), ident("np.identity", 2**n)), psd(X())], ordered=False,
            constraint_text=["Tr_{even subsystems} X == I", "X >= 0"]),
            "QuantumHedging.%s_prob_outcome_a_primal (n = %d): %s <Q, X> s.t. partial_trace(X, %s, %s) = I, X >= 0" % (which, n, direction, sys_h, dim_h))
    out["hedge.max_dual"] = (QH, "QuantumHedging.max_prob_outcome_a_dual", PH, [], lambda e: dict(
        direction="min", objective=tr(Y()), objective_text="Tr Y", scalar_result=True, solver_param=False,
        constraints=[Cons("psd", permuted(e), e["self._q_a"])], ordered=True, constraint_text=["P (I (x) Y) P^* >= Q"]),
        "QuantumHedging.max_prob_outcome_a_dual (n = %d): min Tr Y s.t. P (I (x) Y) P^* >= Q" % n)
    out["hedge.min_dual"] = (QH, "QuantumHedging.min_prob_outcome_a_dual", PH, [], lambda e: dict(
        direction="max", objective=tr(Y()), objective_text="Tr Y", scalar_result=True, solver_param=False,
        constraints=[Cons("psd", e["self._q_a"], permuted(e))], ordered=True, constraint_text=["P (I (x) Y) P^* <= Q"]),
        "QuantumHedging.min_prob_outcome_a_dual (n = %d): max Tr Y s.t. P (I (x) Y) P^* <= Q" % n)
    # optimal cloning: three registers per repetition, the two clone registers are traced out
    sys_c = [s_ - 1 for s_ in range(1, 3 * n) if s_ % 3 != 0]
    dim_c = [2] * (3 * n)
    PC = [("q_a", "arr"), ("pperm", "arr"), ("num_reps", n)]

    def Xc():
        return cvar(0, "hermitian=True", 8**n, 8**n)

    out["clone.primal"] = (OC, "primal_problem", PC, [], lambda e: dict(
        direction="max", objective=ip(e["q_a"], Xc()), objective_text="<Q, X>", scalar_result=True, solver_param=False,
        constraints=[Cons("eq", ptrace(Xc(), sys_c, dim_c), ident("np.identity", 2**n)), psd(Xc())], ordered=False,
        constraint_text=["Tr_{clone registers} X == I", "X >= 0"]),
        "optimal_clone primal (n = %d): max <Q, X> (registers in the order of Q) s.t. partial_trace(X, %s, %s) = I, X >= 0" % (n, sys_c, dim_c))
    out["clone.dual"] = (OC, "dual_problem", PC, [], lambda e: dict(
        direction="min", objective=tr(Y()), objective_text="Tr Y", scalar_result=True, solver_param=False,
        constraints=[Cons("psd", uf("kron", Arr, uf("kron", Arr, ident("np.eye", 2**n), ident("np.eye", 2**n)), Y()), e["q_a"] if n == 1 else mat(mat(e["pperm"], e["q_a"]), dagger(e["pperm"])))], ordered=True,
        constraint_text=["I (x) I (x) Y >= P Q P^*"]),
        "optimal_clone dual (n = %d): min Tr Y s.t. I (x) I (x) Y >= P Q P^*" % n)
    return out


# ---------------------------------------------------------------------------------------------
# channel metrics: the SDP branch of completely_bounded_trace_norm (picos) and channel_fidelity (cvxpy)
# ---------------------------------------------------------------------------------------------
CBTN = "toqito/channel_metrics/completely_bounded_trace_norm.py"
CF = "toqito/channel_metrics/channel_fidelity.py"


def block(a, b, c, d):
    return uf("block2x2", Arr, a, b, c, d)


def neg(a):
    return uf("neg", Arr, a)


def metric_specs():
    out = {}

    def cbtn_spec(e):
        n0 = uf("shape[0]", R, e["phi"])
        dim = uf("round", R, uf("np.sqrt", R, n0))
        y0, y1 = hvar("y0", n0, n0), hvar("y1", n0, n0)

        def ptr2(y):
            return uf("var.partial_trace[1](dimensions)", Arr, y, dim)

        return dict(
            direction="min", objective=uf("spectral-norm", R, ptr2(y0)) + uf("spectral-norm", R, ptr2(y1)), objective_text="||Tr_2 Y0||_inf + ||Tr_2 Y1||_inf",
            value=lambda opt: opt / 2, value_text="half the optimum", scalar_result=True,
            constraints=[psd(y0), psd(y1), Cons("psd", block(y0, neg(e["phi"]), neg(dagger(e["phi"])), y1), zero())], ordered=False,
            constraint_text=["Y0 >= 0", "Y1 >= 0", "[[Y0, -J], [-J^*, Y1]] >= 0"])

    out["cbtn.sdp"] = (CBTN, "completely_bounded_trace_norm", [("phi", "arr"), ("solver", "solver"), ("kwargs", "kwargs")],
                       [lambda e: uf("shape[0]", R, e["phi"]) == uf("shape[1]", R, e["phi"]), "not is_quantum_channel(phi)", lambda e: z3.Not(tq("is_completely_positive", z3.BoolSort(), phi=e["phi"]))], cbtn_spec,
                       "completely_bounded_trace_norm (neither a channel nor completely positive): (1/2) min ||Tr_2 Y0|| + ||Tr_2 Y1|| s.t. Y0, Y1 >= 0, [[Y0, -J], [-J^*, Y1]] >= 0 (Watrous)")

    def cf_spec(e):
        n0 = uf("shape[0]", R, e["choi_1"])
        dim = uf("np.round", R, uf("np.sqrt", R, n0))
        lam = cvar(0, "nonneg=True")
        q = cvar(1, "complex=True", n0, n0)
        qm = tq("partial_trace", Arr, consts=["sys=[1]"], input_mat=q, dim=[dim, dim])
        lam_s = lam
        return dict(
            direction="max", objective=uf("scalar-of", R, lam), objective_text="lambda", scalar_result=True, solver_param=False,
            solve_kw={"solver": ("modattr", "cvxpy", "SCS"), "eps": e["eps"]},
            constraints=[Cons("psd", block(e["choi_1"], uf("dagger", Arr, q), q, e["choi_2"]), zero()),
                         Cons("psd", msub(uf("div", Arr, madd(qm, uf("dagger", Arr, qm)), lift(2)), uf("mul", Arr, lam_s, uf("np.identity", Arr, dim))), zero())], ordered=False,
            constraint_text=["[[J1, Q^*], [Q, J2]] >= 0", "(Tr_2 Q + (Tr_2 Q)^*) / 2 >= lambda I"])

    out["cf.sdp"] = (CF, "channel_fidelity", [("choi_1", "arr"), ("choi_2", "arr"), ("eps", "real")],
                     ["not choi_1.shape != choi_2.shape", lambda e: uf("shape[0]", R, e["choi_1"]) == uf("shape[1]", R, e["choi_1"])], cf_spec,
                     "channel_fidelity: max lambda s.t. [[J1, Q^*], [Q, J2]] >= 0, (Tr_2 Q + (Tr_2 Q)^*) / 2 >= lambda I, solved with SCS at the caller's eps")
    return out


# ---------------------------------------------------------------------------------------------
# XORGame.quantum_value (cvxpy): the dual Tsirelson program, question counts enumerated
# ---------------------------------------------------------------------------------------------
XG = "toqito/nonlocal_games/xor_game.py"


def xor_specs(X, Y, reps):
    from vt.pyvc.progvc import EntryMat

    P = [[z3.Real("P_%d_%d" % (x, y)) for y in range(Y)] for x in range(X)]
    F = [[z3.Real("F_%d_%d" % (x, y)) for y in range(Y)] for x in range(X)]
    params = [("self.prob_mat", EntryMat(P)), ("self.pred_mat", EntryMat(F)), ("self.reps", reps)]

    def spec(e):
        D = [[P[x][y] * uf("pow", R, lift(-1), F[x][y]) for y in range(Y)] for x in range(X)]
        mD = EntryMat(D).map(lambda t: -t)
        u, v = cvar(0, "complex=False", X), cvar(1, "complex=False", Y)
        return dict(
            direction="min", objective=uf("sum-of-entries", R, u) + uf("sum-of-entries", R, v), objective_text="sum(u) + sum(v)", scalar_result=True, solver_param=False,
            value=(lambda opt: opt / 4 + lift(1) / 2) if reps == 1 else (lambda opt: (opt / 4 + lift(1) / 2) * (opt / 4 + lift(1) / 2) if reps == 2 else None), value_text="(1/2 + optimum / 4) ** reps",
            constraints=[Cons("psd", block(uf("diag", Arr, u), mD.term(), mD.transpose().term(), uf("diag", Arr, v)), zero())], ordered=True,
            constraint_text=["[[Diag(u), -D], [-D^T, Diag(v)]] >= 0 with D[x,y] = pi(x,y) (-1)^f(x,y)"])

    return {"xor.quantum_value": (XG, "XORGame.quantum_value", params, [], spec,
            "XORGame.quantum_value (%d x %d questions, reps = %d): (1/2 + opt/4)^reps with opt = min sum(u) + sum(v) s.t. [[Diag(u), -D], [-D^T, Diag(v)]] >= 0, D = pi * (-1)^f" % (X, Y, reps))}


# ---------------------------------------------------------------------------------------------
# symmetric_extension_hierarchy (cvxpy): local dimensions, level and number of states enumerated; density-matrix input, dim given as a list
# ---------------------------------------------------------------------------------------------
SEH = "toqito/state_opt/symmetric_extension_hierarchy.py"


def seh_specs(n, dx, dy, level, probs_given=True):
    params = [("states", "arrlist%d" % n), ("probs", "reallist%d" % n if probs_given else None), ("level", level), ("dim", [dx, dy])]
    dim_list = [dx] + [dy] * level
    sys_list = list(range(2, 2 + level - 1))

    def spec(e):
        st = e["states"]
        pr = e["probs"] if e["probs"] is not None else [1 / n] * n
        dxy = uf("shape[0]", R, st[0])
        dxyy = 1
        for x in dim_list:
            dxyy *= x
        M = [cvar(2 * k, "hermitian=True", dxy, dxy) for k in range(n)]
        X = [cvar(2 * k + 1, "hermitian=True", dxyy, dxyy) for k in range(n)]
        sym = tq("symmetric_projection", Arr, consts=["dim=%d" % dy, "p_val=%d" % level])
        proj = uf("np.kron", Arr, ident("np.identity", dx), sym)
        cons, text = [], []
        for k in range(n):
            cons.append(Cons("eq", tq("partial_trace", Arr, consts=["dim=%r" % (dim_list,), "sys=%r" % (sys_list,)], input_mat=X[k]), M[k]))
            text.append("Tr_{extension copies} X_%d == M_%d" % (k, k))
            cons.append(psd(X[k]))
            text.append("X_%d >= 0" % k)
            cons.append(psd(M[k]))
            text.append("M_%d >= 0" % k)
            cons.append(Cons("eq", mat(mat(proj, X[k]), proj), X[k]))
            text.append("(I (x) P_sym) X_%d (I (x) P_sym) == X_%d" % (k, k))
            for s_ in [0] + [j + 2 for j in range(level - 1)]:
                cons.append(psd(tq("partial_transpose", Arr, consts=["dim=%r" % (dim_list,), "sys=%r" % ([s_],)], rho=X[k])))
                text.append("PT_%d(X_%d) >= 0" % (s_, k))
        cons.append(Cons("eq", msum(M), uf("np.identity", Arr, dxy)))
        text.append("sum_k M_k == I")
        return dict(direction="max", objective=sum(lift(pr[k]) * ip(st[k], M[k]) for k in range(n)), objective_text="sum_k p_k <rho_k, M_k>",
                    scalar_result=True, solver_param=False, constraints=cons, ordered=False, constraint_text=text)

    req = [lambda e: uf("shape[1]", R, e["states"][0]) != 1, lambda e: uf("shape[0]", R, e["states"][0]) == dx * dy]
    return {"seh": (SEH, "symmetric_extension_hierarchy", params, req, spec,
            "symmetric_extension_hierarchy (%d density matrices on C^%d (x) C^%d, level %d): max sum_k p_k <rho_k, M_k> s.t. M_k = Tr_ext X_k, X_k >= 0, M_k >= 0, X_k symmetric on the copies of the second party, PPT across the first party and each extension copy, sum_k M_k = I" % (n, dx, dy, level))}
