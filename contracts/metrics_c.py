"""Term-level contracts (E1-term) of the thin numeric wrappers in state_metrics / state_props / matrix_props.

Each contract is  requires (opaque predicates assumed true)  /  ensures result == <formula over uninterpreted library
operations>.  The formula is taken from the property statement / the function's documented definition, with toqito callees
(fidelity, trace_norm, partial_transpose, ...) appearing as their own spec symbols (callers see callees by contract)."""
import ast

import z3

from vt.pyvc.termvc import Arr, lift, uf

R = z3.RealSort()
B = z3.BoolSort()
TOQITO_RET = {"pretty_good_measurement": (Arr, Arr, Arr), "state_distinguishability": (R, Arr), "state_exclusion": (R, Arr), "is_positive_semidefinite": B, "is_hermitian": B, "is_identity": B, "is_herm_preserving": B, "is_completely_positive": B, "is_trace_preserving": B, "kraus_to_choi": Arr, "completely_bounded_trace_norm": R, "dual_channel": Arr, "trace_norm": R, "fidelity": R, "partial_transpose": Arr, "to_density_matrix": Arr, "is_ppt": z3.BoolSort(), "hilbert_schmidt_inner_product": R, "partial_trace": Arr, "purity": R, "calculate_vector_matrix_dimension": R, "vectors_to_gram_matrix": Arr, "symmetric_projection": Arr, "pauli": Arr}


def pred(text, env):
    e = ast.parse(text, mode="eval").body
    names = sorted({n.id for n in ast.walk(e) if isinstance(n, ast.Name) and n.id in env and z3.is_expr(env[n.id])})
    return uf("pred:" + ast.unparse(e), z3.BoolSort(), *[env[n] for n in names])


class TermContract:
    def __init__(self, params, requires, spec, text):
        self.params = params
        self.requires = requires
        self.spec = spec
        self.text = text

    def inputs(self):
        env = {}
        for name, kind in self.params:
            if kind == "arr":
                env[name] = z3.Const(name, Arr)
            elif kind == "real":
                env[name] = z3.Real(name)
            elif isinstance(kind, str) and kind.startswith("arrlist"):
                env[name] = [z3.Const("%s_%d" % (name, i), Arr) for i in range(int(kind[7:]))]
            elif isinstance(kind, str) and kind.startswith("reallist"):
                env[name] = [z3.Real("%s_%d" % (name, i)) for i in range(int(kind[8:]))]
            else:
                env[name] = kind  # a concrete default value
        self.env0 = dict(env)
        pc = []
        for t in self.requires:
            if callable(t):  # a precondition given directly as a formula over the inputs
                pc.append(t(env))
                continue
            if t.startswith("never "):
                # the condition is false whatever term the named variables hold at that point (they may have been re-assigned by then)
                body = pred(t[6:], env)
                vs = [z3.Const("any_%d" % i, a.sort()) for i, a in enumerate(body.children())]
                pc.append(z3.ForAll(vs, z3.Not(body.decl()(*vs))) if vs else z3.Not(body))
            elif t.startswith("not "):
                pc.append(z3.Not(pred(t[4:], env)))
            else:
                pc.append(pred(t, env))
        return env, pc

    toqito_names = set(["is_positive_semidefinite", "is_ppt", "is_hermitian", "is_identity", "is_herm_preserving", "is_completely_positive", "is_trace_preserving"])

    _index = None
    # methods of opaque objects (the object is a term of sort Arr): result sorts
    methods = {"to_nonlocal_game": Arr, "classical_value": R, "nonsignaling_value": R, "quantum_value": R}

    def bind_callee(self, eng, name, args, kw_terms, kws):
        """toqito callees are applied by PARAMETER NAME (bound through the callee's real signature, re-read from the repository):
        `f(x, t)` and `f(x, atol=t)` are different terms unless t lands on the same parameter."""
        if name not in TOQITO_RET:
            return NotImplemented
        from vt.frame import Index
        from vt.pyvc.termvc import const_repr, is_z3

        if TermContract._index is None:
            TermContract._index = Index()
        ent = TermContract._index.funcs.get(name)
        if ent is None:
            return NotImplemented
        params = [a.arg for a in ent[1].args.args]
        bound = []
        consts = list(kws)
        for pname, a in zip(params, args):
            if is_z3(a):
                bound.append((pname, [a]))
            elif isinstance(a, (list, tuple)) and any(is_z3(x) for x in a):
                bound.append((pname + ":list%d" % len(a), list(a)))
            else:
                c = const_repr(a)
                if c is None:
                    return NotImplemented
                consts.append("%s=%s" % (pname, c))
        for pname, v in kw_terms:
            bound.append((pname, [v]))
        bound.sort(key=lambda t: t[0])
        uname = "toqito.%s(%s)%s" % (name, ",".join(n for n, _ in bound), "[" + ",".join(sorted(consts)) + "]" if consts else "")
        if isinstance(TOQITO_RET[name], tuple):  # a callee returning a tuple: one term per component
            return tuple(uf("%s#%d" % (uname, k), srt, *[x for _, xs in bound for x in xs]) for k, srt in enumerate(TOQITO_RET[name]))
        return uf(uname, TOQITO_RET[name], *[x for _, xs in bound for x in xs])

    def callee(self, eng, name, full, args):
        return NotImplemented

    def post(self, eng, value, env):
        try:
            exp = self.spec(self.env0)
        except Exception as e:
            return [("spec could not be built: %s" % e, False)]
        if isinstance(exp, (list, tuple)):
            if not isinstance(value, (list, tuple)) or len(value) != len(exp):
                return [("result is a list of %d elements" % len(exp), False)]
            out = []
            for k, (v_, e_) in enumerate(zip(value, exp)):
                v_ = lift(v_)
                if not z3.is_expr(v_) or v_.sort() != e_.sort():
                    return [("element %d of the result has the sort of the specification" % k, False)]
                out.append(("%s [element %d]" % (self.text, k), v_ == e_))
            return out
        if not z3.is_expr(lift(value)):
            return [("result is a term", False)]
        v = lift(value)
        if v.sort() != exp.sort():
            return [("result has the sort of the specification (%s)" % exp.sort(), False)]
        return [(self.text, v == exp)]


def tq(name, ret, consts=(), **named):
    """spec-side application of a toqito callee by parameter name (mirrors TermContract.bind_callee)"""
    items = sorted(named.items())
    names = []
    args = []
    for k, v in items:
        if isinstance(v, (list, tuple)):
            names.append("%s:list%d" % (k, len(v)))
            args += list(v)
        else:
            names.append(k)
            args.append(v)
    uname = "toqito.%s(%s)%s" % (name, ",".join(sorted(names)), "[" + ",".join(sorted(consts)) + "]" if consts else "")
    order = sorted(range(len(names)), key=lambda i: names[i])
    flat = []
    for k, v in sorted(((n, v) for n, (kk, v) in zip(names, items)), key=lambda t: t[0]):
        flat += list(v) if isinstance(v, (list, tuple)) else [v]
    return uf(uname, ret, *flat)


def tqt(name, k, rets, consts=(), **named):
    """component k of a tuple-returning toqito callee applied by parameter name (mirrors bind_callee)"""
    items = sorted(named.items())
    uname = "toqito.%s(%s)%s" % (name, ",".join(n for n, _ in items), "[" + ",".join(sorted(consts)) + "]" if consts else "")
    return uf("%s#%d" % (uname, k), rets[k], *[v for _, v in items])


def isclose(a, b, rtol=1e-05, atol=1e-08):
    return uf("np.isclose", B, a, b, rtol, atol)


def ones_list(n):
    return uf("list-repeat[[1]]", Arr, n)


def smul(c, a):
    return uf("mul", Arr, c, a)


def add3(xs):
    acc = xs[0]
    for x in xs[1:]:
        acc = uf("add", Arr, acc, x)
    return acc


def allclose(a, b, rtol, atol):
    return uf("np.allclose", B, a, b, rtol, atol)


def dag(a):
    return uf("transpose", Arr, uf("conj", Arr, a))


def sub(a, b):
    return uf("sub", Arr, a, b)


def mm(a, b):
    return uf("matmul", Arr, a, b)


def tr(a):
    return uf("np.trace", R, a)


def re(a):
    return uf("np.real", R if a.sort() == R else Arr, a)


def sqrt(a):
    return uf("np.sqrt", R, a)


def tn(a):
    return tq("trace_norm", R, rho=a)


def fid(a, b):
    return tq("fidelity", R, rho=a, sigma=b)


def zmin1(a):
    return z3.If(z3.RealVal(1) <= a, z3.RealVal(1), a)


def zmax0(a):
    return z3.If(a >= z3.RealVal(0), a, z3.RealVal(0))


def rnd(a, dec):
    return uf("np.round[%d]" % dec, R, a)


DENS2 = ["is_density(rho)", "is_density(sigma)"]

CONTRACTS = {
    # name: (relpath, params, requires, spec, text)
    "trace_norm": ("toqito/matrix_props/trace_norm.py", [("rho", "arr")], [], lambda e: uf("np.linalg.norm[ord='nuc']", R, e["rho"]), "trace_norm(X) == nuclear norm of X"),
    "trace_distance": ("toqito/state_metrics/trace_distance.py", [("rho", "arr"), ("sigma", "arr")], DENS2, lambda e: tn(sub(e["rho"], e["sigma"])) / 2, "trace_distance(rho, sigma) == trace_norm(rho - sigma) / 2"),
    "helstrom_holevo": ("toqito/state_metrics/helstrom_holevo.py", [("rho", "arr"), ("sigma", "arr")], DENS2, lambda e: z3.RealVal("1/2") + tn(sub(e["rho"], e["sigma"])) / 4, "helstrom_holevo(rho, sigma) == 1/2 + trace_norm(rho - sigma) / 4"),
    "hilbert_schmidt": ("toqito/state_metrics/hilbert_schmidt.py", [("rho", "arr"), ("sigma", "arr")], DENS2, lambda e: uf("np.linalg.norm[ord='fro']", R, sub(e["rho"], e["sigma"])) * uf("np.linalg.norm[ord='fro']", R, sub(e["rho"], e["sigma"])), "hilbert_schmidt(rho, sigma) == Tr((rho - sigma)^2) == squared Frobenius norm of rho - sigma (the documented formula)"),
    "bures_distance": ("toqito/state_metrics/bures_distance.py", [("rho_1", "arr"), ("rho_2", "arr"), ("decimals", 10)], ["np.all(rho_1.shape == rho_2.shape)"], lambda e: sqrt(2 * (1 - zmin1(rnd(fid(e["rho_1"], e["rho_2"]), 10)))), "bures_distance == sqrt(2 (1 - F)) with F = min(1, fidelity rounded to `decimals`)"),
    "bures_angle": ("toqito/state_metrics/bures_angle.py", [("rho_1", "arr"), ("rho_2", "arr"), ("decimals", 10)], ["np.all(rho_1.shape == rho_2.shape)"], lambda e: uf("np.real", R, uf("np.arccos", R, sqrt(zmin1(rnd(fid(e["rho_1"], e["rho_2"]), 10))))), "bures_angle == arccos(sqrt(F)) with F = min(1, fidelity rounded to `decimals`) (as documented)"),
    "sub_fidelity": ("toqito/state_metrics/sub_fidelity.py", [("rho", "arr"), ("sigma", "arr")], ["np.all(rho.shape == sigma.shape)"] + DENS2,
                     lambda e: uf("np.real", R, tr(mm(e["rho"], e["sigma"])) + sqrt(2 * zmax0(uf("np.real", R, tr(mm(e["rho"], e["sigma"])) * tr(mm(e["rho"], e["sigma"])) - tr(mm(mm(mm(e["rho"], e["sigma"]), e["rho"]), e["sigma"])))))),
                     "sub_fidelity == Tr(rho sigma) + sqrt(2 ((Tr rho sigma)^2 - Tr(rho sigma rho sigma)))"),
    "fidelity": ("toqito/state_metrics/fidelity.py", [("rho", "arr"), ("sigma", "arr")], ["np.all(rho.shape == sigma.shape)", "not isinstance(rho, cvxpy.atoms.affine.vstack.Vstack)", "not isinstance(sigma, cvxpy.atoms.affine.vstack.Vstack)"] + DENS2,
                 lambda e: uf("np.real", R, tr(uf("scipy.linalg.sqrtm", Arr, mm(mm(uf("scipy.linalg.sqrtm", Arr, e["rho"]), e["sigma"]), uf("scipy.linalg.sqrtm", Arr, e["rho"]))))),
                 "fidelity == Re Tr sqrt( sqrt(rho) sigma sqrt(rho) )  (root fidelity, as documented)"),
    "hilbert_schmidt_inner_product": ("toqito/state_metrics/hilbert_schmidt_inner_product.py", [("a_mat", "arr"), ("b_mat", "arr")], [], lambda e: tr(mm(uf("transpose", Arr, uf("conj", Arr, e["a_mat"])), e["b_mat"])), "<A, B> == Tr(A^dagger B)"),
    "is_ppt": ("toqito/state_props/is_ppt.py", [("mat", "arr"), ("sys", "real"), ("dim", "arr"), ("tol", "real")], ["not dim is None", "not tol is None"],
               lambda e: tq("is_positive_semidefinite", z3.BoolSort(), mat=tq("partial_transpose", Arr, rho=e["mat"], sys=[e["sys"] - 1], dim=e["dim"]), atol=e["tol"]),
               "is_ppt(mat, sys, dim, tol) == is_positive_semidefinite(partial_transpose(mat, [sys - 1], dim), atol=tol): the tolerance bounds the eigenvalues (sys is 1-indexed, partial_transpose 0-indexed)"),
    "is_npt": ("toqito/state_props/is_npt.py", [("mat", "arr"), ("sys", "real"), ("dim", "arr"), ("tol", "real")], [],
               lambda e: z3.Not(tq("is_ppt", z3.BoolSort(), mat=e["mat"], sys=e["sys"], dim=e["dim"], tol=e["tol"])), "is_npt == not is_ppt (same arguments, bound to the same parameters)"),
    "l1_norm_coherence": ("toqito/state_props/l1_norm_coherence.py", [("rho", "arr")], [],
                          lambda e: uf("np.sum", R, uf("np.sum", R, uf("np.abs", Arr, tq("to_density_matrix", Arr, input_array=e["rho"])))) - tr(tq("to_density_matrix", Arr, input_array=e["rho"])),
                          "l1_norm_coherence == sum of |entries| of the density matrix minus its trace (= sum of off-diagonal moduli for a density matrix)"),
    # channel predicates, Choi-matrix branch (requires: phi is not a list): tolerances must reach the same-named parameters of the callees
    "is_positive": ("toqito/channel_props/is_positive.py", [("phi", "arr"), ("rtol", "real"), ("atol", "real")], ["not isinstance(phi, list)"],
                    lambda e: tq("is_positive_semidefinite", B, mat=e["phi"], rtol=e["rtol"], atol=e["atol"]), "is_positive(J, rtol, atol) == is_positive_semidefinite(J, rtol=rtol, atol=atol)"),
    "is_herm_preserving": ("toqito/channel_props/is_herm_preserving.py", [("phi", "arr"), ("rtol", "real"), ("atol", "real")], ["not isinstance(phi, list)", lambda e: uf("shape[0]", R, e["phi"]) == uf("shape[1]", R, e["phi"])],
                           lambda e: tq("is_hermitian", B, mat=e["phi"], rtol=e["rtol"], atol=e["atol"]), "is_herm_preserving(J, rtol, atol) == is_hermitian(J, rtol=rtol, atol=atol) for a square Choi matrix"),
    "is_completely_positive": ("toqito/channel_props/is_completely_positive.py", [("phi", "arr"), ("rtol", "real"), ("atol", "real")], ["not isinstance(phi, list)"],
                               lambda e: z3.And(tq("is_herm_preserving", B, phi=e["phi"], rtol=e["rtol"], atol=e["atol"]), tq("is_positive_semidefinite", B, mat=e["phi"], rtol=e["rtol"], atol=e["atol"])),
                               "is_completely_positive(J) == Hermiticity-preserving and J positive semidefinite, tolerances passed on by name"),
    "is_trace_preserving": ("toqito/channel_props/is_trace_preserving.py", [("phi", "arr"), ("rtol", "real"), ("atol", "real"), ("sys", "real"), ("dim", "arr")], ["not isinstance(phi, list)", "not dim is None"],
                            lambda e: tq("is_identity", B, mat=uf("np.array", Arr, tq("partial_trace", Arr, input_mat=e["phi"], sys=[e["sys"] - 1], dim=e["dim"])), rtol=e["rtol"], atol=e["atol"]),
                            "is_trace_preserving(J, rtol, atol, sys, dim) == is_identity(partial_trace(J, [sys - 1], dim), rtol=rtol, atol=atol)"),
    "is_quantum_channel": ("toqito/channel_props/is_quantum_channel.py", [("phi", "arr"), ("rtol", "real"), ("atol", "real")], ["not isinstance(phi, list)"],
                           lambda e: z3.And(tq("is_completely_positive", B, phi=e["phi"], rtol=e["rtol"], atol=e["atol"]), tq("is_trace_preserving", B, phi=e["phi"], rtol=e["rtol"], atol=e["atol"])),
                           "is_quantum_channel(J) == completely positive and trace preserving, tolerances passed on by name"),
    # matrix predicates: the defining equation compared with np.allclose, tolerances reaching rtol / atol by name
    "is_hermitian": ("toqito/matrix_props/is_hermitian.py", [("mat", "arr"), ("rtol", "real"), ("atol", "real")], ["is_square(mat)"],
                     lambda e: allclose(e["mat"], dag(e["mat"]), e["rtol"], e["atol"]), "is_hermitian(X, rtol, atol) == allclose(X, X^dagger, rtol=rtol, atol=atol) for square X"),
    "is_positive_semidefinite": ("toqito/matrix_props/is_positive_semidefinite.py", [("mat", "arr"), ("rtol", "real"), ("atol", "real")], [],
                                 lambda e: z3.And(tq("is_hermitian", B, mat=e["mat"], rtol=e["rtol"], atol=e["atol"]), pred("all((x >= -abs(atol) for x in evals))", dict(atol=e["atol"], evals=uf("np.linalg.eigh#0", Arr, e["mat"])))),
                                 "is_positive_semidefinite(X, rtol, atol) == is_hermitian(X, rtol=rtol, atol=atol) and every eigenvalue of X is >= -|atol|"),
    "is_symmetric": ("toqito/matrix_props/is_symmetric.py", [("mat", "arr"), ("rtol", "real"), ("atol", "real")], ["is_square(mat)"],
                     lambda e: allclose(e["mat"], uf("transpose", Arr, e["mat"]), e["rtol"], e["atol"]), "is_symmetric(X) == allclose(X, X^T, rtol, atol)"),
    "is_idempotent": ("toqito/matrix_props/is_idempotent.py", [("mat", "arr"), ("rtol", "real"), ("atol", "real")], ["is_square(mat)"],
                      lambda e: allclose(e["mat"], mm(e["mat"], e["mat"]), e["rtol"], e["atol"]), "is_idempotent(X) == allclose(X, X X, rtol, atol)"),
    "is_identity": ("toqito/matrix_props/is_identity.py", [("mat", "arr"), ("rtol", "real"), ("atol", "real")], ["is_square(mat)"],
                    lambda e: allclose(e["mat"], uf("np.eye", Arr, uf("len", R, e["mat"])), e["rtol"], e["atol"]), "is_identity(X) == allclose(X, I, rtol, atol)"),
    "is_normal": ("toqito/matrix_props/is_normal.py", [("mat", "arr"), ("rtol", "real"), ("atol", "real")], ["is_square(mat)"],
                  lambda e: allclose(mm(e["mat"], dag(e["mat"])), mm(dag(e["mat"]), e["mat"]), e["rtol"], e["atol"]), "is_normal(X) == allclose(X X^dagger, X^dagger X, rtol, atol)"),
    "is_projection": ("toqito/matrix_props/is_projection.py", [("mat", "arr"), ("rtol", "real"), ("atol", "real")], ["is_square(mat)"],
                      lambda e: allclose(uf("np.linalg.matrix_power[2]", Arr, e["mat"]), e["mat"], e["rtol"], e["atol"]), "is_projection(X) == allclose(X^2, X, rtol, atol) (as implemented and pinned by the tests: idempotence)"),
    "is_unitary": ("toqito/matrix_props/is_unitary.py", [("mat", "arr"), ("rtol", "real"), ("atol", "real")], ["is_square(mat)"],
                   lambda e: z3.And(allclose(mm(dag(e["mat"]), e["mat"]), uf("np.eye", Arr, uf("len", R, e["mat"])), e["rtol"], e["atol"]), allclose(mm(e["mat"], dag(e["mat"])), uf("np.eye", Arr, uf("len", R, e["mat"])), e["rtol"], e["atol"])),
                   "is_unitary(U) == allclose(U^dagger U, I) and allclose(U U^dagger, I), tolerances by name"),
    "is_anti_hermitian": ("toqito/matrix_props/is_anti_hermitian.py", [("mat", "arr"), ("rtol", "real"), ("atol", "real")], [],
                          lambda e: tq("is_hermitian", B, mat=uf("mul", Arr, e["mat"], uf("complex-constant[1j]", R)), rtol=e["rtol"], atol=e["atol"]), "is_anti_hermitian(X) == is_hermitian(i X, rtol=rtol, atol=atol)"),
    "is_commuting": ("toqito/matrix_props/is_commuting.py", [("mat_1", "arr"), ("mat_2", "arr")], [],
                     lambda e: allclose(sub(mm(e["mat_1"], e["mat_2"]), mm(e["mat_2"], e["mat_1"])), z3.RealVal(0), z3.RealVal("1e-05"), z3.RealVal("1e-08")), "is_commuting(A, B) == allclose(A B - B A, 0) with numpy's default tolerances"),
    "is_density": ("toqito/matrix_props/is_density.py", [("mat", "arr")], [],
                   lambda e: z3.And(tq("is_positive_semidefinite", B, mat=e["mat"]), uf("np.isclose", B, tr(e["mat"]), z3.RealVal(1), z3.RealVal("1e-05"), z3.RealVal("1e-08"))), "is_density(X) == positive semidefinite and isclose(Tr X, 1)"),
    "diamond_distance": ("toqito/channel_metrics/diamond_distance.py", [("choi_1", "arr"), ("choi_2", "arr")], [],
                         lambda e: tq("completely_bounded_trace_norm", R, phi=sub(e["choi_1"], e["choi_2"])), "diamond_distance(J1, J2) == completely_bounded_trace_norm(J1 - J2) (un-halved, as the statement and the tests use it)"),
    "completely_bounded_spectral_norm": ("toqito/channel_metrics/completely_bounded_spectral_norm.py", [("phi", "arr")], [],
                                         lambda e: tq("completely_bounded_trace_norm", R, phi=tq("dual_channel", Arr, phi_op=e["phi"])), "cb spectral norm of Phi == cb trace norm of the dual map"),
    "is_distinguishable": ("toqito/state_props/is_distinguishable.py", [("states", "arr"), ("probs", "arr")], [],
                           lambda e: isclose(tqt("state_distinguishability", 0, (R, Arr), consts=["primal_dual='dual'"], vectors=e["states"], probs=e["probs"]), 1),
                           "is_distinguishable(states, probs) == isclose(min-error discrimination value of the same states and priors (dual form), 1)"),
    "is_antidistinguishable": ("toqito/state_props/is_antidistinguishable.py", [("states", "arr")], [],
                               lambda e: isclose(tqt("state_exclusion", 0, (R, Arr), consts=["primal_dual='dual'"], vectors=e["states"], probs=ones_list(uf("len", R, e["states"]))), 0),
                               "is_antidistinguishable(states) == isclose(min-error exclusion value of the states with unit weights (dual form), 0)"),
    "common_quantum_overlap": ("toqito/state_props/common_quantum_overlap.py", [("states", "arr")], [],
                               lambda e: (lambda n, v: n * (1 - (1 - v / n)))(uf("len", R, e["states"]), tqt("state_exclusion", 0, (R, Arr), consts=["primal_dual='dual'"], vectors=e["states"], probs=ones_list(uf("len", R, e["states"])))),
                               "common_quantum_overlap(states) == n (1 - A) with A = 1 - v / n and v the exclusion value of the states with unit weights (the documented formula)"),
    "XORGame.classical_value": ("toqito/nonlocal_games/xor_game.py", [("self", "arr")], [], lambda e: uf("method:classical_value", R, uf("method:to_nonlocal_game", Arr, e["self"])),
                                "XORGame.classical_value() is the classical value of the game's conversion to a general nonlocal game"),
    "XORGame.nonsignaling_value": ("toqito/nonlocal_games/xor_game.py", [("self", "arr")], [], lambda e: uf("method:nonsignaling_value", R, uf("method:to_nonlocal_game", Arr, e["self"])),
                                   "XORGame.nonsignaling_value() is the non-signaling value of the game's conversion to a general nonlocal game"),
    "negativity": ("toqito/state_props/negativity.py", [("rho", "arr"), ("dim", "arr")], ["not dim is None", "isinstance(dim, list)", "never isinstance(dim, int)", "never np.prod(dim) != rho_dims[0]"],
                   lambda e: (uf("np.linalg.norm[ord='nuc']", R, tq("partial_transpose", Arr, consts=["sys=[1]"], rho=tq("to_density_matrix", Arr, input_array=e["rho"]), dim=uf("map[int(x.item()) for x]", Arr, uf("np.array", Arr, e["dim"])))) - 1) / 2,
                   "negativity(rho, dim) == (trace norm of the partial transpose over the second subsystem of the density matrix - 1) / 2"),
    "log_negativity": ("toqito/state_props/log_negativity.py", [("rho", "arr"), ("dim", "arr")], ["not dim is None", "isinstance(dim, list)", "never isinstance(dim, int)", "never np.prod(dim) != rho_dims[0]"],
                       lambda e: uf("np.log2", R, uf("np.linalg.norm[ord='nuc']", R, tq("partial_transpose", Arr, consts=["sys=[1]"], rho=tq("to_density_matrix", Arr, input_array=e["rho"]), dim=uf("map[int(x.item()) for x]", Arr, uf("np.array", Arr, e["dim"]))))),
                       "log_negativity(rho, dim) == log2 of the trace norm of the partial transpose over the second subsystem"),
    "pretty_good_measurement": ("toqito/measurements/pretty_good_measurement.py", [("states", "arrlist3"), ("probs", "reallist3")], ["not probs is None", lambda e: isclose(e["probs"][0] + e["probs"][1] + e["probs"][2], 1)],
                                lambda e: (lambda rho, R_: [mm(mm(R_, smul(e["probs"][i], rho[i])), R_) for i in range(3)])(
                                    [tq("to_density_matrix", Arr, input_array=s_) for s_ in e["states"]],
                                    uf("scipy.linalg.fractional_matrix_power[-0.5]", Arr, add3([smul(e["probs"][i], tq("to_density_matrix", Arr, input_array=e["states"][i])) for i in range(3)]))),
                                "pretty_good_measurement(states, probs)[i] == P^(-1/2) (p_i rho_i) P^(-1/2) with P = sum_i p_i rho_i and rho_i = to_density_matrix(states[i])  (3 states)"),
    "pretty_bad_measurement": ("toqito/measurements/pretty_bad_measurement.py", [("states", "arrlist3"), ("probs", "reallist3")], ["not probs is None", lambda e: isclose(e["probs"][0] + e["probs"][1] + e["probs"][2], 1)],
                               lambda e: (lambda G: [smul(z3.RealVal("1/2"), sub(uf("np.identity", Arr, uf("shape[0]", R, G[0])), G[i])) for i in range(3)])(
                                   [uf("toqito.pretty_good_measurement(probs:list3,states:list3)#%d" % i, Arr, *(list(e["probs"]) + list(e["states"]))) for i in range(3)]),
                               "pretty_bad_measurement(states, probs)[i] == (I - G_i) / (n - 1) with G = pretty_good_measurement(states, probs)  (3 states)"),
    "measure": ("toqito/measurement_ops/measure.py", [("state", "arr"), ("measurement", "arr"), ("tol", "real"), ("state_update", True)], ["is_density(state)", "not isinstance(measurement, (list, tuple))"],
                lambda e: (lambda res: (lambda pr: (pr, z3.If(pr > e["tol"], uf("div", Arr, res, pr), uf("np.zeros_like", Arr, e["state"]))))(uf("np.trace", R, res)))(mm(mm(e["measurement"], e["state"]), dag(e["measurement"]))),
                "measure(rho, K, tol, state_update=True) == (p, K rho K^dagger / p if p > tol else 0) with p = Tr(K rho K^dagger)  (single-operator form; Born rule and Lueders update)"),
    "concurrence": ("toqito/state_props/concurrence.py", [("rho", "arr")], ["not rho.shape != (4, 4)"],
                    lambda e: (lambda lam: (lambda v: z3.If(v >= 0, v, z3.RealVal(0)))(uf("item[0]", R, lam) - uf("item[1]", R, lam) - uf("item[2]", R, lam) - uf("item[3]", R, lam)))(
                        (lambda yy: uf("reversed", Arr, uf("np.sort", Arr, uf("np.abs", Arr, uf("np.sqrt", Arr, uf("np.linalg.eigvals", Arr, mm(e["rho"], mm(mm(yy, uf("conj", Arr, e["rho"])), yy))))))))(
                            uf("np.kron", Arr, tq("pauli", Arr, consts=["ind='Y'", "is_sparse=False"]), tq("pauli", Arr, consts=["ind='Y'", "is_sparse=False"])))),
                    "concurrence(rho) == max(0, l1 - l2 - l3 - l4) with l the decreasingly sorted |sqrt| of the eigenvalues of rho (Y (x) Y) conj(rho) (Y (x) Y)  (Wootters)"),
    "purity": ("toqito/state_props/purity.py", [("rho", "arr")], ["is_density(rho)"], lambda e: uf("np.real", R, tr(uf("np.linalg.matrix_power[2]", Arr, e["rho"]))), "purity == Re Tr(rho^2)"),
}
