"""Contracts of the index layer (prover side): preconditions and functional postconditions as spec arrays.

Every `spec_*` builds, from the *arguments only*, the array the property statement prescribes.  It is used
(a) as the postcondition the function's own body is verified against and (b) as the summary a caller sees at a call
site -- callers never see callee bodies.  `summary_*` are the call-site adapters: they bind arguments the way the
real signature does, emit the call-site precondition obligations into the caller's context and return the spec array.

Notation: enc_d(j) = sum_i j_i * prod_{s>i} d_s (last subsystem fastest).
"""
from __future__ import annotations

import numpy as np
import sympy as sp

from vt.pyvc import sym
from vt.pyvc.interp import Unsupported, has_sym, is_sym
from vt.pyvc.sym import ConstVec, Entry, Num, SumEntry, SymArray, as_num, enc, same, unflatten


def _prod(xs):
    r = sp.Integer(1)
    for x in xs:
        r *= sp.sympify(x)
    return r


def _aslist(x):
    if isinstance(x, np.ndarray):
        return [(_sint(v)) for v in x.tolist()] if x.ndim == 1 else [[_sint(v) for v in row] for row in x.tolist()]
    if isinstance(x, (list, tuple)):
        return [(_aslist(v) if isinstance(v, (list, tuple, np.ndarray)) else _sint(v)) for v in x]
    raise Unsupported("dimension argument of type %s" % type(x).__name__)


def _sint(v):
    if isinstance(v, sp.Expr):
        return int(v) if v.is_Integer else v
    if isinstance(v, (int, np.integer)):
        return int(v)
    if isinstance(v, float) and float(v).is_integer():
        return int(v)
    raise Unsupported("dimension entry %r" % (v,))


def pre(interp, text, cond, kind="call-site-pre"):
    """record a claim obligation decided structurally or by z3 under the caller's path condition"""
    ctx = interp.ctx if hasattr(interp, "ctx") else interp
    if cond is True or cond is sp.true:
        ctx.obligations.append(dict(kind=kind, text=text, status="discharged", backend="structural"))
        return
    if cond is False or cond is sp.false:
        ctx.obligations.append(dict(kind=kind, text=text, status="refuted", backend="structural", model=None))
        return
    from vt.pyvc.prove import discharge
    from vt.pyvc.interp import negate

    st, be, model, ms = discharge(ctx, [], [negate(cond)])
    ctx.obligations.append(dict(kind=kind, text=text, status=st, backend=be, model=model, ms=ms))


# ---------------------------------------------------------------------------------------------
# vec / unvec
# ---------------------------------------------------------------------------------------------
def spec_vec(M):
    """vec(M): shape (size, 1); result[r + rows*c (+ ...), 0] == M[r, c, ...]  (column-major stacking)."""
    size = M.size()

    def g(idx):
        return M.get(unflatten(as_num(idx[0], size), M.shape, "F"))

    return SymArray((size, sp.Integer(1)), g, M.kind)


def summary_vec(interp, args, kw):
    (M,) = args
    if not isinstance(M, SymArray):
        raise Unsupported("vec of a concrete array")
    pre(interp, "vec: argument is an ndarray", True)
    return spec_vec(M)


def spec_unvec(v, shape):
    """unvec(v, (r, c)): result[i, j] == v.ravel()[i + r*j]."""
    r, c = shape
    flatshape = v.shape

    def g(idx):
        flat = sym.flatten((r, c), idx, "F")
        return v.get(unflatten(flat, flatshape, "F"))

    return SymArray((r, c), g, v.kind)


# ---------------------------------------------------------------------------------------------
# permute_systems
# ---------------------------------------------------------------------------------------------
def _perm_list(perm):
    if isinstance(perm, np.ndarray):
        perm = perm.tolist()
    perm = [int(p) for p in perm]
    return perm


def _digit_map(I, total, dims_q, q, dims):
    """I indexes the permuted space (position i has dimension dims[q[i]]); returns the numeral of the source index
    enc_dims(j) with j[q[i]] = k_i."""
    n = len(q)
    k = unflatten(as_num(I, total), dims_q, "C")  # k[i] : Num of position i
    j = [None] * n
    for i in range(n):
        j[q[i]] = k[i]
    terms = []
    for s in reversed(range(n)):
        t = j[s].terms
        if not t and not sym._is_one(dims[s]):
            t = [(sp.Integer(0), sp.sympify(dims[s]))]
        terms += t
    return Num(terms)


def norm_dims(dim, n, X, is_vec):
    """(row dims, col dims) as the contract understands the `dim` argument; None when the form is the float one."""
    d = _aslist(dim)
    if d and isinstance(d[0], list):
        if len(d) != 2:
            raise Unsupported("dim with %d rows" % len(d))
        return d[0], d[1]
    return d, d


def spec_permute_systems(X, perm, rdims, cdims, row_only=False, inv_perm=False):
    """permute_systems: with q = perm (or perm^-1 when inv_perm), for all digit vectors k (k_i < d_{q[i]}):
       vector:  result[enc_{d.q}(k)] == X[enc_d(j)],  j_{q[i]} = k_i
       matrix:  the same on rows (row dims) and, unless row_only, on columns (column dims); shape kept."""
    perm = _perm_list(perm)
    n = len(perm)
    q = perm if not inv_perm else [int(x) for x in np.argsort(perm)]
    if X.ndim == 1:
        d = rdims
        dq = [d[q[i]] for i in range(n)]
        N = X.shape[0]

        def g(idx):
            return X.get((_digit_map(idx[0], N, dq, q, d),))

        return SymArray((N,), g, X.kind)
    R, C = X.shape
    rq = [rdims[q[i]] for i in range(n)]
    cq = [cdims[q[i]] for i in range(n)]

    def g2(idx):
        I = _digit_map(idx[0], R, rq, q, rdims)
        J = as_num(idx[1], C) if row_only else _digit_map(idx[1], C, cq, q, cdims)
        return X.get((I, J))

    return SymArray((R, C), g2, X.kind)


def bind(params, defaults, args, kw):
    env = dict(defaults)
    for p, a in zip(params, args):
        env[p] = a
    env.update(kw)
    return env


def summary_permute_systems(interp, args, kw):
    a = bind(["input_mat", "perm", "dim", "row_only", "inv_perm"], {"dim": None, "row_only": False, "inv_perm": False}, args, kw)
    X, perm, dim, row_only, inv = a["input_mat"], a["perm"], a["dim"], a["row_only"], a["inv_perm"]
    if not isinstance(X, SymArray):
        raise Unsupported("permute_systems on a concrete array")
    perm = _perm_list(perm)
    n = len(perm)
    pre(interp, "permute_systems: perm is a permutation of 0..n-1", sorted(perm) == list(range(n)))
    if sorted(perm) != list(range(n)):
        raise Unsupported("call-site precondition failed: perm %s" % perm)
    if dim is None:
        raise Unsupported("permute_systems called without dim (float prelude; S-float-dims, bounded check only)")
    if not isinstance(row_only, bool) or not isinstance(inv, bool):
        raise Unsupported("symbolic flags")
    if X.ndim == 1:
        d = _aslist(dim)
        if d and isinstance(d[0], list):
            raise Unsupported("vector with 2-row dim")
        pre(interp, "permute_systems: len(dim) == len(perm)", len(d) == n)
        pre(interp, "permute_systems: prod(dim) == len(vector)", sp.Eq(_prod(d), X.shape[0]) if not same(_prod(d), X.shape[0]) else True)
        return spec_permute_systems(X, perm, d, d, False, inv)
    if X.ndim != 2:
        raise Unsupported("permute_systems on a %d-d array" % X.ndim)
    rd, cd = norm_dims(dim, n, X, False)
    pre(interp, "permute_systems: len(dim) == len(perm)", len(rd) == n and len(cd) == n)
    pre(interp, "permute_systems: row total >= 2 and column total >= 2 (a matrix, not a vector)", sp.And(sp.Ge(X.shape[0], 2), sp.Ge(X.shape[1], 2)))
    pre(interp, "permute_systems: prod(row dims) == rows", True if same(_prod(rd), X.shape[0]) else sp.Eq(_prod(rd), X.shape[0]))
    if not row_only:
        pre(interp, "permute_systems: prod(col dims) == cols", True if same(_prod(cd), X.shape[1]) else sp.Eq(_prod(cd), X.shape[1]))
    return spec_permute_systems(X, perm, rd, cd, row_only, inv)


# ---------------------------------------------------------------------------------------------
# swap
# ---------------------------------------------------------------------------------------------
def spec_swap(X, sys, rdims, cdims, row_only=False):
    """swap(X, [s1, s2], dim): the permute_systems postcondition for the transposition (s1-1 s2-1) (sys is 1-indexed)."""
    n = len(rdims)
    perm = list(range(n))
    a, b = int(sys[0]) - 1, int(sys[1]) - 1
    perm[a], perm[b] = perm[b], perm[a]
    return spec_permute_systems(X, perm, rdims, cdims, row_only, False)


def summary_swap(interp, args, kw):
    a = bind(["rho", "sys", "dim", "row_only"], {"sys": None, "dim": None, "row_only": False}, args, kw)
    X, sys_, dim, row_only = a["rho"], a["sys"], a["dim"], a["row_only"]
    if sys_ is None:
        sys_ = [1, 2]
    if dim is None or isinstance(dim, (int, sp.Expr)):
        raise Unsupported("swap with scalar/omitted dim (float prelude)")
    if not isinstance(X, SymArray) or X.ndim != 2:
        raise Unsupported("swap on a non-matrix")
    d = _aslist(dim)
    if d and isinstance(d[0], list):
        rd, cd = d
    else:
        rd, cd = d, d
    n = len(rd)
    sys_ = [int(s) for s in (sys_.tolist() if isinstance(sys_, np.ndarray) else sys_)]
    pre(interp, "swap: sys has two entries in 1..n", len(sys_) == 2 and all(1 <= s <= n for s in sys_))
    pre(interp, "swap: prod(row dims) == rows", True if same(_prod(rd), X.shape[0]) else sp.Eq(_prod(rd), X.shape[0]))
    if not row_only:
        pre(interp, "swap: prod(col dims) == cols", True if same(_prod(cd), X.shape[1]) else sp.Eq(_prod(cd), X.shape[1]))
    pre(interp, "swap: row total >= 2 and column total >= 2", sp.And(sp.Ge(X.shape[0], 2), sp.Ge(X.shape[1], 2)))
    return spec_swap(X, sys_, rd, cd, row_only)


# ---------------------------------------------------------------------------------------------
# partial_trace
# ---------------------------------------------------------------------------------------------
def spec_partial_trace(X, sys_, dims):
    """partial_trace(X, S, d): with K the subsystems not in S in increasing order,
       result[enc_{d|K}(k), enc_{d|K}(l)] == sum_{t in prod_{s in S}[0,d_s)} X[enc_d(k u t), enc_d(l u t)]."""
    n = len(dims)
    S = [int(s) for s in sys_]
    K = [i for i in range(n) if i not in S]
    dK = [dims[i] for i in K]
    PK = _prod(dK)

    def g(idx):
        W = sym.world()
        k = unflatten(as_num(idx[0], PK), dK, "C") if K else ()
        l = unflatten(as_num(idx[1], PK), dK, "C") if K else ()
        bound = []
        u = {}
        for s in sorted(set(S)):
            if sym._is_one(dims[s]):
                u[s] = Num([])
                continue
            t = W.fresh_digit("b", dims[s])
            u[s] = Num([(t, dims[s])])
            bound.append((t, sp.sympify(dims[s])))
        jr = [None] * n
        jc = [None] * n
        for a_, i in enumerate(K):
            jr[i] = k[a_]
            jc[i] = l[a_]
        for s in S:
            jr[s] = u[s]
            jc[s] = u[s]

        def cat(js):
            terms = []
            for s in reversed(range(n)):
                t = js[s].terms
                if not t and not sym._is_one(dims[s]):
                    t = [(sp.Integer(0), sp.sympify(dims[s]))]
                terms += t
            return Num(terms)

        body = X.get((cat(jr), cat(jc)))
        return SumEntry(bound, body) if bound else body

    return SymArray((PK, PK), g, X.kind)


def summary_partial_trace(interp, args, kw):
    a = bind(["input_mat", "sys", "dim"], {"sys": None, "dim": None}, args, kw)
    X, sys_, dim = a["input_mat"], a["sys"], a["dim"]
    if dim is None or sys_ is None or isinstance(dim, (int, sp.Expr)):
        raise Unsupported("partial_trace with scalar/omitted arguments (float prelude)")
    d = _aslist(dim)
    S = [int(sys_)] if isinstance(sys_, (int, np.integer)) else [int(s) for s in (sys_.tolist() if isinstance(sys_, np.ndarray) else sys_)]
    n = len(d)
    pre(interp, "partial_trace: sys within 0..n-1, no repeats", all(0 <= s < n for s in S) and len(set(S)) == len(S))
    pre(interp, "partial_trace: square with prod(dim) == size", True if (same(_prod(d), X.shape[0]) and same(X.shape[0], X.shape[1])) else sp.And(sp.Eq(_prod(d), X.shape[0]), sp.Eq(X.shape[0], X.shape[1])))
    return spec_partial_trace(X, S, d)


# ---------------------------------------------------------------------------------------------
# partial_transpose
# ---------------------------------------------------------------------------------------------
def spec_partial_transpose(X, sys_, rdims, cdims):
    """partial_transpose(X, S, dim): result[enc_{r'}(a), enc_{c'}(b)] == X[enc_r(a'), enc_c(b')] where
       (a'_s, b'_s) = (b_s, a_s) for s in S and (a_s, b_s) otherwise; r'/c' are r/c with the entries in S exchanged."""
    n = len(rdims)
    S = set(int(s) for s in sys_)
    r2 = [cdims[s] if s in S else rdims[s] for s in range(n)]
    c2 = [rdims[s] if s in S else cdims[s] for s in range(n)]
    R2, C2 = _prod(r2), _prod(c2)

    def g(idx):
        a = unflatten(as_num(idx[0], R2), r2, "C")
        b = unflatten(as_num(idx[1], C2), c2, "C")
        ar = [b[s] if s in S else a[s] for s in range(n)]
        bc = [a[s] if s in S else b[s] for s in range(n)]

        def cat(js, ds):
            terms = []
            for s in reversed(range(n)):
                t = js[s].terms
                if not t and not sym._is_one(ds[s]):
                    t = [(sp.Integer(0), sp.sympify(ds[s]))]
                terms += t
            return Num(terms)

        return X.get((cat(ar, rdims), cat(bc, cdims)))

    return SymArray((R2, C2), g, X.kind)


def summary_partial_transpose(interp, args, kw):
    a = bind(["rho", "sys", "dim"], {"sys": None, "dim": None}, args, kw)
    X, sys_, dim = a["rho"], a["sys"], a["dim"]
    if dim is None or sys_ is None or isinstance(dim, (int, float, sp.Expr)):
        raise Unsupported("partial_transpose with scalar/omitted arguments (float prelude)")
    d = _aslist(dim)
    if d and isinstance(d[0], list):
        rd, cd = d
    else:
        rd, cd = d, d
    n = len(rd)
    S = [int(sys_)] if isinstance(sys_, (int, np.integer)) else [int(s) for s in (sys_.tolist() if isinstance(sys_, np.ndarray) else sys_)]
    pre(interp, "partial_transpose: sys within 0..n-1", all(0 <= s < n for s in S))
    pre(interp, "partial_transpose: prod(row dims) == rows and prod(col dims) == cols",
        True if (same(_prod(rd), X.shape[0]) and same(_prod(cd), X.shape[1])) else sp.And(sp.Eq(_prod(rd), X.shape[0]), sp.Eq(_prod(cd), X.shape[1])))
    return spec_partial_transpose(X, S, rd, cd)


# ---------------------------------------------------------------------------------------------
# realignment
# ---------------------------------------------------------------------------------------------
def spec_realignment(X, rdims, cdims):
    """realignment(X, [[dA, dB], [dA', dB']]): result[a*dA' + a', b*dB' + b'] == X[a*dB + b, a'*dB' + b'];
       shape (dA*dA', dB*dB').  I.e. A (x) B  |->  vec_row(A) vec_row(B)^T."""
    dA, dB = rdims
    dA2, dB2 = cdims
    R2, C2 = sp.sympify(dA) * dA2, sp.sympify(dB) * dB2

    def g(idx):
        a, a2 = unflatten(as_num(idx[0], R2), [dA, dA2], "C")
        b, b2 = unflatten(as_num(idx[1], C2), [dB, dB2], "C")
        row = Num(_t(b, dB) + _t(a, dA))
        col = Num(_t(b2, dB2) + _t(a2, dA2))
        return X.get((row, col))

    return SymArray((R2, C2), g, X.kind)


def _t(num, radix):
    t = num.terms
    if not t and not sym._is_one(radix):
        t = [(sp.Integer(0), sp.sympify(radix))]
    return t


# ---------------------------------------------------------------------------------------------
# permutation_operator / swap_operator
# ---------------------------------------------------------------------------------------------
def spec_permutation_operator(dims, perm, inv_perm=False):
    """permutation_operator(dim, p): P[r, c] == [c == sigma(r)] with sigma the row map of permute_systems."""
    N = _prod(dims)
    Id = sym.identity(N)
    return spec_permute_systems(Id, perm, dims, dims, True, inv_perm)


# ---------------------------------------------------------------------------------------------
# perm_sign / projectors (call-site contracts used by C18)
# ---------------------------------------------------------------------------------------------
def sign_of(perm0):
    """(-1)^inversions of a permutation of 0..n-1"""
    inv = 0
    for i in range(len(perm0)):
        for j in range(i + 1, len(perm0)):
            if perm0[i] > perm0[j]:
                inv += 1
    return -1 if inv % 2 else 1


def summary_perm_sign(interp, args, kw):
    """perm_sign(perm): requires perm to be a permutation of 1..n (the code indexes np.eye(n)[:, perm - 1]);
    ensures result == (-1)^inversions."""
    perm = _perm_list(args[0])
    n = len(perm)
    ok = sorted(perm) == list(range(1, n + 1))
    pre(interp, "perm_sign: argument %s is a permutation of 1..n (1-indexed)" % perm, ok)
    if not ok:
        raise Unsupported("call-site precondition of perm_sign failed")
    return sign_of([x - 1 for x in perm])


def summary_permutation_operator(interp, args, kw):
    """permutation_operator(dim, perm, inv_perm=False, is_sparse=False): requires perm a permutation of 0..n-1 and, when dim is a
    vector, len(dim) == len(perm) with every entry >= 1; ensures an N x N 0/1 matrix (N = prod dim), see spec_permutation_operator."""
    from vt.pyvc.interp import AbsArr

    a = bind(["dim", "perm", "inv_perm", "is_sparse"], {"inv_perm": False, "is_sparse": False}, args, kw)
    perm = _perm_list(a["perm"])
    n = len(perm)
    pre(interp, "permutation_operator: perm %s is a permutation of 0..n-1" % perm, sorted(perm) == list(range(n)))
    dim = a["dim"]
    if isinstance(dim, (int, sp.Expr)):
        d = [dim] * n
    else:
        d = _aslist(dim)
        pre(interp, "permutation_operator: len(dim) == len(perm)", len(d) == n)
    pre(interp, "permutation_operator: every local dimension >= 1", sp.And(*[sp.Ge(sp.sympify(x), 1) for x in d]) if any(is_sym(x) for x in d) else all(int(x) >= 1 for x in d))
    pre(interp, "permutation_operator: flags are booleans", isinstance(a["inv_perm"], bool) and isinstance(a["is_sparse"], bool))
    N = _prod(d)
    return AbsArr((N, N))


# ---------------------------------------------------------------------------------------------
# dual_channel (Choi-matrix branch) -- C05
# ---------------------------------------------------------------------------------------------
def spec_dual_choi(J, d_in, d_out):
    """dual_channel(J) for a Choi matrix J on (C^{d_in} (x) C^{d_out}) with row dims (di0, do0) and column dims (di1, do1):
       result[(b, a), (b', a')] == conj(J[(a, b), (a', b')]) -- the two tensor factors exchanged and every entry conjugated."""
    (di0, di1), (do0, do1) = d_in, d_out
    swapped = spec_swap(J, [1, 2], [di0, do0], [di1, do1], False)

    def g(idx):
        e = swapped.get(idx)
        return Entry(e.name, e.idx, not e.conj)

    return SymArray(swapped.shape, g, J.kind)


def summary_channel_dim_choi(d_in, d_out):
    """call-site contract of helper.channel_dim for a Choi matrix with `dim` given: returns (d_in pair, d_out pair, None) when
    prod matches the matrix (requires checked at the call site)."""

    def summary(interp, args, kw):
        phi = args[0]
        pre(interp, "channel_dim: Choi matrix has d_in*d_out rows and columns", sp.And(sp.Eq(phi.shape[0], sp.sympify(d_in[0]) * d_out[0]), sp.Eq(phi.shape[1], sp.sympify(d_in[1]) * d_out[1])) if not (same(phi.shape[0], sp.sympify(d_in[0]) * d_out[0]) and same(phi.shape[1], sp.sympify(d_in[1]) * d_out[1])) else True)
        return (list(d_in), list(d_out), None)

    return summary


# ---------------------------------------------------------------------------------------------
# channel application (bilinear: entries are sums of products of input entries)
# ---------------------------------------------------------------------------------------------
def spec_apply_choi(X, J, pr, pc):
    """apply_channel(X, J) for a Choi matrix J = sum_{r,c} E_rc (x) Phi(E_rc), X of shape (mr, mc), Phi(E_rc) of shape (pr, pc):
       result[p, j] == sum_{r < mr, c < mc}  X[r, c] * J[(r, p), (c, j)]          (first tensor factor = input space, major)"""
    from vt.pyvc import bilinear as BL

    mr, mc = X.shape

    def g(idx):
        W = sym.world()
        r = W.fresh_digit("r", mr)
        c = W.fresh_digit("c", mc)
        p, j = as_num(idx[0], pr), as_num(idx[1], pc)
        row = Num(list(p.terms) + [(r, mr)])
        col = Num(list(j.terms) + [(c, mc)])
        body = BL.p_mul(X.get((Num([(r, mr)]), Num([(c, mc)]))), J.get((row, col)))
        return BL.Poly([BL.Term(t.coef, t.factors, t.deltas, list(t.bound) + [(r, mr), (c, mc)]) for t in body.terms])

    return SymArray((pr, pc), g, "poly")


def spec_apply_kraus(X, lefts, rights):
    """apply_channel(X, Kraus): result[p, j] == sum_i sum_{r, c}  A_i[p, r] * X[r, c] * conj(B_i[j, c])   (B_i = A_i when one list is given)"""
    from vt.pyvc import bilinear as BL

    mr, mc = X.shape
    pr, pc = lefts[0].shape[0], rights[0].shape[0]

    def g(idx):
        W = sym.world()
        out = None
        for A, B in zip(lefts, rights):
            r = W.fresh_digit("r", mr)
            c = W.fresh_digit("c", mc)
            rn, cn = Num([(r, mr)]), Num([(c, mc)])
            body = BL.p_mul(BL.p_mul(A.get((idx[0], rn)), X.get((rn, cn))), BL.p_conj(B.get((idx[1], cn))))
            t = BL.Poly([BL.Term(t.coef, t.factors, t.deltas, list(t.bound) + [(r, mr), (c, mc)]) for t in body.terms])
            out = t if out is None else BL.p_add(out, t)
        return out

    return SymArray((pr, pc), g, "poly")


def summary_apply_channel(interp, args, kw):
    """call-site contract of apply_channel: Kraus forms (flat list / list of [A, B] pairs) and Choi matrices"""
    X, phi = args[0], args[1]
    if isinstance(phi, list):
        if not phi:
            raise Unsupported("apply_channel with an empty Kraus list")
        if isinstance(phi[0], SymArray):
            lefts, rights = list(phi), list(phi)
        elif isinstance(phi[0], (list, tuple)) and len(phi[0]) == 2 and all(isinstance(p[0], SymArray) and isinstance(p[1], SymArray) for p in phi):
            lefts, rights = [p[0] for p in phi], [p[1] for p in phi]
        else:
            raise Unsupported("apply_channel contract: nested Kraus form")
        ok = sp.And(*[sp.Eq(A.shape[1], X.shape[0]) for A in lefts], *[sp.Eq(B.shape[1], X.shape[1]) for B in rights])
        pre(interp, "apply_channel: A_i has as many columns as X has rows, B_i as many columns as X has columns", ok)
        return spec_apply_kraus(X, lefts, rights)
    if isinstance(phi, SymArray):
        pr, pc = sp.cancel(phi.shape[0] / X.shape[0]), sp.cancel(phi.shape[1] / X.shape[1])
        pre(interp, "apply_channel: the Choi matrix dimensions are multiples of the operand's", sp.denom(pr) == 1 and sp.denom(pc) == 1)
        return spec_apply_choi(X, phi, pr, pc)
    raise Unsupported("apply_channel contract: representation %s" % type(phi).__name__)


def spec_partial_kraus(rho, lefts, rights, rows, cols):
    """partial_channel(rho, Kraus, sys, dim) == (id (x) Phi (x) id)(rho):  rows = (before, m, after) row dimensions of rho's three blocks
    (the factors before the target, the target, the factors after it), cols likewise for the columns;
       result[(a, p, b), (a', p', b')] == sum_i sum_{r, c} A_i[p, r] * rho[(a, r, b), (a', c, b')] * conj(B_i[p', c])"""
    from vt.pyvc import bilinear as BL

    (r1, mr, r2), (c1, mc, c2) = rows, cols
    pr, pc = lefts[0].shape[0], rights[0].shape[0]

    def g(idx):
        W = sym.world()
        b, p, a = unflatten(as_num(idx[0], r1 * pr * r2), [r2, pr, r1], "F")
        b2, p2, a2 = unflatten(as_num(idx[1], c1 * pc * c2), [c2, pc, c1], "F")
        out = None
        for A, B in zip(lefts, rights):
            r = W.fresh_digit("r", mr)
            c = W.fresh_digit("c", mc)
            rn, cn = Num([(r, mr)]), Num([(c, mc)])
            row = Num(list(b.terms) + [(r, mr)] + list(a.terms))
            col = Num(list(b2.terms) + [(c, mc)] + list(a2.terms))
            body = BL.p_mul(BL.p_mul(A.get((p, rn)), rho.get((row, col))), BL.p_conj(B.get((p2, cn))))
            t = BL.Poly([BL.Term(t.coef, t.factors, t.deltas, list(t.bound) + [(r, mr), (c, mc)]) for t in body.terms])
            out = t if out is None else BL.p_add(out, t)
        return out

    return SymArray((r1 * pr * r2, c1 * pc * c2), g, "poly")


def spec_natural_representation(ks):
    """natural_representation(K): N[(p, q), (r, s)] == sum_i K_i[p, r] * conj(K_i[q, s])"""
    from vt.pyvc import bilinear as BL

    dr, dc = ks[0].shape

    def g(idx):
        q, p = unflatten(as_num(idx[0], dr * dr), [dr, dr], "F")
        s, r = unflatten(as_num(idx[1], dc * dc), [dc, dc], "F")
        out = None
        for K in ks:
            t = BL.p_mul(K.get((p, r)), BL.p_conj(K.get((q, s))))
            out = t if out is None else BL.p_add(out, t)
        return out

    return SymArray((dr * dr, dc * dc), g, "poly")


def summary_tensor2(interp, args, kw):
    """tensor(A, B) for two arrays is np.kron(A, B) (proved for the real tensor() in C16's integer-engine obligations)"""
    from vt.pyvc import bilinear as BL

    if len(args) == 2 and all(isinstance(a, SymArray) for a in args):
        pre(interp, "tensor: two array arguments", True)
        return BL.kron(args[0], args[1])
    raise Unsupported("tensor contract: only the two-array form")


def spec_partial_choi(rho, J, rows, cols):
    """partial_channel(rho, J, sys, dim) for a Choi matrix J:  rows = (before, m, after) as in spec_partial_kraus;
       result[(a, p, b), (a', p', b')] == sum_{r, c} rho[(a, r, b), (a', c, b')] * J[(r, p), (c, p')]"""
    from vt.pyvc import bilinear as BL

    (r1, mr, r2), (c1, mc, c2) = rows, cols
    pr, pc = sp.cancel(J.shape[0] / mr), sp.cancel(J.shape[1] / mc)

    def g(idx):
        W = sym.world()
        b, p, a = unflatten(as_num(idx[0], r1 * pr * r2), [r2, pr, r1], "F")
        b2, p2, a2 = unflatten(as_num(idx[1], c1 * pc * c2), [c2, pc, c1], "F")
        r = W.fresh_digit("r", mr)
        c = W.fresh_digit("c", mc)
        row = Num(list(b.terms) + [(r, mr)] + list(a.terms))
        col = Num(list(b2.terms) + [(c, mc)] + list(a2.terms))
        body = BL.p_mul(rho.get((row, col)), J.get((Num(list(p.terms) + [(r, mr)]), Num(list(p2.terms) + [(c, mc)]))))
        return BL.Poly([BL.Term(t.coef, t.factors, t.deltas, list(t.bound) + [(r, mr), (c, mc)]) for t in body.terms])

    return SymArray((r1 * pr * r2, c1 * pc * c2), g, "poly")


def _blocks(row, sysn):
    row = list(row)
    return (_prod(row[: sysn - 1]), sp.sympify(row[sysn - 1]), _prod(row[sysn:]))


def summary_partial_channel(interp, args, kw):
    """call-site contract of partial_channel(rho, phi_map, sys, dim) with dim given (a list or a two-row array of per-factor dimensions)"""
    a = bind(["rho", "phi_map", "sys", "dim"], {"sys": 2, "dim": None}, args, kw)
    rho, phi, sysn, dim = a["rho"], a["phi_map"], a["sys"], a["dim"]
    if dim is None or not isinstance(rho, SymArray):
        raise Unsupported("partial_channel contract: dim omitted")
    d = np.asarray(dim, dtype=object)
    if d.ndim == 1:
        d = np.array([list(d), list(d)], dtype=object)
    sysn = int(sysn)
    pre(interp, "partial_channel: 1 <= sys <= number of factors", 1 <= sysn <= d.shape[1])
    rows, cols = _blocks(d[0], sysn), _blocks(d[1], sysn)
    pre(interp, "partial_channel: prod(dim rows) == rho.shape", sp.And(sp.Eq(_prod(d[0]), rho.shape[0]), sp.Eq(_prod(d[1]), rho.shape[1])) if not (same(_prod(d[0]), rho.shape[0]) and same(_prod(d[1]), rho.shape[1])) else True)
    if isinstance(phi, SymArray):
        return spec_partial_choi(rho, phi, rows, cols)
    if isinstance(phi, list) and phi and isinstance(phi[0], SymArray):
        lefts = rights = list(phi)
    elif isinstance(phi, list) and phi and isinstance(phi[0], (list, tuple)) and len(phi[0]) == 2 and all(isinstance(p[0], SymArray) and isinstance(p[1], SymArray) for p in phi):
        lefts, rights = [p[0] for p in phi], [p[1] for p in phi]
    elif isinstance(phi, list) and phi and isinstance(phi[0], (list, tuple)) and (len(phi[0]) == 1 or (len(phi) == 1 and len(phi[0]) > 2)):
        lefts = rights = [k for grp in phi for k in grp]
    else:
        raise Unsupported("partial_channel contract: representation")
    pre(interp, "partial_channel: A_i columns == target row dimension, B_i columns == target column dimension", sp.And(*[sp.Eq(A.shape[1], rows[1]) for A in lefts], *[sp.Eq(B.shape[1], cols[1]) for B in rights]))
    return spec_partial_kraus(rho, lefts, rights, rows, cols)


def spec_kraus_to_choi(lefts, rights, sysn=2):
    """kraus_to_choi: J == sum_{r,c} E_rc (x) Phi(E_rc) (sys=2; the factors exchanged for sys=1), i.e.
       J[(r, p), (c, j)] == sum_i A_i[p, r] * conj(B_i[j, c])"""
    from vt.pyvc import bilinear as BL

    pr, mr = lefts[0].shape
    pc, mc = rights[0].shape

    def g(idx):
        if sysn == 2:
            p, r = unflatten(as_num(idx[0], mr * pr), [pr, mr], "F")
            j, c = unflatten(as_num(idx[1], mc * pc), [pc, mc], "F")
        else:
            r, p = unflatten(as_num(idx[0], mr * pr), [mr, pr], "F")
            c, j = unflatten(as_num(idx[1], mc * pc), [mc, pc], "F")
        out = None
        for A, B in zip(lefts, rights):
            t = BL.p_mul(A.get((p, r)), BL.p_conj(B.get((j, c))))
            out = t if out is None else BL.p_add(out, t)
        return out

    return SymArray((mr * pr, mc * pc), g, "poly")
