"""Executable reference specifications (numpy / pure Python), written from the property statements with explicit
index loops -- deliberately not in the reshape/transpose style of the code under contract.  They work on numeric
arrays and on dtype=object arrays of sympy symbols alike (pure gathers and sums)."""
from __future__ import annotations

import itertools

import numpy as np


def ravel(digits, dims):
    """enc_d(j): last subsystem fastest"""
    v = 0
    for j, d in zip(digits, dims):
        v = v * int(d) + int(j)
    return v


def unravel(i, dims):
    out = []
    for d in reversed(list(dims)):
        out.append(i % int(d))
        i //= int(d)
    return list(reversed(out))


def argsort_perm(p):
    inv = [0] * len(p)
    for i, x in enumerate(p):
        inv[x] = i
    return inv


def sigma(perm, dims, inv_perm=False):
    """source index for every output index of the relabelling: out[enc_{d.q}(k)] = in[enc_d(j)], j[q[i]] = k[i]"""
    perm = [int(x) for x in perm]
    q = perm if not inv_perm else argsort_perm(perm)
    n = len(q)
    dq = [int(dims[q[i]]) for i in range(n)]
    out = []
    for k in itertools.product(*[range(d) for d in dq]):
        j = [0] * n
        for i in range(n):
            j[q[i]] = k[i]
        out.append(ravel(j, dims))
    return out


def ref_permute(X, perm, rdims, cdims=None, row_only=False, inv_perm=False):
    X = np.asarray(X)
    if cdims is None:
        cdims = rdims
    if X.ndim == 1:
        return X[sigma(perm, rdims, inv_perm)]
    Y = X[sigma(perm, rdims, inv_perm), :]
    if not row_only:
        Y = Y[:, sigma(perm, cdims, inv_perm)]
    return Y


def ref_swap(X, sys, rdims, cdims=None, row_only=False):
    n = len(rdims)
    p = list(range(n))
    a, b = int(sys[0]) - 1, int(sys[1]) - 1
    p[a], p[b] = p[b], p[a]
    return ref_permute(X, p, rdims, cdims, row_only, False)


def ref_permutation_operator(dims, perm, inv_perm=False):
    s = sigma(perm, dims, inv_perm)
    N = len(s)
    P = np.zeros((N, N))
    for r, c in enumerate(s):
        P[r, c] = 1
    return P


def ref_partial_trace(X, S, dims):
    X = np.asarray(X)
    n = len(dims)
    S = sorted(set(int(s) for s in S))
    K = [i for i in range(n) if i not in S]
    dK = [int(dims[i]) for i in K]
    dS = [int(dims[i]) for i in S]
    PK = int(np.prod(dK)) if dK else 1
    out = np.zeros((PK, PK), dtype=X.dtype if X.dtype != object else object)
    if X.dtype == object:
        out[:, :] = 0
    for a, k in enumerate(itertools.product(*[range(d) for d in dK])):
        for b, l in enumerate(itertools.product(*[range(d) for d in dK])):
            acc = 0
            for t in itertools.product(*[range(d) for d in dS]):
                jr = [0] * n
                jc = [0] * n
                for x, i in enumerate(K):
                    jr[i] = k[x]
                    jc[i] = l[x]
                for x, i in enumerate(S):
                    jr[i] = t[x]
                    jc[i] = t[x]
                acc = acc + X[ravel(jr, dims), ravel(jc, dims)]
            out[a, b] = acc
    return out


def ref_partial_transpose(X, S, rdims, cdims=None):
    X = np.asarray(X)
    if cdims is None:
        cdims = rdims
    n = len(rdims)
    S = set(int(s) for s in S)
    r2 = [int(cdims[s]) if s in S else int(rdims[s]) for s in range(n)]
    c2 = [int(rdims[s]) if s in S else int(cdims[s]) for s in range(n)]
    out = np.empty((int(np.prod(r2)), int(np.prod(c2))), dtype=X.dtype)
    for a in itertools.product(*[range(d) for d in r2]):
        for b in itertools.product(*[range(d) for d in c2]):
            ar = [b[s] if s in S else a[s] for s in range(n)]
            bc = [a[s] if s in S else b[s] for s in range(n)]
            out[ravel(a, r2), ravel(b, c2)] = X[ravel(ar, rdims), ravel(bc, cdims)]
    return out


def ref_realignment(X, rdims, cdims=None):
    X = np.asarray(X)
    if cdims is None:
        cdims = rdims
    dA, dB = [int(x) for x in rdims]
    dA2, dB2 = [int(x) for x in cdims]
    out = np.empty((dA * dA2, dB * dB2), dtype=X.dtype)
    for a in range(dA):
        for a2 in range(dA2):
            for b in range(dB):
                for b2 in range(dB2):
                    out[a * dA2 + a2, b * dB2 + b2] = X[a * dB + b, a2 * dB2 + b2]
    return out


def kron_all(mats):
    out = np.asarray(mats[0])
    for m in mats[1:]:
        out = np.kron(out, np.asarray(m))
    return out


def obj_equal(A, B):
    """exact equality for object (symbolic) or numeric arrays of the same shape"""
    A = np.asarray(A)
    B = np.asarray(B)
    if A.shape != B.shape:
        return False
    if A.dtype == object or B.dtype == object:
        import sympy as sp

        for x, y in zip(A.ravel(), B.ravel()):
            if x is y:
                continue
            if sp.expand(sp.sympify(x) - sp.sympify(y)) != 0:
                return False
        return True
    return bool(np.array_equal(A, B))
