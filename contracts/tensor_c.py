"""Contract of matrix_ops.tensor (prover side, z3) over an uninterpreted Kronecker product.

Sorts/functions: Mat; kron: Mat x Mat -> Mat; pw(M, q) = the q-fold Kronecker power of M (q >= 1).
Axioms about the uninterpreted product (the only facts about np.kron that are assumed):
  (P1) pw(M, 1) == M
  (P2) kron(pw(M, a), pw(M, b)) == pw(M, a + b)   for a, b >= 1        (associativity of kron, stated on powers)
fast_exp(matrix, q):  requires q >= 1;  ensures result == pw(matrix, q);  decreases q   (strong induction: the recursive
                      call is replaced by its contract and must be on a strictly smaller q >= 1)
tensor(M, q):         q == 0 -> 1x1 identity; q == 1 -> M; q >= 2 -> pw(M, q)
tensor(a_0, ..., a_{k-1}) and tensor([a_0, ..., a_{k-1}]): left fold kron(...kron(kron(a_0, a_1), a_2)..., a_{k-1})
"""
import ast

import z3

from vt.pyvc.intvc import Opaque, Unsupported

Mat = z3.DeclareSort("Mat")
kron = z3.Function("kron", Mat, Mat, Mat)
pw = z3.Function("pw", Mat, z3.IntSort(), Mat)
EYE1 = z3.Const("eye1", Mat)


def axioms():
    M = z3.Const("Mq", Mat)
    a, b = z3.Ints("aq bq")
    return [
        z3.ForAll([M], pw(M, 1) == M),
        z3.ForAll([M, a, b], z3.Implies(z3.And(a >= 1, b >= 1), kron(pw(M, a), pw(M, b)) == pw(M, a + b))),
        # (P3) a consequence of P1 and P2, proved separately by `lemma_p3` and then made available to the solver
        z3.ForAll([M, b], z3.Implies(b >= 1, kron(M, pw(M, b)) == pw(M, b + 1))),
    ]


def lemma_p3():
    """P1 and P2 (instantiated at a = 1) imply P3; returns (hypotheses, goal) for a quantifier-free query"""
    M0 = z3.Const("M0", Mat)
    b0 = z3.Int("b0")
    hyp = [b0 >= 1, pw(M0, 1) == M0, z3.Implies(z3.And(z3.IntVal(1) >= 1, b0 >= 1), kron(pw(M0, 1), pw(M0, b0)) == pw(M0, 1 + b0))]
    return hyp, kron(M0, pw(M0, b0)) == pw(M0, b0 + 1)


def instance(ax, *terms):
    """universal instantiation of a ForAll axiom at the given terms (sound: an instance of an axiom)"""
    assert z3.is_quantifier(ax) and ax.is_forall() and ax.num_vars() == len(terms)
    return z3.substitute_vars(ax.body(), *reversed(terms))


class FastExpContract:
    def inputs(self):
        self.M = z3.Const("matrix", Mat)
        self.q = z3.Int("q")
        ax = axioms()
        k = self.q / 2
        # proof hints (scaffolding): instances of the axioms at the terms the body builds -- z3's E-matching does not find
        # them within its budget, cvc5 does; with the instances the query is ground
        self._facts = [instance(ax[0], self.M), instance(ax[1], self.M, k, k), instance(ax[2], self.M, k + k), instance(ax[2], self.M, 2 * k)]
        return {"matrix": self.M, "q": self.q}, [self.q >= 1]

    def facts(self):
        return self._facts

    def call(self, eng, e, args, kw, env, pc):
        name = ast.unparse(e.func)
        if name == "np.kron":
            return kron(args[0], args[1])
        if name == "fast_exp":
            m, q2 = args
            eng.oblige("call-site-pre", "recursive call: exponent >= 1", pc, q2 >= 1, True)
            eng.oblige("decreases", "recursive call: exponent strictly smaller (termination, induction hypothesis applicable)", pc, z3.And(q2 >= 0, q2 < self.q), False)
            eng.oblige("call-site-pre", "recursive call passes the same matrix", pc, m == self.M, True)
            return pw(m, q2)
        return NotImplemented

    def post(self, eng, value, env):
        if not (isinstance(value, z3.ExprRef) and value.sort() == Mat):
            return [("fast_exp returns a matrix", False)]
        return [("fast_exp(matrix, q) == q-fold Kronecker power of matrix", value == pw(self.M, self.q))]


class TensorContract:
    """form: ("power",) | ("args", k) | ("list", k)"""

    def __init__(self, form):
        self.form = form

    def facts(self):
        return axioms()

    def inputs(self):
        pc = []
        if self.form[0] == "power":
            self.M = z3.Const("M", Mat)
            self.q = z3.Int("q")
            pc += [self.q >= 0]
            return {"args": (self.M, self.q)}, pc
        k = self.form[1]
        self.ms = [z3.Const("a%d" % i, Mat) for i in range(k)]
        if self.form[0] == "args":
            return {"args": tuple(self.ms)}, pc
        return {"args": (list(self.ms),)}, pc

    def name(self, eng, ident):
        if ident in ("list", "int"):
            return ("type", ident)
        raise Unsupported("name %s" % ident)

    def attribute(self, eng, base, attr, env):
        return ("modattr", base, attr)

    def call(self, eng, e, args, kw, env, pc):
        name = ast.unparse(e.func)
        if name == "np.kron":
            return kron(args[0], args[1])
        if name == "isinstance":
            o, t = args
            t = t[1] if isinstance(t, tuple) and t[0] == "type" else ("ndarray" if t == ("modattr", "np", "ndarray") else t)
            if t == "list":
                return isinstance(o, list)
            if t == "ndarray":
                return False  # matrices are of sort Mat here; the ndarray-of-matrices calling form is covered by the bounded tier
            if t == "int":
                return isinstance(o, int) or (isinstance(o, z3.ExprRef) and z3.is_int(o))
            raise Unsupported("isinstance %r" % (t,))
        if name == "fast_exp":
            m, q2 = args
            eng.oblige("call-site-pre", "fast_exp: exponent >= 1", pc, q2 >= 1, True)
            return pw(m, q2)
        if name == "np.eye":
            return EYE1
        return NotImplemented

    def attr_of(self, eng, obj, attr):
        return Opaque("attr", attr)

    def post(self, eng, value, env):
        if self.form[0] == "power":
            q, M = self.q, self.M
            if not (isinstance(value, z3.ExprRef) and value.sort() == Mat):
                return [("tensor(M, q) returns a matrix", False)]
            return [("tensor(M, q): q == 0 -> identity of size 1; q >= 1 -> q-fold Kronecker power", z3.And(z3.Implies(q == 0, value == EYE1), z3.Implies(q >= 1, value == pw(M, q))))]
        exp = self.ms[0]
        for m in self.ms[1:]:
            exp = kron(exp, m)
        if not (isinstance(value, z3.ExprRef) and value.sort() == Mat):
            return [("tensor returns a matrix", False)]
        return [("tensor of %d operands == left fold of kron" % len(self.ms), value == exp)]
