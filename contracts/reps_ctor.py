"""Contract of the `reps > 1` branch of NonlocalGame.__init__ (lead = 2 answer axes) and ExtendedNonlocalGame.__init__
(lead = 4: two referee axes, two answer axes) -- prover side, z3, E1-integer.

For a fixed number of repetitions r >= 2 and ALL axis sizes (referee dimensions, answer counts, question counts X, Y >= 1):
  requires  pred_mat.shape == (L_0, ..., L_{lead-1}, X, Y),  prob_mat.shape == (X, Y)
  ensures   self.prob_mat == tensor(prob_mat, r),  self.reps == r,
            self.pred_mat is a new array of shape (L_0**r, ..., X**r, Y**r), and for every i in [0, X**r), j in [0, Y**r):
                self.pred_mat[..., i, j] == tensor([pred_mat[..., x_k, y_k] for k = 0..r-1])
            where (x_0 .. x_{r-1}) are the base-X digits of i and (y_0 .. y_{r-1}) the base-Y digits of j, most significant first
            (sum_k x_k X**(r-1-k) == i, 0 <= x_k < X; likewise for j) -- the referee of the r-fold parallel repetition.
update_odometer enters through its proved contract (contracts/odometer.py: mixed-radix successor, instantiated at length r by
`successor_concrete`, with the instantiation checked by z3 on every run); its precondition 0 <= digit < base is a call-site
obligation here.  `tensor` is an opaque term (its own contract: C16).  The loop invariants are proof text:
  outer loop (i):  the outer odometer holds the base-X digits of i (all zero again once i == X**r); the inner odometer is all zero
  inner loop (j):  the inner odometer holds the base-Y digits of j (all zero again once j == Y**r)
"""
import ast

import z3

from contracts.odometer import successor_concrete
from vt.pyvc.intvc import Opaque, Shaped, Unsupported, fresh_int, power


def _val(ds, base):
    r = len(ds)
    tot = 0
    for k, d in enumerate(ds):
        tot = tot + d * power(base, r - 1 - k)
    return tot


def _inrange(ds, base):
    return z3.And(*[z3.And(d >= 0, d < base) for d in ds])


def _allzero(ds):
    return z3.And(*[d == 0 for d in ds])


def _odometer_name(loop):
    """the name X in a statement `X = update_odometer(X, ...)` directly in the body of `loop`"""
    for s in loop.body:
        if isinstance(s, ast.Assign) and len(s.targets) == 1 and isinstance(s.targets[0], ast.Name) and isinstance(s.value, ast.Call):
            f = s.value.func
            if isinstance(f, ast.Name) and f.id == "update_odometer" and s.value.args and isinstance(s.value.args[0], ast.Name) and s.value.args[0].id == s.targets[0].id:
                return s.targets[0].id
    return None


class RepsConstructorContract:
    def __init__(self, lead, reps):
        self.lead, self.reps = lead, reps
        self.attrs = {}
        self.stores = 0
        self.loops = []  # [(node, odometer name)] outermost first, filled from the AST

    def inputs(self):
        L = [z3.Int("L%d" % k) for k in range(self.lead)]
        X, Y = z3.Int("X"), z3.Int("Y")
        self.L, self.X, self.Y = L, X, Y
        self.pred = Shaped(tuple(L) + (X, Y), "pred_mat")
        self.prob = Shaped((X, Y), "prob_mat")
        env = {"self": "self", "prob_mat": self.prob, "pred_mat": self.pred, "reps": self.reps}
        return env, [v >= 1 for v in L + [X, Y]]

    # ------------------------------------------------------------------ scaffolding
    def _roles(self, eng):
        if self.loops:
            return
        sym = [n for n in ast.walk(eng.fn) if isinstance(n, ast.For) and _odometer_name(n)]
        sym.sort(key=lambda n: (n.lineno, n.col_offset))
        self.loops = [(n, _odometer_name(n)) for n in sym]

    def loop_invariant(self, ordinal, node=None):
        if node is None:
            return None
        od = _odometer_name(node)
        if od is None:
            return None
        outer = any(isinstance(n, ast.For) and n is not node and _odometer_name(n) for n in ast.walk(node))
        tname = node.target.id
        r = self.reps
        if outer:
            inner_od = [_odometer_name(n) for n in ast.walk(node) if isinstance(n, ast.For) and n is not node and _odometer_name(n)][0]
            X = self.X

            def inv(eng, env):
                i, di, dj = env[tname], env[od], env[inner_od]
                if not (isinstance(di, list) and isinstance(dj, list) and len(di) == r and len(dj) == r):
                    raise Unsupported("odometers are not digit lists of length reps")
                return z3.And(_inrange(di, X), z3.Or(z3.And(i < power(X, r), _val(di, X) == i), z3.And(i == power(X, r), _allzero(di))), _allzero(dj))

            return inv
        Y = self.Y

        def inv(eng, env):
            j, dj = env[tname], env[od]
            if not (isinstance(dj, list) and len(dj) == r):
                raise Unsupported("odometer is not a digit list of length reps")
            return z3.And(_inrange(dj, Y), z3.Or(z3.And(j < power(Y, r), _val(dj, Y) == j), z3.And(j == power(Y, r), _allzero(dj))))

        return inv

    # ------------------------------------------------------------------ calls
    def call(self, eng, e, args, kw, env, pc):
        name = ast.unparse(e.func)
        if name == "np.zeros":
            shp = args[0]
            if isinstance(shp, int):
                if kw.get("dtype") is None:
                    raise Unsupported("float odometer")
                return [0] * shp
            if isinstance(shp, tuple):
                return Shaped(shp, "zeros")
            raise Unsupported("np.zeros(%r)" % (shp,))
        if name == "np.empty":
            shp = args[0]
            if isinstance(shp, (list, tuple)) and isinstance(shp[0], int):
                return [None] * shp[0]
            raise Unsupported("np.empty(%r)" % (shp,))
        if name == "np.result_type":
            return Opaque("np.result_type", *args)  # a dtype: array contents are not tracked, only shapes
        if name == "np.ones":
            if isinstance(args[0], int):
                return Opaque("ones", args[0])
            raise Unsupported("np.ones of symbolic length")
        if name == "tensor":
            if len(args) == 2 and isinstance(args[0], Shaped):
                return Opaque("tensor-power", args[0].name, args[1])
            if len(args) == 1 and isinstance(args[0], list):
                return Opaque("tensor-list", list(args[0]))
            raise Unsupported("tensor call form")
        if name == "update_odometer":
            d, up = args
            if not isinstance(d, list):
                raise Unsupported("odometer argument is not a digit list")
            if not (isinstance(up, Opaque) and up.op == "Mult" and isinstance(up.args[1], Opaque) and up.args[1].op == "ones"):
                raise Unsupported("upper limit is not base * np.ones(n)")
            base, n = up.args[0], up.args[1].args[0]
            eng.oblige("call-site-pre", "update_odometer: len(old_ind) == len(upper_lim)", pc, n == len(d), True)
            if n != len(d):
                raise Unsupported("odometer lengths differ")
            eng.oblige("call-site-pre", "update_odometer: every digit d satisfies 0 <= d < upper limit", pc, _inrange(d, base), True)
            new = [fresh_int("od") for _ in d]
            pc.append(successor_concrete(new, d, [base] * len(d)))  # the callee's proved postcondition (assumed here)
            return new
        return NotImplemented

    def attr_of(self, eng, o, attr):
        if attr == "dtype" and isinstance(o, Shaped):
            return Opaque("dtype", o.name)
        raise Unsupported("attribute %s" % attr)

    def name(self, eng, ident):
        if ident in ("int", "float"):
            return Opaque("type", ident)
        raise Unsupported("name %s" % ident)

    def subscript(self, eng, o, e, env, pc):
        if o is not self.pred:
            raise Unsupported("subscript of %s" % o.name)
        sl = e.slice
        n = self.lead
        if not (isinstance(sl, ast.Tuple) and len(sl.elts) == n + 2 and all(isinstance(x, ast.Slice) and x.lower is None and x.upper is None and x.step is None for x in sl.elts[:n])):
            raise Unsupported("unexpected slice of pred_mat: %s" % ast.unparse(e))
        x = eng.ev(sl.elts[n], env, pc)
        y = eng.ev(sl.elts[n + 1], env, pc)
        eng.oblige("index-in-bounds", "Alice's question index read from pred_mat lies in [0, X)", pc, z3.And(x >= 0, x < self.X), True)
        eng.oblige("index-in-bounds", "Bob's question index read from pred_mat lies in [0, Y)", pc, z3.And(y >= 0, y < self.Y), True)
        return Shaped(o.shape[:n], "slice", terms=[(x, y)])

    def store_subscript(self, eng, obj, t, v, env, pc):
        r, n = self.reps, self.lead
        self.stores += 1
        sl = t.slice
        ok = obj.name == "zeros" and isinstance(sl, ast.Tuple) and len(sl.elts) == n + 2 and all(isinstance(x, ast.Slice) and x.lower is None and x.upper is None and x.step is None for x in sl.elts[:n])
        eng.oblige("claim", "the only store into the new predicate array has the form new[..., i, j] = tensor(list)", pc, bool(ok), True)
        if not ok:
            return
        i = eng.ev(sl.elts[n], env, pc)
        j = eng.ev(sl.elts[n + 1], env, pc)
        eng.oblige("index-in-bounds", "stored question indices lie inside the new array", pc, z3.And(i >= 0, i < obj.shape[n], j >= 0, j < obj.shape[n + 1]), True)
        good = isinstance(v, Opaque) and v.op == "tensor-list" and len(v.args[0]) == r and all(isinstance(s, Shaped) and s.name == "slice" and s.terms and len(s.terms) == 1 for s in v.args[0])
        eng.oblige("claim", "the stored block is tensor([pred_mat[..., x_k, y_k] for k = 0..reps-1]) in that order", pc, bool(good), True)
        if not good:
            return
        xs = [s.terms[0][0] for s in v.args[0]]
        ys = [s.terms[0][1] for s in v.args[0]]
        eng.oblige("claim", "(x_0 .. x_{r-1}) are the base-X digits of the stored index i, most significant first: sum_k x_k X**(r-1-k) == i", pc, _val(xs, self.X) == i, True)
        eng.oblige("claim", "(y_0 .. y_{r-1}) are the base-Y digits of the stored index j, most significant first: sum_k y_k Y**(r-1-k) == j", pc, _val(ys, self.Y) == j, True)
        # coverage: the enclosing loops range over the whole question axes of the new array
        for pos, idx in ((n, sl.elts[n]), (n + 1, sl.elts[n + 1])):
            found = False
            if isinstance(idx, ast.Name):
                for node in ast.walk(eng.fn):
                    if isinstance(node, ast.For) and isinstance(node.target, ast.Name) and node.target.id == idx.id and any(m is t for m in ast.walk(node)):
                        it = node.iter
                        if isinstance(it, ast.Call) and isinstance(it.func, ast.Name) and it.func.id == "range" and len(it.args) == 1:
                            bound = eng.ev(it.args[0], env, pc)
                            eng.oblige("claim", "coverage: the loop over `%s` runs over range(size of axis %d of the new array)" % (idx.id, pos), pc, bound == obj.shape[pos], True)
                            found = True
            if not found:
                eng.oblige("claim", "coverage: stored index %s is the variable of an enclosing range loop" % ast.unparse(idx), pc, False, True)

    def store_attr(self, eng, base, attr, v, env, pc):
        if base != "self":
            raise Unsupported("store to %s.%s" % (base, attr))
        self.attrs[attr] = v

    def post(self, eng, value, env):
        r = self.reps
        out = []
        pm = self.attrs.get("prob_mat")
        out.append(("self.prob_mat == tensor(prob_mat, reps)", isinstance(pm, Opaque) and pm.op == "tensor-power" and pm.args[0] == "prob_mat" and pm.args[1] == r))
        out.append(("self.reps == reps", self.attrs.get("reps") == r))
        pr = self.attrs.get("pred_mat")
        ok = isinstance(pr, Shaped) and pr.name == "zeros" and len(pr.shape) == self.lead + 2
        out.append(("self.pred_mat is the newly allocated array", bool(ok)))
        if ok:
            want = [power(d, r) for d in self.L + [self.X, self.Y]]
            out.append(("its shape is (L_0**r, ..., X**r, Y**r)", z3.And(*[a == b for a, b in zip(pr.shape, want)])))
        out.append(("exactly one store statement writes the new array", self.stores == 1))
        return out
