"""Contracts of NonlocalGame.classical_value (strategy-space coverage) and NonlocalGame.process_iteration (digit
decode and value of one strategy) -- prover side, z3.

classical_value, sliced to the statements that determine the enumeration (the scaling loops and the arithmetic on
array contents are abstracted: arrays are tracked by shape only).  With (A, X, B, Y) the shape of the array finally
handed to process_iteration (answers/questions of the maximising player, answers/questions of the enumerated player):
  claim (coverage)   num_iterations >= B ** Y          every answer function [0,Y) -> [0,B) of the enumerated player is visited
  claim (call site)  process_iteration is called with base == B, digits == Y, and the matching A, X, for i in range(num_iterations)
process_iteration(i, B, Y, P, A, X):
  requires 0 <= i, B >= 1, P.shape == (A, X, B, Y)
  ensures  the slices read are P[:, :, g_i(y), y] for y = 0..Y-1 where g_i(y) is the y-th most significant base-B digit of i mod B**Y,
           every read index is within [0, B), and result == np.sum(np.amax(sum of those slices, axis=0))
"""
import ast

import z3

from vt.pyvc.intvc import Opaque, Shaped, Unsupported, fresh_int, power, assigned_names, havoc_value


def _is_call_to(node, name):
    for n in ast.walk(node):
        if isinstance(n, ast.Call) and isinstance(n.func, ast.Attribute) and n.func.attr == name:
            return True
    return False


class ClassicalValueContract:
    def __init__(self, X, Y):
        self.X, self.Y = X, Y
        self.calls = []

    def inputs(self):
        A, B = z3.Int("A"), z3.Int("B")
        self.A, self.B = A, B
        self.pred = Shaped((A, B, self.X, self.Y), "self.pred_mat")
        self.prob = Shaped((self.X, self.Y), "self.prob_mat")
        return {"self": "self"}, [A >= 1, B >= 1]

    def name(self, eng, ident):
        if ident in ("float", "int", "complex", "bool"):
            return Opaque("type", ident)
        raise Unsupported("name %s" % ident)

    def attribute(self, eng, base, attr, env):
        if base == "self" and attr == "pred_mat":
            return self.pred
        if base == "self" and attr == "prob_mat":
            return self.prob
        return ("modattr", base, attr)

    def loop_invariant(self, ordinal, node=None):
        if node is not None and _is_call_to(node, "process_iteration"):
            return lambda eng, env: z3.BoolVal(True)
        return None

    def with_stmt(self, eng, s, env, pc):
        # the multiprocessing branch: `with Pool() as pool: tgvals = pool.starmap(process_iteration, [(i, ...) for i in range(num_iterations)])`
        # is checked syntactically: the comprehension must range over range(num_iterations) and pass the same argument names
        ok = False
        for n in ast.walk(s):
            if isinstance(n, ast.ListComp) and len(n.generators) == 1:
                g = n.generators[0]
                if isinstance(g.iter, ast.Call) and ast.unparse(g.iter) == "range(num_iterations)" and isinstance(n.elt, ast.Tuple):
                    names = [ast.unparse(x) for x in n.elt.elts]
                    if names[1:] == ["num_bob_outputs", "num_bob_inputs", "pred_mat_copy", "num_alice_outputs", "num_alice_inputs"] and names[0] == g.target.id:
                        ok = True
        eng.records.append(dict(function=eng.function, instance=eng.label, kind="scaffold-pattern", text="pool branch iterates range(num_iterations) with the same arguments as the serial branch", status="discharged" if ok else "undecided", backend="syntactic", claim=False, ms=0.0, model=None))
        for n in assigned_names(s.body):
            env[n] = Opaque("pool-result", n)
        return [(env, pc)]

    def call(self, eng, e, args, kw, env, pc):
        name = ast.unparse(e.func)
        if name == "np.copy" or (name == "np.array" and args and isinstance(args[0], Shaped) and kw.get("copy", True) is True):
            # a fresh array of the same shape (np.array(x, dtype=...) copies by default)
            a = args[0]
            return Shaped(a.shape, "copy")
        if name == "np.asarray" and args and isinstance(args[0], Shaped):
            return args[0]  # no copy: the same array
        if name == "np.transpose":
            a, axes = args
            return Shaped(tuple(a.shape[i] for i in axes), "transposed")
        if name in ("float",):
            return Opaque("float", *args)
        if name.endswith("process_iteration"):
            i, base, digits, arr, na, nx = args
            sh = arr.shape
            eng.oblige("call-site-pre", "process_iteration: base == size of the enumerated player's answer axis", pc, base == sh[2] if not (isinstance(base, int) and isinstance(sh[2], int)) else base == sh[2], True)
            eng.oblige("call-site-pre", "process_iteration: digits == size of the enumerated player's question axis", pc, _eq(digits, sh[3]), True)
            eng.oblige("call-site-pre", "process_iteration: maximising player's sizes match the array", pc, z3.And(_eq(na, sh[0]), _eq(nx, sh[1])), True)
            eng.oblige("call-site-pre", "process_iteration: 0 <= i", pc, i >= 0 if not isinstance(i, int) else i >= 0, True)
            self.calls.append(1)
            return Opaque("tgval", i)
        return NotImplemented

    def post(self, eng, value, env):
        out = []
        if "num_iterations" not in env or "pred_mat_copy" not in env:
            return [("classical_value computes num_iterations and pred_mat_copy", False)]
        sh = env["pred_mat_copy"].shape
        B, Y = sh[2], sh[3]
        if not isinstance(Y, int):
            raise Unsupported("symbolic question count")
        out.append(("coverage: num_iterations >= (answers of the enumerated player) ** (its questions)", env["num_iterations"] >= power(B, Y)))
        return out


def _eq(a, b):
    if isinstance(a, int) and isinstance(b, int):
        return a == b
    return a == b


class ProcessIterationContract:
    def __init__(self, Y):
        self.Y = Y

    def inputs(self):
        i, B, A, X = z3.Int("i"), z3.Int("B"), z3.Int("A"), z3.Int("X")
        self.i, self.B, self.A, self.Xs = i, B, A, X
        P = Shaped((A, X, B, self.Y), "P")
        self.P = P
        env = {"i": i, "num_bob_outputs": B, "num_bob_inputs": self.Y, "pred_mat_copy": P, "num_alice_outputs": A, "num_alice_inputs": X}
        return env, [i >= 0, B >= 1, A >= 1, X >= 1]

    def call(self, eng, e, args, kw, env, pc):
        name = ast.unparse(e.func)
        if name == "np.zeros":
            shp = args[0]
            if isinstance(shp, int):
                return [0] * shp
            if isinstance(shp, tuple):
                return Shaped(shp, "zeros", terms=[])
            raise Unsupported("np.zeros of symbolic length")
        if name == "np.amax":
            return Opaque("np.amax", args[0], kw.get("axis"))
        if name == "np.sum":
            return Opaque("np.sum", args[0])
        return NotImplemented

    def subscript(self, eng, o, e, env, pc):
        if o is not self.P:
            raise Unsupported("subscript of %s" % o.name)
        sl = e.slice
        if not (isinstance(sl, ast.Tuple) and len(sl.elts) == 4 and all(isinstance(x, ast.Slice) and x.lower is None and x.upper is None for x in sl.elts[:2])):
            raise Unsupported("unexpected slice of pred_mat_copy: %s" % ast.unparse(e))
        k = eng.ev(sl.elts[2], env, pc)
        y = eng.ev(sl.elts[3], env, pc)
        eng.oblige("index-in-bounds", "answer index read from pred_mat_copy lies in [0, B)", pc, z3.And(k >= 0, k < o.shape[2]) if not isinstance(k, int) else z3.And(z3.IntVal(k) >= 0, z3.IntVal(k) < o.shape[2]), True)
        return Shaped((o.shape[0], o.shape[1]), "slice", terms=[(k, y)])

    def post(self, eng, value, env):
        out = []
        ok_struct = isinstance(value, Opaque) and value.op == "np.sum" and isinstance(value.args[0], Opaque) and value.args[0].op == "np.amax" and value.args[0].args[1] == 0 and isinstance(value.args[0].args[0], Shaped) and value.args[0].args[0].terms is not None
        out.append(("result == np.sum(np.amax(accumulated slices, axis=0))", bool(ok_struct)))
        if not ok_struct:
            return out
        terms = value.args[0].args[0].terms
        ys = [t[1] for t in terms]
        out.append(("one slice per question y = 0..Y-1 of the enumerated player, each exactly once", sorted(ys) == list(range(self.Y))))
        if sorted(ys) != list(range(self.Y)):
            return out
        B, i, Y = self.B, self.i, self.Y
        goals = []
        total = 0
        for k, y in terms:
            total = total + k * power(B, Y - 1 - y)
        q = fresh_int("q")
        # digits are the base-B representation of i mod B**Y (most significant first)
        out.append(("sum_y g(y) * B**(Y-1-y) == i mod B**Y  (the digits read are the base-B digits of i)", z3.Exists([q], z3.And(q >= 0, total + q * power(B, Y) == i))))
        return out
