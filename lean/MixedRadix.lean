/-
The one arithmetic rule built into the E1-array generator (uniqueness of mixed-radix representation):
for 0 ≤ a < s,   (a + s * b) / s = b   and   (a + s * b) % s = a.
Digit regrouping in `reshape` (vt/pyvc/sym.py: flatten / unflatten) is repeated use of exactly this.
Checked by `lean` in MANIFEST.setup_cmd; no Mathlib needed.
-/
theorem mixed_radix_div (a b s : Nat) (h : a < s) : (a + s * b) / s = b := by
  have hs : 0 < s := Nat.lt_of_le_of_lt (Nat.zero_le a) h
  rw [Nat.add_mul_div_left a b hs, Nat.div_eq_of_lt h, Nat.zero_add]

theorem mixed_radix_mod (a b s : Nat) (h : a < s) : (a + s * b) % s = a := by
  rw [Nat.add_mul_mod_self_left, Nat.mod_eq_of_lt h]

/-- two-digit numerals are determined by their digits (injectivity of the encoding) -/
theorem mixed_radix_inj (a b a' b' s : Nat) (h : a < s) (h' : a' < s)
    (e : a + s * b = a' + s * b') : a = a' ∧ b = b' := by
  have hb : b = b' := by
    have := congrArg (· / s) e
    simpa [mixed_radix_div a b s h, mixed_radix_div a' b' s h'] using this
  have ha : a = a' := by
    have := congrArg (· % s) e
    simpa [mixed_radix_mod a b s h, mixed_radix_mod a' b' s h'] using this
  exact ⟨ha, hb⟩
