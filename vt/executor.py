"""Executor process (/venv/bin/python): runs contract clauses against the *real* toqito code.

  python -m vt.executor explore <PROP> --tier quick --seed N [--budget S]   -> JSON summary on the last stdout line
  python -m vt.executor cases <PROP>      (stdin: JSON list of {clause, params})  -> JSON list of outcomes
A clause is a function  params -> None  that raises `Violation(detail)` when the contract is broken on that input,
`Undecided(reason)` when the case cannot be judged (solver breakdown, non-optimal status).  Any other exception that
escapes the *library* on an admissible input violates the implicit `returns normally` clause.
"""
from __future__ import annotations

import argparse
import importlib
import json
import multiprocessing as mp
import os
import signal
import sys
import time
import traceback

from .common import NCPU, jdump, short_hash


from .contract import Undecided, Violation  # noqa: E402,F401


SOLVER_MODULES = ("cvxopt", "scs", "picos/solvers", "clarabel", "osqp", "ecos", "cvxpy/reductions/solvers", "cvxpy/problems/problem")


def classify_exception(exc):
    """solver breakdown (innermost frames inside a solver or its glue) -> undecided; anything else -> violation"""
    tb = traceback.extract_tb(exc.__traceback__)
    inner = [f.filename for f in tb[-3:]]
    name = type(exc).__name__
    if name in ("SolverError", "SolutionFailure", "DCPError") and False:
        return "undecided"
    if any(any(m in fn for m in SOLVER_MODULES) for fn in inner):
        return "undecided"
    if name in ("SolverError", "SolutionFailure"):
        return "undecided"
    return "violation"


def _alarm(signum, frame):
    raise TimeoutError("case exceeded its time limit")


def run_case(prop_mod, case, limit=None):
    clause = case["clause"]
    params = case.get("params", {})
    fn = prop_mod.CLAUSES[clause]
    t = time.time()
    out = {"clause": clause, "params": params, "function": case.get("function", getattr(fn, "function", clause)), "input_class": case.get("input_class", ""), "nontrivial": case.get("nontrivial", True)}
    lim = limit or case.get("limit") or getattr(fn, "limit", 120)
    old = signal.signal(signal.SIGALRM, _alarm)
    signal.alarm(int(lim))
    try:
        r = fn(params)
        out["status"] = "ok"
        if isinstance(r, dict):
            out["info"] = r
    except Violation as v:
        out["status"] = "violation"
        out["detail"] = str(v)[:2000]
    except Undecided as u:
        out["status"] = "undecided"
        out["detail"] = str(u)[:500]
    except TimeoutError as u:
        out["status"] = "undecided"
        out["detail"] = "timeout after %ss" % lim
    except MemoryError:
        out["status"] = "undecided"
        out["detail"] = "MemoryError"
    except BaseException as e:  # noqa
        if isinstance(e, KeyboardInterrupt):
            raise
        kind = classify_exception(e)
        out["status"] = kind
        tb = traceback.format_exc().splitlines()
        out["detail"] = "%s: %s | %s" % (type(e).__name__, str(e)[:300], " / ".join(x.strip() for x in tb[-6:-1])[:600])
        if kind == "violation":
            out["detail"] = "returns-normally clause broken: " + out["detail"]
            out["exception"] = type(e).__name__
    finally:
        signal.alarm(0)
        signal.signal(signal.SIGALRM, old)
    out["s"] = round(time.time() - t, 3)
    return out


_MOD = None


def _worker_init(prop):
    global _MOD
    sys.setrecursionlimit(10000)
    _MOD = importlib.import_module("props." + prop)


def _worker(case):
    return run_case(_MOD, case)


def run_cases(prop, cases, budget=None, procs=None):
    procs = procs or NCPU
    t0 = time.time()
    results = []
    inline = [c for c in cases if c.get("inline")]
    if inline and len(inline) < len(cases):
        # cases that start their own process pool cannot run inside a (daemonic) pool worker: run them here, in the parent
        _worker_init(prop)
        for c in inline:
            results.append(_worker(c))
        rest, sk = run_cases(prop, [c for c in cases if not c.get("inline")], budget=(budget - (time.time() - t0)) if budget else None, procs=procs)
        return results + rest, sk
    if procs <= 1 or len(cases) < 4 or inline:
        _worker_init(prop)
        for c in cases:
            if budget and time.time() - t0 > budget:
                break
            results.append(_worker(c))
        return results, len(cases) - len(results)
    ctx = mp.get_context("fork")
    with ctx.Pool(procs, initializer=_worker_init, initargs=(prop,)) as pool:
        it = pool.imap_unordered(_worker, cases, chunksize=1)
        skipped = 0
        try:
            while True:
                if budget:
                    remaining = budget - (time.time() - t0)
                    if remaining <= 0:
                        skipped = len(cases) - len(results)
                        pool.terminate()
                        break
                    try:
                        r = it.next(timeout=max(0.1, remaining))
                    except mp.TimeoutError:
                        skipped = len(cases) - len(results)
                        pool.terminate()
                        break
                else:
                    r = it.next()
                results.append(r)
        except StopIteration:
            pass
    return results, skipped


def summarise(prop, cases, results, skipped, wall):
    viol = [r for r in results if r["status"] == "violation"]
    und = [r for r in results if r["status"] == "undecided"]
    ok = [r for r in results if r["status"] == "ok"]
    distinct = set()
    for r in results:
        if r["status"] in ("ok", "violation") and r.get("nontrivial", True):
            distinct.add(short_hash([r["clause"], r["params"]]))
    per_clause = {}
    for r in results:
        d = per_clause.setdefault(r["clause"], {"ok": 0, "violation": 0, "undecided": 0, "s": 0.0})
        d[r["status"]] += 1
        d["s"] = round(d["s"] + r.get("s", 0), 3)
    samples = []
    seen = set()
    for r in ok:
        if r["clause"] not in seen:
            seen.add(r["clause"])
            samples.append({"clause": r["clause"], "params": r["params"], "status": "ok"})
        if len(samples) >= 12:
            break
    infos = {}
    for r in results:
        if isinstance(r.get("info"), dict) and r["clause"].endswith("coverage"):
            infos.setdefault(r["clause"], []).append(r["info"])
    return {
        "property": prop,
        "infos": {k: v[:3] for k, v in infos.items()},
        "generated": len(cases),
        "evaluations": len(ok) + len(viol),
        "distinct_nontrivial": len(distinct),
        "undecided": len(und),
        "skipped_budget": skipped,
        "violations": viol,
        "undecided_samples": und[:10],
        "per_clause": per_clause,
        "samples": samples,
        "wall_s": round(wall, 2),
    }


def main(argv=None):
    ap = argparse.ArgumentParser()
    ap.add_argument("mode", choices=["explore", "cases"])
    ap.add_argument("prop")
    ap.add_argument("--tier", default="quick")
    ap.add_argument("--seed", type=int, default=0)
    ap.add_argument("--budget", type=float, default=None)
    ap.add_argument("--procs", type=int, default=None)
    a = ap.parse_args(argv)
    sys.setrecursionlimit(10000)
    t0 = time.time()
    mod = importlib.import_module("props." + a.prop)
    if a.mode == "explore":
        cases = list(mod.cases(a.tier, a.seed))
        results, skipped = run_cases(a.prop, cases, budget=a.budget, procs=a.procs)
        print(jdump(summarise(a.prop, cases, results, skipped, time.time() - t0)))
        return 0
    cases = json.load(sys.stdin)
    results, skipped = run_cases(a.prop, cases, budget=a.budget, procs=a.procs)
    print(jdump({"results": results, "skipped": skipped}))
    return 0


if __name__ == "__main__":
    sys.exit(main())
