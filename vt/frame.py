"""E2 -- frame (`modifies`) and RNG-ownership clauses, discharged by a conservative flow-sensitive taint analysis of
the real AST (DESIGN §2-E2).

Taint of a local name w.r.t. a caller-visible root (a parameter, or `self`):
  T0  the value is, or shares memory with, or is an element of, a caller-visible object   (a store through it is visible)
  T1  the value is a fresh container whose *elements* are caller-visible objects         (storing into the container is not)
One obligation per mutation site: `x[...] = v`, `x.attr = v`, `x op= v` (in place for arrays), `del x[...]`, in-place
methods, known mutating library calls, and passing a T0 value to a toqito callee whose own (recursively computed)
summary says it mutates that parameter.  An obligation is discharged when the target carries no T0 taint at that
program point.  Unknown constructs taint conservatively; a refuted obligation is only a *candidate* violation and
is replayed at run time (deep snapshot of the arguments before/after the call on the real code)."""
from __future__ import annotations

import ast
import os

from .common import REPO

FRESH_CALLS = {
    "np.copy", "np.array", "np.zeros", "np.ones", "np.empty", "np.identity", "np.eye", "np.kron", "np.real", "np.imag", "np.sum", "np.amax", "np.amin",
    "np.max", "np.min", "float", "int", "complex", "len", "range", "tuple", "max", "min", "sum", "abs", "np.round", "np.around", "np.sqrt", "np.prod", "np.int_",
    "np.abs", "np.isclose", "np.allclose", "np.all", "np.any", "defaultdict", "dict", "set", "str", "bool", "enumerate", "zip", "isinstance", "np.trace",
    "np.linalg.svd", "np.linalg.qr", "np.linalg.eigh", "np.linalg.eig", "np.linalg.eigvalsh", "np.linalg.eigvals", "np.linalg.norm", "np.linalg.matrix_rank",
    "np.linalg.inv", "np.linalg.pinv", "np.linalg.cholesky", "np.linalg.det", "np.linalg.matrix_power", "np.diag", "np.sign", "np.divide", "np.multiply", "np.fft.fft",
    "np.conj", "np.conjugate", "np.swapaxes_copy", "np.hstack", "np.vstack", "np.concatenate", "np.stack", "np.block", "np.outer", "np.dot", "np.matmul", "np.inner",
    "np.tensordot", "np.einsum", "np.linspace", "np.arange", "np.exp", "np.log", "np.log2", "np.cos", "np.sin", "np.power", "np.floor", "np.ceil", "np.mod",
    "np.argsort", "np.sort", "np.unique", "np.where", "np.nonzero", "np.count_nonzero", "np.zeros_like", "np.ones_like", "np.full", "np.tril", "np.triu", "np.flipud", "np.fliplr",
    "np.roll", "np.cumsum", "np.cumprod", "np.diff", "np.binary_repr", "np.isreal", "np.iscomplexobj", "np.isrealobj", "np.argmax", "np.argmin", "np.append", "np.delete", "np.insert",
    "np.random.default_rng", "np.finfo", "np.iinfo", "np.issubdtype", "np.ndim", "np.shape", "np.size", "np.vdot", "np.cross", "np.mean", "np.std", "np.var", "np.clip",
    "scipy.linalg.sqrtm", "scipy.linalg.expm", "scipy.linalg.logm", "scipy.linalg.orth", "scipy.linalg.null_space", "scipy.linalg.fractional_matrix_power",
    "cvxpy.Variable", "cvxpy.Constant", "cvxpy.trace", "cvxpy.real", "cvxpy.imag", "cvxpy.Maximize", "cvxpy.Minimize", "cvxpy.Problem", "cvxpy.kron", "cvxpy.bmat", "cvxpy.sum",
    "cvxpy.conj", "cvxpy.transpose", "cvxpy.norm", "picos.Problem", "picos.HermitianVariable", "picos.SymmetricVariable", "picos.Constant", "picos.trace", "picos.I",
    "itertools.product", "itertools.permutations", "itertools.combinations", "math.factorial", "math.comb", "sorted", "reversed", "map", "filter", "print", "repr", "format",
    "ValueError", "TypeError", "AssertionError", "warnings.warn", "functools.reduce", "operator.iconcat", "np.sqrt", "sp.sparse.identity", "sparse.issparse", "sp.sparse.issparse",
    "scipy.sparse.identity", "np.frombuffer", "np.meshgrid", "np.indices", "np.ix_", "multiprocessing.Pool", "np.testing.assert_equal",
}
ALIAS_CALLS = {"np.transpose", "np.reshape", "np.asarray", "np.squeeze", "np.ravel", "np.atleast_2d", "np.atleast_1d", "np.swapaxes", "np.moveaxis", "np.asmatrix", "np.ascontiguousarray", "np.expand_dims", "np.broadcast_to", "np.diagonal"}
SHALLOW_CALLS = {"list", "copy.copy"}
MUTATING_METHODS = {"append", "extend", "sort", "fill", "insert", "pop", "remove", "clear", "update", "resize", "itemset", "put", "setflags", "reverse", "setdefault", "popitem", "add", "discard", "partition", "byteswap", "setfield"}
MUTATING_CALLS = {"np.fill_diagonal": [0], "np.put": [0], "np.copyto": [0], "np.place": [0], "np.putmask": [0], "np.random.shuffle": [0], "random.shuffle": [0], "np.put_along_axis": [0]}
FRESH_METHODS = {"copy", "conj", "conjugate", "tolist", "flatten", "astype", "dot", "sum", "solve", "toarray", "todense", "trace", "mean", "max", "min", "prod", "round", "item", "items", "keys", "values", "get", "index", "count", "split", "join", "format", "any", "all", "argsort", "nonzero", "cumsum", "std", "var", "repeat", "take", "compress", "choose", "clip", "tobytes", "random", "standard_normal", "normal", "uniform", "integers", "choice", "permutation", "starmap", "map"}
VIEW_METHODS = {"transpose", "reshape", "ravel", "view", "squeeze", "swapaxes", "diagonal", "getH", "getT"}
VALUE_ATTRS = {"shape", "ndim", "size", "dtype", "value", "itemsize", "nbytes"}
VIEW_ATTRS = {"T", "real", "imag", "flat", "H", "base"}


def dotted(n):
    if isinstance(n, ast.Name):
        return n.id
    if isinstance(n, ast.Attribute):
        b = dotted(n.value)
        return b + "." + n.attr if b else None
    return None


def root_name(n):
    while isinstance(n, (ast.Attribute, ast.Subscript, ast.Starred)):
        n = n.value
    return n.id if isinstance(n, ast.Name) else None


class Index:
    """all top-level functions and class methods of the repository's toqito package, by name"""

    def __init__(self, repo=None):
        self.repo = repo or REPO
        self.funcs = {}
        self.methods = {}
        self.modules = {}
        base = os.path.join(self.repo, "toqito")
        for dp, dn, fs in os.walk(base):
            if "tests" in dp.split(os.sep):
                continue
            for f in fs:
                if not f.endswith(".py"):
                    continue
                path = os.path.join(dp, f)
                try:
                    tree = ast.parse(open(path).read())
                except SyntaxError:
                    continue
                rel = os.path.relpath(path, self.repo)
                self.modules[rel] = tree
                for n in tree.body:
                    if isinstance(n, ast.FunctionDef):
                        self.funcs.setdefault(n.name, (rel, n))
                    elif isinstance(n, ast.ClassDef):
                        for m in n.body:
                            if isinstance(m, ast.FunctionDef):
                                self.methods[(n.name, m.name)] = (rel, m)

    def resolve(self, call, cls=None):
        f = call.func
        if isinstance(f, ast.Name) and f.id in self.funcs:
            return self.funcs[f.id]
        if isinstance(f, ast.Attribute):
            if isinstance(f.value, ast.Name) and f.value.id == "self" and cls:
                name = f.attr
                for cand in (name, "_%s%s" % (cls, name)):
                    if (cls, cand) in self.methods:
                        return self.methods[(cls, cand)]
                if name.startswith("_%s" % cls) and (cls, name[len(cls) + 1 :]) in self.methods:
                    return self.methods[(cls, name[len(cls) + 1 :])]
            if isinstance(f.value, ast.Name) and (f.value.id, f.attr) in self.methods:
                return self.methods[(f.value.id, f.attr)]
        return None


class Summary:
    def __init__(self):
        self.mutates = {}  # param name -> list of site descriptions
        self.returns_alias = set()  # param names whose taint may flow to the result
        self.sites = []  # (lineno, description, tainted_roots)
        self.unknown = []  # (lineno, what)


class Analyzer:
    def __init__(self, index):
        self.index = index
        self.cache = {}
        self.stack = set()

    def summary(self, rel, fn, cls=None):
        key = (rel, fn.name, fn.lineno)
        if key in self.cache:
            return self.cache[key]
        if key in self.stack:
            return Summary()  # recursion: optimistic inner summary, the outer analysis still checks every site
        self.stack.add(key)
        s = self._analyse(rel, fn, cls)
        self.stack.discard(key)
        self.cache[key] = s
        return s

    # taint environment: name -> dict(root -> level) with level 0 (T0) or 1 (T1)
    def _analyse(self, rel, fn, cls):
        S = Summary()
        params = [a.arg for a in fn.args.args + fn.args.kwonlyargs]
        if fn.args.vararg:
            params.append(fn.args.vararg.arg)
        if fn.args.kwarg:
            params.append(fn.args.kwarg.arg)
        env = {p: {p: 0} for p in params}
        # module-level mutable state (e.g. a cache dict) is caller-visible too: writes into it make results depend on call history
        tree = self.index.modules.get(rel)
        if tree is not None:
            for n in tree.body:
                tgts = n.targets if isinstance(n, ast.Assign) else ([n.target] if isinstance(n, ast.AnnAssign) else [])
                for t in tgts:
                    if isinstance(t, ast.Name) and t.id not in env:
                        env[t.id] = {"<module global %s>" % t.id: 0}
        # a parameter annotated with an immutable scalar type cannot be written through: `n //= p` on an int rebinds a local
        for a in fn.args.args + fn.args.kwonlyargs:
            ann = a.annotation
            if isinstance(ann, ast.Name) and ann.id in ("int", "float", "bool", "str", "complex"):
                env[a.arg] = {}
        self._block(fn.body, env, S, cls, rel)
        return S

    def _join(self, a, b):
        out = {}
        for k in set(a) | set(b):
            ta, tb = a.get(k, {}), b.get(k, {})
            m = dict(ta)
            for r, l in tb.items():
                m[r] = min(l, m.get(r, 1))
            out[k] = m
        return out

    def _block(self, stmts, env, S, cls, rel):
        for s in stmts:
            self._stmt(s, env, S, cls, rel)

    def _taint(self, e, env, S, cls, rel):
        """dict root -> level for the value of expression e"""
        if e is None or isinstance(e, (ast.Constant, ast.JoinedStr, ast.Compare, ast.BoolOp, ast.Lambda)):
            if isinstance(e, (ast.Compare, ast.BoolOp)):
                for c in ast.iter_child_nodes(e):
                    if isinstance(c, ast.expr):
                        self._taint(c, env, S, cls, rel)
            return {}
        if isinstance(e, ast.Name):
            return dict(env.get(e.id, {}))
        if isinstance(e, ast.Attribute):
            base = self._taint(e.value, env, S, cls, rel)
            if e.attr in VALUE_ATTRS:
                return {}
            return {r: 0 for r in base}
        if isinstance(e, ast.Subscript):
            base = self._taint(e.value, env, S, cls, rel)
            self._taint(e.slice, env, S, cls, rel) if isinstance(e.slice, ast.expr) else None
            return {r: 0 for r in base}
        if isinstance(e, ast.Slice):
            for c in (e.lower, e.upper, e.step):
                self._taint(c, env, S, cls, rel)
            return {}
        if isinstance(e, (ast.BinOp,)):
            self._taint(e.left, env, S, cls, rel)
            self._taint(e.right, env, S, cls, rel)
            return {}
        if isinstance(e, ast.UnaryOp):
            self._taint(e.operand, env, S, cls, rel)
            return {}
        if isinstance(e, (ast.List, ast.Tuple, ast.Set)):
            out = {}
            for x in e.elts:
                for r in self._taint(x, env, S, cls, rel):
                    out[r] = 1 if out.get(r, 1) == 1 else 0
            return out
        if isinstance(e, ast.Dict):
            out = {}
            for x in list(e.keys) + list(e.values):
                if x is not None:
                    for r in self._taint(x, env, S, cls, rel):
                        out[r] = 1
            return out
        if isinstance(e, (ast.ListComp, ast.SetComp, ast.GeneratorExp, ast.DictComp)):
            env2 = dict(env)
            for g in e.generators:
                t = self._taint(g.iter, env2, S, cls, rel)
                self._bind(g.target, {r: 0 for r in t}, env2)
                for c in g.ifs:
                    self._taint(c, env2, S, cls, rel)
            elts = [e.elt] if not isinstance(e, ast.DictComp) else [e.key, e.value]
            out = {}
            for x in elts:
                for r in self._taint(x, env2, S, cls, rel):
                    out[r] = 1
            return out
        if isinstance(e, ast.IfExp):
            self._taint(e.test, env, S, cls, rel)
            a = self._taint(e.body, env, S, cls, rel)
            b = self._taint(e.orelse, env, S, cls, rel)
            out = dict(a)
            for r, l in b.items():
                out[r] = min(l, out.get(r, 1))
            return out
        if isinstance(e, ast.NamedExpr):
            t = self._taint(e.value, env, S, cls, rel)
            env[e.target.id] = dict(t)
            return t
        if isinstance(e, ast.Starred):
            return self._taint(e.value, env, S, cls, rel)
        if isinstance(e, ast.Call):
            return self._call(e, env, S, cls, rel)
        if isinstance(e, ast.Await):
            return self._taint(e.value, env, S, cls, rel)
        # unknown expression kind: conservative
        out = {}
        for c in ast.walk(e):
            if isinstance(c, ast.Name):
                for r in env.get(c.id, {}):
                    out[r] = 0
        return out

    def _call(self, e, env, S, cls, rel):
        d = dotted(e.func)
        argt = [self._taint(a, env, S, cls, rel) for a in e.args]
        kwt = {k.arg: self._taint(k.value, env, S, cls, rel) for k in e.keywords}
        allt = {}
        for t in argt + list(kwt.values()):
            for r, l in t.items():
                allt[r] = min(l, allt.get(r, 1))
        # method calls
        if isinstance(e.func, ast.Attribute):
            recv = self._taint(e.func.value, env, S, cls, rel)
            m = e.func.attr
            if m in MUTATING_METHODS and not (d and d.split(".")[0] in ("np", "cvxpy", "picos", "scipy", "itertools", "math", "warnings")):
                roots = [r for r, l in recv.items() if l == 0]
                S.sites.append((e.lineno, "in-place method %s" % ast.unparse(e.func), roots))
                for r in roots:
                    S.mutates.setdefault(r, []).append("line %d: %s" % (e.lineno, ast.unparse(e)[:80]))
                return {}
        if d in MUTATING_CALLS:
            for i in MUTATING_CALLS[d]:
                if i < len(argt):
                    roots = [r for r, l in argt[i].items() if l == 0]
                    S.sites.append((e.lineno, "mutating library call %s" % d, roots))
                    for r in roots:
                        S.mutates.setdefault(r, []).append("line %d: %s" % (e.lineno, ast.unparse(e)[:80]))
            return {}
        target = self.index.resolve(e, cls)
        if target is not None:
            rel2, fn2 = target
            cls2 = None
            for (c, mname), (r3, f3) in self.index.methods.items():
                if f3 is fn2:
                    cls2 = c
            sub = self.summary(rel2, fn2, cls2)
            pnames = [a.arg for a in fn2.args.args]
            offset = 0
            if cls2 and pnames and pnames[0] in ("self", "cls") and isinstance(e.func, ast.Attribute):
                # bound call: receiver is the first parameter
                recv = self._taint(e.func.value, env, S, cls, rel)
                if pnames[0] == "self":
                    binding = {pnames[0]: recv}
                else:
                    binding = {}
                offset = 1
            else:
                binding = {}
            for i, t in enumerate(argt):
                if i + offset < len(pnames):
                    binding[pnames[i + offset]] = t
            for k, t in kwt.items():
                binding[k] = t
            out = {}
            for p, t in binding.items():
                if p in sub.mutates:
                    roots = [r for r, l in t.items() if l == 0]
                    S.sites.append((e.lineno, "argument `%s` of %s is modified by the callee (%s)" % (p, fn2.name, sub.mutates[p][0]), roots))
                    for r in roots:
                        S.mutates.setdefault(r, []).append("line %d: via %s" % (e.lineno, fn2.name))
                if p in sub.returns_alias:
                    for r, l in t.items():
                        out[r] = 0
            return out
        if d in FRESH_CALLS:
            return {}
        if d in SHALLOW_CALLS:
            return {r: 1 for r in allt}
        if d in ALIAS_CALLS:
            return {r: 0 for r in (argt[0] if argt else {})}
        if isinstance(e.func, ast.Attribute):
            recv = self._taint(e.func.value, env, S, cls, rel)
            m = e.func.attr
            if m in FRESH_METHODS:
                if m == "copy":
                    # list.copy() is shallow; ndarray.copy() is deep for numeric arrays: keep element taint (T1)
                    return {r: 1 for r in recv}
                return {}
            if m in VIEW_METHODS:
                return {r: 0 for r in recv}
            if d and d.split(".")[0] in ("np", "cvxpy", "picos", "scipy", "sp", "math", "itertools", "cvx", "sparse", "linalg"):
                return {}
            # unknown method: result may alias receiver or arguments
            out = {r: 0 for r in recv}
            for r in allt:
                out[r] = 0
            if out:
                S.unknown.append((e.lineno, "method %s" % (d or m)))
            return out
        if d and d.split(".")[0] in ("np", "cvxpy", "picos", "scipy", "sp", "math", "itertools"):
            return {}
        if allt:
            S.unknown.append((e.lineno, "call %s" % (d or ast.unparse(e.func)[:30])))
        return {r: 0 for r in allt}

    def _bind(self, target, taint, env):
        if isinstance(target, ast.Name):
            env[target.id] = dict(taint)
        elif isinstance(target, (ast.Tuple, ast.List)):
            for t in target.elts:
                self._bind(t, {r: 0 for r in taint}, env)
        elif isinstance(target, ast.Starred):
            self._bind(target.value, taint, env)

    def _store(self, target, env, S, cls, rel, what, lineno):
        """a store through `target` (Subscript/Attribute): mutation of the object the base evaluates to"""
        base = target.value
        t = self._taint(base, env, S, cls, rel)
        roots = [r for r, l in t.items() if l == 0]
        S.sites.append((lineno, "%s %s" % (what, ast.unparse(target)[:80]), roots))
        for r in roots:
            S.mutates.setdefault(r, []).append("line %d: %s %s" % (lineno, what, ast.unparse(target)[:80]))

    def _stmt(self, s, env, S, cls, rel):
        if isinstance(s, ast.Assign):
            t = self._taint(s.value, env, S, cls, rel)
            for tg in s.targets:
                self._assign(tg, t, env, S, cls, rel, s.lineno)
            return
        if isinstance(s, ast.AnnAssign):
            if s.value is not None:
                self._assign(s.target, self._taint(s.value, env, S, cls, rel), env, S, cls, rel, s.lineno)
            return
        if isinstance(s, ast.AugAssign):
            self._taint(s.value, env, S, cls, rel)
            if isinstance(s.target, ast.Name):
                t = env.get(s.target.id, {})
                roots = [r for r, l in t.items() if l == 0]
                # x op= v mutates in place when x is an ndarray/list; for immutable scalars it rebinds. Conservative.
                S.sites.append((s.lineno, "augmented assignment %s" % ast.unparse(s)[:80], roots))
                for r in roots:
                    S.mutates.setdefault(r, []).append("line %d: %s" % (s.lineno, ast.unparse(s)[:80]))
            else:
                self._store(s.target, env, S, cls, rel, "augmented store", s.lineno)
            return
        if isinstance(s, ast.Delete):
            for tg in s.targets:
                if isinstance(tg, (ast.Subscript, ast.Attribute)):
                    self._store(tg, env, S, cls, rel, "del", s.lineno)
                elif isinstance(tg, ast.Name):
                    env.pop(tg.id, None)
            return
        if isinstance(s, ast.Expr):
            self._taint(s.value, env, S, cls, rel)
            return
        if isinstance(s, ast.Return):
            if s.value is not None:
                t = self._taint(s.value, env, S, cls, rel)
                for r in t:
                    S.returns_alias.add(r)
            return
        if isinstance(s, ast.If):
            self._taint(s.test, env, S, cls, rel)
            e1 = {k: dict(v) for k, v in env.items()}
            e2 = {k: dict(v) for k, v in env.items()}
            self._block(s.body, e1, S, cls, rel)
            self._block(s.orelse, e2, S, cls, rel)
            j = self._join(e1, e2)
            env.clear()
            env.update(j)
            return
        if isinstance(s, (ast.For, ast.AsyncFor)):
            it = self._taint(s.iter, env, S, cls, rel)
            for _ in range(3):  # fixed point (taints only grow; 3 rounds suffice for the two-level lattice)
                before = {k: dict(v) for k, v in env.items()}
                self._bind(s.target, {r: 0 for r in it}, env)
                # suppress duplicate site records on re-iteration
                n_sites = len(S.sites)
                self._block(s.body, env, S, cls, rel)
                j = self._join(before, env)
                env.clear()
                env.update(j)
                if _ > 0:
                    del S.sites[n_sites:]
                if j == before:
                    break
            self._block(s.orelse, env, S, cls, rel)
            return
        if isinstance(s, ast.While):
            for _ in range(3):
                before = {k: dict(v) for k, v in env.items()}
                self._taint(s.test, env, S, cls, rel)
                n_sites = len(S.sites)
                self._block(s.body, env, S, cls, rel)
                j = self._join(before, env)
                env.clear()
                env.update(j)
                if _ > 0:
                    del S.sites[n_sites:]
                if j == before:
                    break
            self._block(s.orelse, env, S, cls, rel)
            return
        if isinstance(s, (ast.With, ast.AsyncWith)):
            for item in s.items:
                t = self._taint(item.context_expr, env, S, cls, rel)
                if item.optional_vars is not None:
                    self._bind(item.optional_vars, t, env)
            self._block(s.body, env, S, cls, rel)
            return
        if isinstance(s, ast.Try):
            self._block(s.body, env, S, cls, rel)
            for h in s.handlers:
                self._block(h.body, env, S, cls, rel)
            self._block(s.orelse, env, S, cls, rel)
            self._block(s.finalbody, env, S, cls, rel)
            return
        if isinstance(s, (ast.Raise, ast.Assert, ast.Pass, ast.Break, ast.Continue, ast.Import, ast.ImportFrom, ast.Global, ast.Nonlocal)):
            for c in ast.iter_child_nodes(s):
                if isinstance(c, ast.expr):
                    self._taint(c, env, S, cls, rel)
            return
        if isinstance(s, (ast.FunctionDef, ast.ClassDef)):
            return
        if isinstance(s, ast.Match):
            self._taint(s.subject, env, S, cls, rel)
            for c in s.cases:
                self._block(c.body, env, S, cls, rel)
            return
        S.unknown.append((getattr(s, "lineno", 0), "statement %s" % type(s).__name__))

    def _assign(self, tg, taint, env, S, cls, rel, lineno):
        if isinstance(tg, ast.Name):
            env[tg.id] = dict(taint)
        elif isinstance(tg, (ast.Tuple, ast.List)):
            for t in tg.elts:
                self._assign(t, {r: 0 for r in taint}, env, S, cls, rel, lineno)
        elif isinstance(tg, ast.Starred):
            self._assign(tg.value, taint, env, S, cls, rel, lineno)
        elif isinstance(tg, (ast.Subscript, ast.Attribute)):
            self._store(tg, env, S, cls, rel, "store", lineno)
            # the stored value becomes reachable from the container: if the container is a local fresh one, it now
            # holds caller objects as elements (T1)
            r0 = root_name(tg)
            if r0 is not None and taint:
                cur = env.setdefault(r0, {})
                for r in taint:
                    cur.setdefault(r, 1)


# ---------------------------------------------------------------------------------------------
def frame_obligations(index, rel, qualname, modifies=(), label=None, roots=None):
    """Obligation records for `function modifies only <modifies>`: one per mutation site."""
    an = Analyzer(index)
    tree = index.modules[rel]
    body = tree.body
    node = None
    cls = None
    for part in qualname.split("."):
        for n in body:
            if isinstance(n, (ast.FunctionDef, ast.ClassDef)) and n.name == part:
                if isinstance(n, ast.ClassDef):
                    cls = n.name
                node = n
                body = n.body
                break
        else:
            raise KeyError(qualname)
    S = an.summary(rel, node, cls)
    params = [a.arg for a in node.args.args]
    watch = set(roots) if roots is not None else set(params)
    for lineno, desc, troots in S.sites:
        for r in troots:
            if r.startswith("<module global"):
                watch.add(r)
    recs = []
    fn = qualname.split(".")[-1]
    for lineno, desc, troots in S.sites:
        bad = [r for r in troots if r in watch and r not in modifies]
        recs.append(dict(function=fn, instance=label or qualname, kind="frame", text="line %d: %s does not write through a caller-visible reference" % (lineno, desc), status="refuted" if bad else "discharged", backend="frame-analysis", claim=True, ms=0.0, model={"tainted_by": bad} if bad else None, lineno=lineno))
    if not S.sites:
        recs.append(dict(function=fn, instance=label or qualname, kind="frame", text="no mutation site in the function body (frame clause holds vacuously: nothing is written)", status="discharged", backend="frame-analysis", claim=True, ms=0.0, model=None))
    # fresh result: no function reachable from this one is memoised (functools.lru_cache / cache / a module-level dict used as a cache is
    # caught by the global-state rule above): a memoised helper hands the same mutable object to every caller, so a caller that edits its
    # result corrupts every later call
    memo = []
    seen = set()
    stack = [(rel, node, cls)]
    while stack:
        r_, n_, c_ = stack.pop()
        if id(n_) in seen:
            continue
        seen.add(id(n_))
        for dec in getattr(n_, "decorator_list", []):
            txt = ast.unparse(dec)
            if "cache" in txt.lower() or "memo" in txt.lower():
                memo.append("%s (line %d of %s): @%s" % (n_.name, n_.lineno, r_, txt[:40]))
        for sub in ast.walk(n_):
            if isinstance(sub, ast.Call):
                tgt = index.resolve(sub, c_)
                if tgt:
                    stack.append((tgt[0], tgt[1], c_ if (isinstance(sub.func, ast.Attribute) and isinstance(sub.func.value, ast.Name) and sub.func.value.id == "self") else None))
    recs.append(dict(function=fn, instance=label or qualname, kind="frame", text="the result is a fresh object: no function reachable from %s is memoised" % fn, status="refuted" if memo else "discharged", backend="frame-analysis", claim=True, ms=0.0, model={"memoised": memo} if memo else None))
    for lineno, what in S.unknown:
        recs.append(dict(function=fn, instance=label or qualname, kind="frame-unclassified", text="line %d: %s could not be classified; result treated as aliasing its inputs" % (lineno, what), status="discharged", backend="frame-analysis(conservative)", claim=False, ms=0.0, model=None))
    return recs, S


# ---------------------------------------------------------------------------------------------
# RNG ownership
# ---------------------------------------------------------------------------------------------
def rng_obligations(index, rel, qualname, seed_param="seed"):
    """`rng: own(seed)`: (i) no np.random.<x> other than default_rng / Generator in the function or any toqito function it
    transitively calls; (ii) every default_rng(...) call receives the function's own seed parameter; (iii) calls to other
    toqito functions that take a `seed` parameter pass the seed on."""
    tree = index.modules[rel]
    node = [n for n in tree.body if isinstance(n, ast.FunctionDef) and n.name == qualname]
    if not node:
        raise KeyError(qualname)
    recs = []
    seen = set()

    def visit(rel_, fn, depth, seed_name):
        key = (rel_, fn.name)
        if key in seen:
            return
        seen.add(key)
        params = [a.arg for a in fn.args.args + fn.args.kwonlyargs]
        has_seed = seed_name in params
        ngen = 0
        inner = set()
        for n in ast.walk(fn):
            if isinstance(n, ast.Attribute) and isinstance(n.value, ast.Attribute):
                inner.add(id(n.value))
        # names imported from numpy.random / random at module level (e.g. `from numpy.random import rand`)
        imported = {}
        for m in index.modules.get(rel_, ast.Module(body=[], type_ignores=[])).body:
            if isinstance(m, ast.ImportFrom) and m.module in ("numpy.random", "random"):
                for a in m.names:
                    imported[a.asname or a.name] = "%s.%s" % (m.module, a.name)
        for n in ast.walk(fn):
            if isinstance(n, ast.Name) and n.id in imported and imported[n.id].split(".")[-1] not in ("default_rng", "Generator", "SeedSequence", "PCG64"):
                recs.append(dict(function=qualname, instance="%s (in %s)" % (qualname, fn.name), kind="rng-global-state", text="line %d of %s: `%s` (imported from %s) uses global random state" % (n.lineno, fn.name, n.id, imported[n.id]), status="refuted", backend="effect-analysis", claim=True, ms=0.0, model=None))
            if isinstance(n, ast.Attribute) and dotted(n) in ("np.random", "numpy.random") and id(n) not in inner:
                recs.append(dict(function=qualname, instance="%s (in %s)" % (qualname, fn.name), kind="rng-global-state", text="line %d of %s: the module `%s` itself is bound to a name (global random state reachable through an alias)" % (n.lineno, fn.name, dotted(n)), status="refuted", backend="effect-analysis", claim=True, ms=0.0, model=None))
            if isinstance(n, ast.Attribute):
                d = dotted(n)
                if d and (d.startswith("np.random.") or d.startswith("numpy.random.")):
                    leaf = d.split(".")[2]
                    ok = leaf in ("default_rng", "Generator", "SeedSequence", "PCG64")
                    recs.append(dict(function=qualname, instance="%s (in %s)" % (qualname, fn.name), kind="rng-global-state", text="line %d of %s: `%s` does not touch the global numpy random state" % (n.lineno, fn.name, d), status="discharged" if ok else "refuted", backend="effect-analysis", claim=True, ms=0.0, model=None))
                if d and (d.startswith("random.") and d.split(".")[1] in ("random", "seed", "shuffle", "randint", "choice", "uniform", "gauss", "sample")):
                    recs.append(dict(function=qualname, instance="%s (in %s)" % (qualname, fn.name), kind="rng-global-state", text="line %d of %s: `%s` uses the global `random` module state" % (n.lineno, fn.name, d), status="refuted", backend="effect-analysis", claim=True, ms=0.0, model=None))
            if isinstance(n, ast.Call):
                d = dotted(n.func)
                if d in ("np.random.default_rng", "numpy.random.default_rng", "default_rng"):
                    ngen += 1
                    arg = n.args[0] if n.args else next((k.value for k in n.keywords if k.arg == "seed"), None)
                    ok = isinstance(arg, ast.Name) and arg.id == seed_name and has_seed
                    recs.append(dict(function=qualname, instance="%s (in %s)" % (qualname, fn.name), kind="rng-own-seed", text="line %d of %s: default_rng is seeded with the function's own `%s` parameter" % (n.lineno, fn.name, seed_name), status="discharged" if ok else "refuted", backend="effect-analysis", claim=True, ms=0.0, model=None))
                tgt = index.resolve(n)
                if tgt is not None:
                    rel2, fn2 = tgt
                    p2 = [a.arg for a in fn2.args.args + fn2.args.kwonlyargs]
                    if "seed" in p2 and _uses_rng(index, rel2, fn2):
                        # must pass the seed on
                        passed = None
                        for k in n.keywords:
                            if k.arg == "seed":
                                passed = k.value
                        pos = p2.index("seed")
                        if passed is None and pos < len(n.args):
                            passed = n.args[pos]
                        ok = isinstance(passed, ast.Name) and passed.id == seed_name and has_seed
                        recs.append(dict(function=qualname, instance="%s (in %s)" % (qualname, fn.name), kind="rng-seed-passed-on", text="line %d of %s: call of %s passes the seed on" % (n.lineno, fn.name, fn2.name), status="discharged" if ok else "refuted", backend="effect-analysis", claim=True, ms=0.0, model=None))
                        visit(rel2, fn2, depth + 1, "seed")
                    elif _uses_rng(index, rel2, fn2):
                        recs.append(dict(function=qualname, instance="%s (in %s)" % (qualname, fn.name), kind="rng-seed-passed-on", text="line %d of %s: callee %s draws random numbers but takes no seed" % (n.lineno, fn.name, fn2.name), status="refuted", backend="effect-analysis", claim=True, ms=0.0, model=None))
                    else:
                        visit(rel2, fn2, depth + 1, seed_name)

    visit(rel, node[0], 0, seed_param)
    if not recs:
        recs.append(dict(function=qualname, instance=qualname, kind="rng-own-seed", text="the function draws no random numbers", status="discharged", backend="effect-analysis", claim=True, ms=0.0, model=None))
    return recs


_rng_cache = {}


def _uses_rng(index, rel, fn, depth=0):
    key = (rel, fn.name)
    if key in _rng_cache:
        return _rng_cache[key]
    _rng_cache[key] = False
    out = False
    for n in ast.walk(fn):
        if isinstance(n, ast.Attribute):
            d = dotted(n)
            if d and (d.startswith("np.random") or d.startswith("numpy.random")):
                out = True
        if isinstance(n, ast.Call) and depth < 4:
            tgt = index.resolve(n)
            if tgt is not None and _uses_rng(index, tgt[0], tgt[1], depth + 1):
                out = True
    _rng_cache[key] = out
    return out
