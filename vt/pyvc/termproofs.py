"""Run the E1-term contracts (contracts/metrics_c.py) for a list of functions and package the records."""


def prove_terms(names, muts, tier, idprefix, replay_clause="term.formula"):
    from contracts.metrics_c import CONTRACTS, TermContract
    from vt import extract
    from vt.pyvc.termvc import TermEngine

    records = []
    functions = []
    srcs = {}

    def run(name, src):
        rel, params, req, spec, text = CONTRACTS[name]
        e = TermEngine(src.function(name), TermContract(params, req, spec, text), name, "all inputs satisfying requires")
        recs = e.run()
        for x in recs:
            if x["status"] != "discharged":
                x["replay"] = [dict(clause=replay_clause, function=name, input_class="formula/%s" % name, params=dict(fn=name, seed=1))]
        return recs

    for name in names:
        rel = CONTRACTS[name][0]
        srcs[name] = extract.Source(rel)
        functions.append(srcs[name].info(name))
        records += run(name, srcs[name])
    planted = {"tried": 0, "refuted": 0, "survivors": [], "anchors_missing": [], "detail": []}
    for name, old, new in muts[: (len(muts) if tier == "thorough" else 2)]:
        try:
            m = srcs[name].mutated(old, new)
        except KeyError:
            planted["anchors_missing"].append("%s: %s" % (name, old))
            continue
        bad = [x for x in run(name, m) if x["status"] != "discharged"]
        planted["tried"] += 1
        if bad:
            planted["refuted"] += 1
            planted["detail"].append({"mutant": "%s: %s -> %s" % (name, old, new), "not_discharged": len(bad), "first": bad[0]["text"][:100]})
        else:
            planted["survivors"].append("%s: %s" % (name, old))
    for i, x in enumerate(records):
        x["_id"] = "%s.%d" % (idprefix, i)
        # term-level refutations are candidates only (uninterpreted operations): never reported without a failing input
        x["clean"] = False
    per = {n: sum(1 for x in records if x.get("claim") and x["function"] == n) for n in names}
    sc = {"nonzero_claim_obligations": {"ok": all(v > 0 for v in per.values()), "detail": per}, "planted_bugs_all_refuted": {"ok": planted["tried"] == planted["refuted"], "detail": planted}}
    return dict(records=records, functions=functions, instances=len(names), planted=planted, selfchecks=sc)


def merge(a, b):
    """merge two prove() results"""
    out = dict(a)
    out["records"] = a["records"] + b["records"]
    out["functions"] = a.get("functions", []) + b.get("functions", [])
    out["instances"] = (a.get("instances") or 0) + (b.get("instances") or 0)
    pa, pb = a.get("planted", {}), b.get("planted", {})
    out["planted"] = {k: (pa.get(k, 0 if k in ("tried", "refuted") else []) + pb.get(k, 0 if k in ("tried", "refuted") else [])) for k in ("tried", "refuted", "survivors", "anchors_missing", "detail")}
    sc = dict(a.get("selfchecks", {}))
    for k, v in b.get("selfchecks", {}).items():
        if k in sc:
            sc[k] = {"ok": sc[k]["ok"] and v["ok"], "detail": [sc[k]["detail"], v["detail"]]}
        else:
            sc[k] = v
    out["selfchecks"] = sc
    return out
