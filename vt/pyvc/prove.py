"""Discharging E1-array postconditions: equality of two symbolic entries for all digits and all dimensions.

`got` comes from executing the real code, `exp` from the contract's spec array, both evaluated at the same
fine output index.  Two entries are equal when they name the same input array and their index polynomials are
equal on the digit ranges; the negation of that is the SMT query (sat = refuted, because entries of the input are
uninterpreted: distinct indices can hold distinct values).  Sums are compared after matching bound digits by their
atomic radix (a bijective renaming of bound variables).
"""
from __future__ import annotations

import subprocess
import tempfile
import time

import sympy as sp
import z3

from . import sym
from .interp import Unsupported, implicit, rel_to_z3, to_z3
from .sym import Delta, Entry, Num, SumEntry, Unaligned


def canon_sum(entry, tag):
    """rename each bound digit of a SumEntry by its atomic radix -> (body key, {(bound symbol, radix)})"""
    W = sym.world()
    bound, body = entry.flat()
    bound = W.resolve_terms(bound)
    ren = {}
    for d, r in bound:
        if not r.is_Symbol:
            raise Unaligned("bound digit of non-atomic radix %s" % r)
        new = sp.Symbol("u_" + r.name, integer=True, nonnegative=True)
        if new in ren.values():
            raise Unaligned("two bound digits with the same radix %s" % r)
        ren[d] = new
    if not isinstance(body, Entry):
        raise Unsupported("sum over a non-entry")
    name, idx, conj = body.key()
    return (name, tuple(sp.expand(i.subs(ren)) for i in idx), conj), frozenset((ren[d], r) for d, r in bound)


def key_of(x):
    if isinstance(x, Entry):
        return x.key(), frozenset()
    if isinstance(x, SumEntry):
        return canon_sum(x, "g")
    if isinstance(x, Delta):
        return x.key(), frozenset()
    if isinstance(x, Num):
        return ("index", (x.value(),), False), frozenset()
    if isinstance(x, (sp.Expr, int)):
        return ("index", (sp.expand(sp.sympify(x)),), False), frozenset()
    raise Unsupported("cannot compare %r" % (type(x),))


def _smt2(solver):
    return "(set-logic ALL)\n" + solver.to_smt2()


def cvc5_check(solver, timeout_s=10):
    """second opinion for queries z3 leaves unknown"""
    with tempfile.NamedTemporaryFile("w", suffix=".smt2", delete=False) as fh:
        fh.write(_smt2(solver))
        path = fh.name
    try:
        p = subprocess.run(["/usr/bin/cvc5", "--tlimit=%d" % (timeout_s * 1000), path], capture_output=True, text=True, timeout=timeout_s + 5)
        out = p.stdout.strip().splitlines()
        return out[0] if out else "unknown"
    except Exception:
        return "unknown"
    finally:
        import os

        os.unlink(path)


def discharge(ctx, hyps, goal_negations, timeout_ms=10000, minimise=()):
    """unsat(assumptions & hyps & OR(goal_negations))  <=> obligation holds.
    returns (status, backend, model dict | None, ms)"""
    cache = {}
    s = z3.Solver()
    s.set("timeout", timeout_ms)
    for a in ctx.assumptions:
        s.add(rel_to_z3(a, cache))
    for a in hyps:
        s.add(rel_to_z3(a, cache))
    s.add(z3.Or(*[rel_to_z3(g, cache) for g in goal_negations]) if goal_negations else z3.BoolVal(False))
    s.add(*implicit(cache))
    t = time.time()
    r = s.check()
    ms = (time.time() - t) * 1000
    ctx.solver_ms += ms
    if r == z3.unsat:
        return "discharged", "z3", None, ms
    if r == z3.sat:
        model = None
        # minimise the counter-model: bound the listed symbols by 2, 3, 4 in turn
        for bound in (2, 3, 4, 6):
            s.push()
            for m in minimise:
                if m in cache:
                    s.add(cache[m] <= bound)
            if s.check() == z3.sat:
                model = s.model()
                s.pop()
                break
            s.pop()
        if model is None:
            s.check()
            model = s.model()
        md = {}
        for symb, zv in cache.items():
            v = model.eval(zv, model_completion=True)
            try:
                md[str(symb)] = v.as_long()
            except Exception:
                md[str(symb)] = str(v)
        return "refuted", "z3", md, ms
    c = cvc5_check(s)
    if c == "unsat":
        return "discharged", "cvc5", None, ms
    return "undecided", "z3:unknown,cvc5:%s" % c, None, ms


def range_hyps():
    hyps = []
    for d, r in sym.world().ranges():
        hyps.append(sp.Ge(d, 0))
        hyps.append(sp.Lt(d, r))
    return hyps


def entries_equal(ctx, got, exp, minimise=()):
    """Obligation: for all digits in range, got == exp.  Returns dict(status, backend, model, detail, ms)."""
    try:
        (gk, gb) = key_of(got)
        (ek, eb) = key_of(exp)
    except Unaligned as e:
        return dict(status="undecided", backend="-", model=None, detail="unaligned: %s" % e, ms=0.0, side=getattr(e, "side", None))
    if gk[0] != ek[0] or gk[2] != ek[2] or len(gk[1]) != len(ek[1]):
        # a structural mismatch is a candidate only: it goes to replay, and is never reported without a failing input
        return dict(status="undecided", backend="structural-mismatch", model=None, detail="different array/arity: %r vs %r" % (gk[0], ek[0]), ms=0.0)
    if gb != eb:
        # bound digit sets differ (e.g. summed over the wrong subsystem)
        return dict(status="undecided", backend="structural-mismatch", model=None, detail="sum ranges differ: %s vs %s" % (sorted(map(str, gb)), sorted(map(str, eb))), ms=0.0)
    hyps = range_hyps()
    for u, r in gb:
        hyps += [sp.Ge(u, 0), sp.Lt(u, r)]
    neg = []
    normal_form_equal = True
    if gk[0] == "delta":
        # [a == b] versus [a' == b']: equal as 0/1 values iff the two equalities are equivalent
        (a, b), (a2, b2) = gk[1], ek[1]
        if sp.expand(a - a2) == 0 and sp.expand(b - b2) == 0:
            return dict(status="discharged", backend="normal-form", model=None, detail="", ms=0.0)
        st, be, model, ms = discharge(ctx, hyps, [sp.Xor(sp.Eq(a, b), sp.Eq(a2, b2))], minimise=minimise)
        return dict(status=st, backend=be, model=model, detail="delta[%s,%s] vs delta[%s,%s]" % (a, b, a2, b2) if st != "discharged" else "", ms=ms)
    for a, b in zip(gk[1], ek[1]):
        if sp.expand(a - b) != 0:
            normal_form_equal = False
        neg.append(sp.Ne(a, b))
    neg = [n for n in neg if n is not sp.false]
    if not neg:
        # identical polynomial normal forms: still recorded as discharged by normalisation
        return dict(status="discharged", backend="normal-form", model=None, detail="", ms=0.0)
    st, be, model, ms = discharge(ctx, hyps, neg, minimise=minimise)
    if st == "undecided" and normal_form_equal:
        st, be = "discharged", "normal-form"
    return dict(status=st, backend=be, model=model, detail="got %s expected %s" % (gk[1], ek[1]) if st != "discharged" else "", ms=ms)


def exprs_equal(ctx, a, b, minimise=()):
    a, b = sp.sympify(a), sp.sympify(b)
    if sp.expand(a - b) == 0 or sp.simplify(a - b) == 0:
        return dict(status="discharged", backend="normal-form", model=None, detail="", ms=0.0)
    st, be, model, ms = discharge(ctx, [], [sp.Ne(a, b)], minimise=minimise)
    return dict(status=st, backend=be, model=model, detail="%s vs %s" % (a, b) if st != "discharged" else "", ms=ms)
