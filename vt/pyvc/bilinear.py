"""E1-array, bilinear extension: entries that are sums of products of input entries (np.kron, @, np.concatenate, np.identity).

An array entry may now be a `Poly` = sum of `Term`s; a Term is  coef * prod(factors) * prod(deltas)  summed over its bound digits.
  factors : `Entry` objects (named input array, index numerals, conj flag)
  deltas  : pairs of numerals (Kronecker delta [a == b]) -- from np.identity and from block selection in np.concatenate
  bound   : (digit, radix) pairs, each ranging over the full [0, radix)
Equality of two Polys is decided after (1) eliminating every delta that involves a bound digit (sum_k [k == e] f(k) = f(e), the one
summation rule besides the mixed-radix rule) and (2) matching terms up to renaming of bound digits and reordering of factors; the
remaining index equalities are polynomial identities over the digit ranges, discharged by normal form / z3 as for gathers.
"""
from __future__ import annotations

import itertools

import sympy as sp

from . import sym
from .sym import Delta, Entry, Num, SumEntry, SymArray, Unaligned, Unsupported, as_num, same, unflatten


class Term:
    def __init__(self, coef=1, factors=(), deltas=(), bound=()):
        self.coef = sp.sympify(coef)
        self.factors = list(factors)
        self.deltas = list(deltas)
        self.bound = list(bound)


class Poly:
    def __init__(self, terms):
        self.terms = list(terms)


def to_poly(x):
    if isinstance(x, Poly):
        return x
    if isinstance(x, Entry):
        return Poly([Term(1, [x])])
    if isinstance(x, Delta):
        return Poly([Term(1, [], [(as_num(x.a, x.n), as_num(x.b, x.n))])])
    if isinstance(x, SumEntry):
        bound, body = x.flat()
        p = to_poly(body)
        return Poly([Term(t.coef, t.factors, t.deltas, list(t.bound) + list(bound)) for t in p.terms])
    if isinstance(x, (int, sp.Expr)) and sp.sympify(x).is_number:
        return Poly([Term(x)])
    raise Unsupported("entry of type %s in a bilinear expression" % type(x).__name__)


def p_mul(a, b):
    a, b = to_poly(a), to_poly(b)
    return Poly([Term(s.coef * t.coef, s.factors + t.factors, s.deltas + t.deltas, s.bound + t.bound) for s in a.terms for t in b.terms])


def p_add(a, b):
    a, b = to_poly(a), to_poly(b)
    return Poly(a.terms + b.terms)


def p_conj(a):
    a = to_poly(a)
    return Poly([Term(sp.conjugate(t.coef), [Entry(f.name, f.idx, not f.conj) for f in t.factors], t.deltas, t.bound) for t in a.terms])


# ---------------------------------------------------------------------------------------------
# array operations
# ---------------------------------------------------------------------------------------------
def _as2d(A):
    if A.ndim == 2:
        return A
    if A.ndim == 1:  # numpy treats a 1-D operand of kron as a row
        return SymArray((sp.Integer(1), A.shape[0]), lambda idx: A.get((idx[1],)), A.kind)
    raise Unsupported("kron/matmul of a %d-d array" % A.ndim)


def kron(A, B):
    A2, B2 = _as2d(A), _as2d(B)
    ra, ca = A2.shape
    rb, cb = B2.shape

    def g(idx):
        ia, ib = unflatten(as_num(idx[0], ra * rb), [ra, rb], "C")
        ja, jb = unflatten(as_num(idx[1], ca * cb), [ca, cb], "C")
        return p_mul(A2.get((ia, ja)), B2.get((ib, jb)))

    out = SymArray((ra * rb, ca * cb), g, "poly")
    if A.ndim == 1 and B.ndim == 1:
        return SymArray((ca * cb,), lambda idx: out.get((sp.Integer(0), idx[0])), "poly")
    return out


def matmul(A, B):
    if A.ndim == 1 and B.ndim == 2:
        A2 = _as2d(A)
        r = matmul(A2, B)
        return SymArray((B.shape[1],), lambda idx: r.get((sp.Integer(0), idx[0])), "poly")
    if A.ndim != 2 or B.ndim != 2:
        raise Unsupported("matmul of %d-d and %d-d arrays" % (A.ndim, B.ndim))
    inner = A.shape[1]
    if not same(inner, B.shape[0]):
        raise Unaligned("matmul inner dimensions %s and %s" % (inner, B.shape[0]), side=(inner, B.shape[0]))

    def g(idx):
        k = sym.world().fresh_digit("m", inner)
        kn = Num([(k, inner)])
        p = p_mul(A.get((idx[0], kn)), B.get((kn, idx[1])))
        return Poly([Term(t.coef, t.factors, t.deltas, list(t.bound) + [(k, sp.sympify(inner))]) for t in p.terms])

    return SymArray((A.shape[0], B.shape[1]), g, "poly")


def concatenate(blocks, axis):
    """np.concatenate of r arrays of EQUAL shape along `axis` (0 or 1): the result index along that axis is (block digit, inner index)"""
    r = len(blocks)
    if r == 0:
        raise Unsupported("concatenate of an empty list")
    shp = blocks[0].shape
    for b in blocks:
        if b.ndim != 2 or not all(same(x, y) for x, y in zip(b.shape, shp)):
            raise Unsupported("concatenate of arrays of different shapes")
    s = shp[axis]
    newshape = list(shp)
    newshape[axis] = sp.Integer(r) * s

    def g(idx):
        blk, inner = unflatten(as_num(idx[axis], sp.Integer(r) * s), [sp.Integer(r), s], "C")
        out = None
        for b0, B in enumerate(blocks):
            sub = list(idx)
            sub[axis] = inner
            e = B.get(tuple(sub))
            if r == 1:
                t = to_poly(e)
            else:
                t = p_mul(Poly([Term(1, [], [(blk, Num([(sp.Integer(b0), sp.Integer(r))]))])]), e)
            out = t if out is None else p_add(out, t)
        return out

    return SymArray(newshape, g, "poly")


def add_arrays(A, B):
    if not all(same(x, y) for x, y in zip(A.shape, B.shape)) or A.ndim != B.ndim:
        raise Unsupported("sum of arrays of different shapes")
    return SymArray(A.shape, lambda idx: p_add(A.get(idx), B.get(idx)), "poly")


def scale(c, A):
    return SymArray(A.shape, lambda idx: p_mul(Poly([Term(c)]), A.get(idx)), "poly")


# ---------------------------------------------------------------------------------------------
# normalisation and comparison
# ---------------------------------------------------------------------------------------------
def _digits(num):
    return sym.world().resolve_terms(list(num.terms))


def _align(a, b):
    """digit lists of two numerals brought to a common radix sequence (splitting free digits where needed)"""
    da, db = _digits(a), _digits(b)
    ra, rb = [r for _, r in da], [r for _, r in db]
    if len(ra) == len(rb) and all(same(x, y) for x, y in zip(ra, rb)):
        return da, db
    # split a along b's radices, or b along a's
    for first in (0, 1):
        try:
            if first == 0:
                parts = unflatten(Num(da), rb, "F")
                return [t for p in parts for t in (p.terms or [(sp.Integer(0), sp.Integer(1))])][: len(rb)] if False else _flatten_parts(parts, rb), db
            parts = unflatten(Num(db), ra, "F")
            return da, _flatten_parts(parts, ra)
        except Unaligned:
            continue
    raise Unaligned("delta between numerals of incompatible radix structure: %s vs %s" % (ra, rb))


def _flatten_parts(parts, radices):
    out = []
    for p, r in zip(parts, radices):
        t = sym.world().resolve_terms(p.terms)
        if len(t) == 1:
            out.append(t[0])
        elif len(t) == 0:
            out.append((sp.Integer(0), sp.sympify(r)))
        else:
            raise Unaligned("digit group does not reduce to one digit")
    return out


def _subs_entry(e, sub):
    return Entry(e.name, [Num([(sp.sympify(d).subs(sub), r) for d, r in _digits(i)]) if isinstance(i, Num) else sp.sympify(i).subs(sub) for i in e.idx], e.conj)


def normalise(term):
    """eliminate deltas involving bound digits; returns (coef, factors, residual digit-level deltas, bound) or None if the term vanishes"""
    W = sym.world()
    bound = {d: r for d, r in W.resolve_terms(term.bound)}
    factors = list(term.factors)
    pending = []
    for a, b in term.deltas:
        da, db = _align(a, b)
        for (x, rx), (y, ry) in zip(da, db):
            pending.append((sp.sympify(x), sp.sympify(y)))
    residual = []
    changed = True
    while pending:
        x, y = pending.pop(0)
        if sp.expand(x - y) == 0:
            continue
        if x.is_number and y.is_number:
            return None  # [c1 == c2] with different constants: the term is zero
        sub = None
        if x.is_Symbol and x in bound:
            sub = {x: y}
            del bound[x]
        elif y.is_Symbol and y in bound:
            sub = {y: x}
            del bound[y]
        if sub is None:
            residual.append((x, y))
            continue
        factors = [_subs_entry(f, sub) for f in factors]
        pending = [(p.subs(sub), q.subs(sub)) for p, q in pending]
        residual = [(p.subs(sub), q.subs(sub)) for p, q in residual]
    # re-resolve bound digits after substitutions (splits may have happened)
    final_bound = []
    for d, r in bound.items():
        final_bound += W.resolve_terms([(d, r)])
    return term.coef, factors, residual, final_bound


def _fkey(f):
    return (f.name, f.conj, len(f.idx))


def _idx_vals(f):
    return [i.value() if isinstance(i, Num) else sp.expand(sp.sympify(i)) for i in f.idx]


def polys_equal(ctx, got, exp, minimise=()):
    """for all free digits: got == exp.  Returns dict(status, backend, model, detail, ms)."""
    from .prove import discharge, range_hyps

    try:
        G = [normalise(t) for t in to_poly(got).terms]
        E = [normalise(t) for t in to_poly(exp).terms]
    except Unaligned as u:
        return dict(status="undecided", backend="-", model=None, detail="unaligned: %s" % u, ms=0.0)
    G = [t for t in G if t is not None and t[0] != 0]
    E = [t for t in E if t is not None and t[0] != 0]
    if len(G) != len(E):
        return dict(status="undecided", backend="structural-mismatch", model=None, detail="%d terms vs %d terms" % (len(G), len(E)), ms=0.0)
    total_ms = 0.0
    used = set()
    worst = None
    for gc, gf, gres, gb in G:
        matched = False
        for j, (ec, ef, eres, eb) in enumerate(E):
            if j in used:
                continue
            if sp.simplify(gc - ec) != 0 or sorted(map(_fkey, gf)) != sorted(map(_fkey, ef)) or len(gb) != len(eb) or len(gres) != len(eres):
                continue
            res = _match(ctx, gf, gres, gb, ef, eres, eb, minimise)
            total_ms += res.get("ms", 0.0)
            if res["status"] == "discharged":
                used.add(j)
                matched = True
                break
            worst = res
        if not matched:
            if worst is None:
                return dict(status="undecided", backend="structural-mismatch", model=None, detail="no term of the specification has the factors %s" % (sorted(map(_fkey, gf)),), ms=total_ms)
            w = dict(worst)
            w["ms"] = total_ms
            return w
    return dict(status="discharged", backend="bilinear+" + ("z3" if total_ms else "normal-form"), model=None, detail="", ms=total_ms)


def _match(ctx, gf, gres, gb, ef, eres, eb, minimise):
    """try every bijection of bound digits (respecting radices) and every pairing of equal-kind factors"""
    from .prove import discharge, range_hyps

    # candidate bijections of bound digits
    def radix_ok(p):
        return all(same(gb[i][1], eb[p[i]][1]) for i in range(len(gb)))

    perms = [p for p in itertools.permutations(range(len(eb))) if radix_ok(p)]
    if not perms:
        return dict(status="undecided", backend="structural-mismatch", model=None, detail="bound digits have different radices: %s vs %s" % ([str(r) for _, r in gb], [str(r) for _, r in eb]), ms=0.0)
    # factor pairings: group by kind
    kinds = sorted(set(map(_fkey, gf)))
    groups_g = {k: [f for f in gf if _fkey(f) == k] for k in kinds}
    groups_e = {k: [f for f in ef if _fkey(f) == k] for k in kinds}
    pairings = [[]]
    for k in kinds:
        new = []
        for base in pairings:
            for perm in itertools.permutations(range(len(groups_e[k]))):
                new.append(base + [(groups_g[k][i], groups_e[k][perm[i]]) for i in range(len(perm))])
        pairings = new
    last = None
    ms = 0.0
    for p in perms[:24]:
        ren = {eb[p[i]][0]: gb[i][0] for i in range(len(gb))}
        for pairing in pairings[:24]:
            neq = []
            nf_equal = True
            for fg, fe in pairing:
                for a, b in zip(_idx_vals(fg), _idx_vals(fe)):
                    b2 = sp.expand(sp.sympify(b).subs(ren, simultaneous=True))
                    if sp.expand(a - b2) != 0:
                        nf_equal = False
                        neq.append(sp.Ne(a, b2))
            for (x, y), (x2, y2) in zip(gres, eres):
                x2, y2 = sp.sympify(x2).subs(ren, simultaneous=True), sp.sympify(y2).subs(ren, simultaneous=True)
                if not ((sp.expand(x - x2) == 0 and sp.expand(y - y2) == 0) or (sp.expand(x - y2) == 0 and sp.expand(y - x2) == 0)):
                    nf_equal = False
                    neq.append(sp.Xor(sp.Eq(x, y), sp.Eq(x2, y2)))
            if nf_equal:
                return dict(status="discharged", backend="bilinear+normal-form", model=None, detail="", ms=ms)
            hyps = range_hyps()
            for d, r in gb:
                hyps += [sp.Ge(d, 0), sp.Lt(d, r)]
            st, be, model, t = discharge(ctx, hyps, [n for n in neq if n is not sp.false], minimise=minimise)
            ms += t
            if st == "discharged":
                return dict(status="discharged", backend="bilinear+" + be, model=None, detail="", ms=ms)
            last = dict(status=st, backend="bilinear+" + be, model=model, detail="index maps differ under every tried renaming of bound digits", ms=ms)
    return last or dict(status="undecided", backend="-", model=None, detail="no matching tried", ms=ms)
