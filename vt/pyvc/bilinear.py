"""E1-array, bilinear extension: entries that are sums of products of input entries (np.kron, @, np.concatenate, np.identity).

An array entry may now be a `Poly` = sum of `Term`s; a Term is  coef * prod(factors) * prod(deltas)  summed over its bound digits.
  factors : `Entry` objects (named input array, index numerals, conj flag)
  deltas  : pairs of numerals (Kronecker delta [a == b]) -- from np.identity and from block selection in np.concatenate
  bound   : (digit, radix) pairs, each ranging over the full [0, radix)
Equality of two Polys is decided after (1) eliminating every delta that involves a bound digit (sum_k [k == e] f(k) = f(e), the one
summation rule besides the mixed-radix rule) and (2) matching terms up to renaming of bound digits and reordering of factors; the
remaining index equalities are polynomial identities over the digit ranges, discharged by normal form / z3 as for gathers.
"""
from __future__ import annotations

import itertools

import sympy as sp

from . import sym
from .sym import Delta, Entry, Num, SumEntry, SymArray, Unaligned, Unsupported, as_num, same, unflatten


class Term:
    def __init__(self, coef=1, factors=(), deltas=(), bound=()):
        self.coef = sp.sympify(coef)
        self.factors = list(factors)
        self.deltas = list(deltas)
        self.bound = list(bound)


class Poly:
    def __init__(self, terms):
        self.terms = list(terms)


def to_poly(x):
    if isinstance(x, Poly):
        return x
    if isinstance(x, Entry):
        return Poly([Term(1, [x])])
    if isinstance(x, Delta):
        return Poly([Term(1, [], [(as_num(x.a, x.n), as_num(x.b, x.n))])])
    if isinstance(x, SumEntry):
        bound, body = x.flat()
        p = to_poly(body)
        return Poly([Term(t.coef, t.factors, t.deltas, list(t.bound) + list(bound)) for t in p.terms])
    if isinstance(x, (int, sp.Expr)) and sp.sympify(x).is_number:
        return Poly([Term(x)])
    raise Unsupported("entry of type %s in a bilinear expression" % type(x).__name__)


def p_mul(a, b):
    a, b = to_poly(a), to_poly(b)
    return Poly([Term(s.coef * t.coef, s.factors + t.factors, s.deltas + t.deltas, s.bound + t.bound) for s in a.terms for t in b.terms])


def p_add(a, b):
    a, b = to_poly(a), to_poly(b)
    return Poly(a.terms + b.terms)


def p_conj(a):
    a = to_poly(a)
    return Poly([Term(sp.conjugate(t.coef), [Entry(f.name, f.idx, not f.conj) for f in t.factors], t.deltas, t.bound) for t in a.terms])


# ---------------------------------------------------------------------------------------------
# array operations
# ---------------------------------------------------------------------------------------------
def _as2d(A):
    if A.ndim == 2:
        return A
    if A.ndim == 1:  # numpy treats a 1-D operand of kron as a row
        return SymArray((sp.Integer(1), A.shape[0]), lambda idx: A.get((idx[1],)), A.kind)
    raise Unsupported("kron/matmul of a %d-d array" % A.ndim)


def kron(A, B):
    A2, B2 = _as2d(A), _as2d(B)
    ra, ca = A2.shape
    rb, cb = B2.shape

    def g(idx):
        ia, ib = unflatten(as_num(idx[0], ra * rb), [ra, rb], "C")
        ja, jb = unflatten(as_num(idx[1], ca * cb), [ca, cb], "C")
        return p_mul(A2.get((ia, ja)), B2.get((ib, jb)))

    out = SymArray((ra * rb, ca * cb), g, "poly")
    if A.ndim == 1 and B.ndim == 1:
        return SymArray((ca * cb,), lambda idx: out.get((sp.Integer(0), idx[0])), "poly")
    return out


def matmul(A, B):
    if A.ndim == 1 and B.ndim == 2:
        A2 = _as2d(A)
        r = matmul(A2, B)
        return SymArray((B.shape[1],), lambda idx: r.get((sp.Integer(0), idx[0])), "poly")
    if A.ndim != 2 or B.ndim != 2:
        raise Unsupported("matmul of %d-d and %d-d arrays" % (A.ndim, B.ndim))
    inner = A.shape[1]
    if not same(inner, B.shape[0]):
        raise Unaligned("matmul inner dimensions %s and %s" % (inner, B.shape[0]), side=(inner, B.shape[0]))

    def g(idx):
        k = sym.world().fresh_digit("m", inner)
        kn = Num([(k, inner)])
        p = p_mul(A.get((idx[0], kn)), B.get((kn, idx[1])))
        return Poly([Term(t.coef, t.factors, t.deltas, list(t.bound) + [(k, sp.sympify(inner))]) for t in p.terms])

    return SymArray((A.shape[0], B.shape[1]), g, "poly")


def concatenate(blocks, axis):
    """np.concatenate of r arrays of EQUAL shape along `axis` (0 or 1): the result index along that axis is (block digit, inner index)"""
    r = len(blocks)
    if r == 0:
        raise Unsupported("concatenate of an empty list")
    shp = blocks[0].shape
    for b in blocks:
        if b.ndim != 2 or not all(same(x, y) for x, y in zip(b.shape, shp)):
            raise Unsupported("concatenate of arrays of different shapes")
    s = shp[axis]
    newshape = list(shp)
    newshape[axis] = sp.Integer(r) * s

    def g(idx):
        blk, inner = unflatten(as_num(idx[axis], sp.Integer(r) * s), [sp.Integer(r), s], "C")
        out = None
        for b0, B in enumerate(blocks):
            sub = list(idx)
            sub[axis] = inner
            e = B.get(tuple(sub))
            if r == 1:
                t = to_poly(e)
            else:
                t = p_mul(Poly([Term(1, [], [(blk, Num([(sp.Integer(b0), sp.Integer(r))]))])]), e)
            out = t if out is None else p_add(out, t)
        return out

    return SymArray(newshape, g, "poly")


def stack_rows(rows):
    """np.vstack of r one-dimensional arrays of equal length: result[i, c] == rows[i][c]; the row index selects the block through deltas"""
    r = len(rows)
    if r == 0 or any(x.ndim != 1 for x in rows) or not all(same(x.shape[0], rows[0].shape[0]) for x in rows):
        raise Unsupported("vstack of arrays that are not equal-length vectors")
    n = rows[0].shape[0]

    def g(idx):
        i = as_num(idx[0], sp.Integer(r))
        out = None
        for i0, R in enumerate(rows):
            e = R.get((idx[1],))
            t = to_poly(e) if r == 1 else p_mul(Poly([Term(1, [], [(i, Num([(sp.Integer(i0), sp.Integer(r))]))])]), e)
            out = t if out is None else p_add(out, t)
        return out

    return SymArray((sp.Integer(r), n), g, "poly")


def outer(a, b):
    """np.outer of two vectors (inputs are flattened, as numpy does): result[i, j] == a[i] * b[j]"""
    a1 = a if a.ndim == 1 else a.reshape((a.size(),), "C")
    b1 = b if b.ndim == 1 else b.reshape((b.size(),), "C")
    return SymArray((a1.shape[0], b1.shape[0]), lambda idx: p_mul(a1.get((idx[0],)), b1.get((idx[1],))), "poly")


def column_stack(cols):
    """np.column_stack of equal-length vectors (1-D arrays become columns; (d, 1) columns are kept)"""
    as_cols = []
    for c in cols:
        if c.ndim == 1:
            as_cols.append(SymArray((c.shape[0], sp.Integer(1)), (lambda c: (lambda idx: c.get((idx[0],))))(c), c.kind))
        elif c.ndim == 2:
            as_cols.append(c)
        else:
            raise Unsupported("column_stack of a %d-d array" % c.ndim)
    if not all(same(c.shape[1], 1) for c in as_cols):
        raise Unsupported("column_stack of matrices with more than one column")
    return concatenate(as_cols, 1)


def trace_scalar(A):
    """np.trace of a square array whose diagonal sums to an entry-free expression (deltas and constants only): returned as a sympy scalar;
    otherwise a 0-d poly is not representable as a scalar and the caller leaves the subset"""
    if A.ndim != 2 or not same(A.shape[0], A.shape[1]):
        raise Unsupported("trace of a non-square array")
    n = A.shape[0]
    t = sym.world().fresh_digit("t", n)
    tn = Num([(t, n)])
    p = to_poly(A.get((tn, tn)))
    total = sp.Integer(0)
    for term in p.terms:
        nt = normalise(Term(term.coef, term.factors, term.deltas, list(term.bound) + [(t, n)]))
        if nt is None:
            continue
        coef, factors, residual, bound = nt
        if factors or residual or bound:
            raise Unsupported("trace that depends on array entries (not a scalar expression)")
        total += coef
    return sp.simplify(total)


def diag(A):
    """np.diag: the diagonal of a square matrix as a vector, or the diagonal matrix of a vector"""
    if A.ndim == 2:
        if not same(A.shape[0], A.shape[1]):
            raise Unsupported("np.diag of a non-square matrix")
        return SymArray((A.shape[0],), lambda idx: A.get((idx[0], idx[0])), A.kind)
    if A.ndim == 1:
        n = A.shape[0]
        return SymArray((n, n), lambda idx: p_mul(Poly([Term(1, [], [(as_num(idx[0], n), as_num(idx[1], n))])]), A.get((idx[0],))), "poly")
    raise Unsupported("np.diag of a %d-d array" % A.ndim)


def subst_value(x, sub):
    """replace digit symbols inside an entry value (Entry / Delta / Num / Poly / SumEntry / sympy expression)"""
    if isinstance(x, Num):
        return Num([(sp.sympify(d).subs(sub), r) for d, r in _digits(x)])
    if isinstance(x, Entry):
        return Entry(x.name, [subst_value(i, sub) for i in x.idx], x.conj)
    if isinstance(x, Delta):
        return Delta(subst_value(x.a, sub), subst_value(x.b, sub), x.n)
    if isinstance(x, SumEntry):
        return subst_value(to_poly(x), sub)
    if isinstance(x, Poly):
        return Poly([Term(t.coef, [subst_value(f, sub) for f in t.factors], [(subst_value(a, sub), subst_value(b, sub)) for a, b in t.deltas], t.bound) for t in x.terms])
    if isinstance(x, (int, sp.Expr)):
        return sp.sympify(x).subs(sub)
    raise Unsupported("substitution into %s" % type(x).__name__)


def subst_array(A, sub):
    return SymArray(A.shape, lambda idx: subst_value(A.get(idx), sub), A.kind)


def add_arrays(A, B):
    if not all(same(x, y) for x, y in zip(A.shape, B.shape)) or A.ndim != B.ndim:
        raise Unsupported("sum of arrays of different shapes")
    return SymArray(A.shape, lambda idx: p_add(A.get(idx), B.get(idx)), "poly")


def scale(c, A):
    return SymArray(A.shape, lambda idx: p_mul(Poly([Term(c)]), A.get(idx)), "poly")


# ---------------------------------------------------------------------------------------------
# normalisation and comparison
# ---------------------------------------------------------------------------------------------
def _digits(num):
    return sym.world().resolve_terms(list(num.terms))


def _align(a, b):
    """digit lists of two numerals refined to a common radix sequence (free digits are split where one radix is a multiple of the other)"""
    W = sym.world()
    da, db = list(_digits(a)), list(_digits(b))
    outa, outb = [], []

    def split(lst, need):
        x, rx = lst[0]
        x = sp.sympify(x)
        if x.is_Integer and sp.sympify(rx).is_Integer and sp.sympify(need).is_Integer:
            lst[0:1] = [(sp.Integer(int(x) % int(need)), sp.sympify(need)), (sp.Integer(int(x) // int(need)), sp.Integer(int(rx) // int(need)))]
        elif x == 0:
            lst[0:1] = [(sp.Integer(0), sp.sympify(need)), (sp.Integer(0), sp.cancel(rx / need))]
        elif x in W.free:
            lo, hi = W.split_digit(x, rx, need)
            lst[0:1] = [lo, hi]
        else:
            raise Unaligned("cannot split the non-free digit %s of radix %s" % (x, rx))

    while da and db:
        (x, rx), (y, ry) = da[0], db[0]
        if same(rx, ry):
            outa.append(da.pop(0))
            outb.append(db.pop(0))
            continue
        q = sp.cancel(rx / ry)
        q2 = sp.cancel(ry / rx)
        if sp.denom(q) == 1:
            split(da, ry)
        elif sp.denom(q2) == 1:
            split(db, rx)
        else:
            raise Unaligned("delta between numerals of incompatible radix structure: %s vs %s" % (rx, ry), side=(rx, ry))
    for x, rx in da:
        outa.append((x, rx))
        outb.append((sp.Integer(0), rx))
    for y, ry in db:
        outa.append((sp.Integer(0), ry))
        outb.append((y, ry))
    return outa, outb


def _subs_entry(e, sub):
    return Entry(e.name, [Num([(sp.sympify(d).subs(sub), r) for d, r in _digits(i)]) if isinstance(i, Num) else sp.sympify(i).subs(sub) for i in e.idx], e.conj)


def normalise(term):
    """eliminate deltas involving bound digits; returns (coef, factors, residual digit-level deltas, bound) or None if the term vanishes"""
    W = sym.world()
    factors = list(term.factors)
    while True:  # aligning may split free digits; repeat until the digit structure is stable so every equality is between atomic digits
        n0 = W.splits
        pending = []
        for a, b in term.deltas:
            da, db = _align(a, b)
            for (x, rx), (y, ry) in zip(da, db):
                pending.append((sp.sympify(x), sp.sympify(y)))
        if W.splits == n0:
            break
    bound = {d: r for d, r in W.resolve_terms(term.bound)}
    residual = []
    changed = True
    while pending:
        x, y = pending.pop(0)
        if sp.expand(x - y) == 0:
            continue
        if x.is_number and y.is_number:
            return None  # [c1 == c2] with different constants: the term is zero
        sub = None
        if x.is_Symbol and x in bound:
            sub = {x: y}
            del bound[x]
        elif y.is_Symbol and y in bound:
            sub = {y: x}
            del bound[y]
        if sub is None:
            residual.append((x, y))
            continue
        factors = [_subs_entry(f, sub) for f in factors]
        pending = [(p.subs(sub), q.subs(sub)) for p, q in pending]
        residual = [(p.subs(sub), q.subs(sub)) for p, q in residual]
    # re-resolve bound digits after substitutions (splits may have happened)
    final_bound = []
    for d, r in bound.items():
        final_bound += [(d2, r2) for d2, r2 in W.resolve_terms([(d, r)]) if not sym._is_one(r2)]  # a sum over one value is no sum
    # residual deltas between free digits / constants: union-find; substitute class representatives into the factor indices (the term is zero
    # off the diagonal the deltas describe, so indices may be rewritten along them); two different constants in one class: the term is zero
    parent = {}

    def find(x):
        while parent.get(x, x) != x:
            x = parent[x]
        return x

    plain = [(x, y) for x, y in residual if (x.is_Symbol or x.is_number) and (y.is_Symbol or y.is_number)]
    other = [(x, y) for x, y in residual if not ((x.is_Symbol or x.is_number) and (y.is_Symbol or y.is_number))]
    for x, y in plain:
        rx, ry = find(x), find(y)
        if rx == ry:
            continue
        if rx.is_number and ry.is_number:
            return None
        # representative: a constant if there is one, else the symbol that sorts first
        keep, drop = (rx, ry) if (rx.is_number or (not ry.is_number and sp.default_sort_key(rx) <= sp.default_sort_key(ry))) else (ry, rx)
        parent[drop] = keep
    sub = {x: find(x) for x in list(parent) if find(x) != x}
    if sub:
        factors = [_subs_entry(f, sub) for f in factors]
        other = [(sp.sympify(x).subs(sub), sp.sympify(y).subs(sub)) for x, y in other]
    residual = sorted([(k, v) for k, v in sub.items()], key=lambda kv: sp.default_sort_key(kv[0])) + other
    # a bound digit that no factor and no delta mentions is summed freely: it contributes its radix
    used = set()
    for f in factors:
        for v in _idx_vals(f):
            used |= sp.sympify(v).free_symbols
    for x, y in residual:
        used |= sp.sympify(x).free_symbols | sp.sympify(y).free_symbols
    coef = term.coef
    kept = []
    for d, r in final_bound:
        if d in used:
            kept.append((d, r))
        else:
            coef = coef * r
    return coef, factors, residual, kept


def _fkey(f):
    return (f.name, f.conj, len(f.idx))


def _idx_vals(f):
    return [i.value() if isinstance(i, Num) else sp.expand(sp.sympify(i)) for i in f.idx]


def polys_equal(ctx, got, exp, minimise=()):
    """for all free digits: got == exp.  Returns dict(status, backend, model, detail, ms)."""
    from .prove import discharge, range_hyps

    try:
        G = [normalise(t) for t in to_poly(got).terms]
        E = [normalise(t) for t in to_poly(exp).terms]
    except Unaligned as u:
        return dict(status="undecided", backend="-", model=None, detail="unaligned: %s" % u, ms=0.0)
    G = _merge(ctx, [t for t in G if t is not None and t[0] != 0])
    E = _merge(ctx, [t for t in E if t is not None and t[0] != 0])
    if len(G) != len(E):
        return dict(status="undecided", backend="structural-mismatch", model=None, detail="%d terms vs %d terms" % (len(G), len(E)), ms=0.0)
    total_ms = 0.0
    used = set()
    worst = None
    for gc, gf, gres, gb in G:
        matched = False
        for j, (ec, ef, eres, eb) in enumerate(E):
            if j in used:
                continue
            if sp.simplify(gc - ec) != 0 or sorted(map(_fkey, gf)) != sorted(map(_fkey, ef)) or len(gb) != len(eb):
                continue
            res = _match(ctx, gf, gres, gb, ef, eres, eb, minimise)
            total_ms += res.get("ms", 0.0)
            if res["status"] == "discharged":
                used.add(j)
                matched = True
                break
            worst = res
        if not matched:
            if worst is None:
                return dict(status="undecided", backend="structural-mismatch", model=None, detail="no term of the specification has the factors %s" % (sorted(map(_fkey, gf)),), ms=total_ms)
            w = dict(worst)
            w["ms"] = total_ms
            return w
    return dict(status="discharged", backend="bilinear+" + ("z3" if total_ms else "normal-form"), model=None, detail="", ms=total_ms)


def _merge(ctx, terms):
    """collect like terms: terms without bound digits by a canonical key (factor keys + residual classes), the others by pairwise matching"""
    out = []
    index = {}
    for c, f, res, b in terms:
        if not b:
            key = (tuple(sorted((str(k) for k in map(lambda e: e.key(), f)))), tuple(sorted((str(x), str(y)) for x, y in res)))
            if key in index:
                i = index[key]
                out[i] = (out[i][0] + c, out[i][1], out[i][2], out[i][3])
                continue
            index[key] = len(out)
            out.append((c, f, res, b))
            continue
        for i, (c2, f2, res2, b2) in enumerate(out):
            if b2 and sorted(map(_fkey, f)) == sorted(map(_fkey, f2)) and len(b) == len(b2) and len(out) < 64:
                if _match(ctx, f, res, b, f2, res2, b2, ())["status"] == "discharged":
                    out[i] = (c2 + c, f2, res2, b2)
                    break
        else:
            out.append((c, f, res, b))
    return [t for t in out if sp.simplify(t[0]) != 0]


def _match(ctx, gf, gres, gb, ef, eres, eb, minimise):
    """try every bijection of bound digits (respecting radices) and every pairing of equal-kind factors"""
    from .prove import discharge, range_hyps

    # candidate bijections of bound digits
    def radix_ok(p):
        return all(same(gb[i][1], eb[p[i]][1]) for i in range(len(gb)))

    perms = [p for p in itertools.permutations(range(len(eb))) if radix_ok(p)]
    if not perms:
        return dict(status="undecided", backend="structural-mismatch", model=None, detail="bound digits have different radices: %s vs %s" % ([str(r) for _, r in gb], [str(r) for _, r in eb]), ms=0.0)
    # factor pairings: group by kind
    kinds = sorted(set(map(_fkey, gf)))
    groups_g = {k: [f for f in gf if _fkey(f) == k] for k in kinds}
    groups_e = {k: [f for f in ef if _fkey(f) == k] for k in kinds}
    pairings = [[]]
    for k in kinds:
        new = []
        for base in pairings:
            for perm in itertools.permutations(range(len(groups_e[k]))):
                new.append(base + [(groups_g[k][i], groups_e[k][perm[i]]) for i in range(len(perm))])
        pairings = new
    last = None
    ms = 0.0
    for p in perms[:24]:
        ren = {eb[p[i]][0]: gb[i][0] for i in range(len(gb))}
        for pairing in pairings[:24]:
            neq = []
            nf_equal = True
            for fg, fe in pairing:
                for a, b in zip(_idx_vals(fg), _idx_vals(fe)):
                    b2 = sp.expand(sp.sympify(b).subs(ren, simultaneous=True))
                    if sp.expand(a - b2) != 0:
                        nf_equal = False
                        # the term is zero unless its residual deltas hold: index maps need to agree only where they do
                        neq.append(sp.And(*([sp.Eq(x, y) for x, y in gres] + [sp.Ne(a, b2)])))
            # residual deltas (between free digits / constants): the two products of deltas are equal as 0/1 values iff the conjunctions
            # of their equalities are equivalent
            def canon(pairs):
                out = set()
                for x, y in pairs:
                    x, y = sp.expand(sp.sympify(x)), sp.expand(sp.sympify(y))
                    out.add(tuple(sorted((x, y), key=sp.default_sort_key)))
                return out

            eres2 = [(sp.sympify(x2).subs(ren, simultaneous=True), sp.sympify(y2).subs(ren, simultaneous=True)) for x2, y2 in eres]
            if canon(gres) != canon(eres2):
                nf_equal = False
                neq.append(sp.Xor(sp.And(*[sp.Eq(x, y) for x, y in gres]), sp.And(*[sp.Eq(x, y) for x, y in eres2])))
            if nf_equal:
                return dict(status="discharged", backend="bilinear+normal-form", model=None, detail="", ms=ms)
            hyps = range_hyps()
            for d, r in gb:
                hyps += [sp.Ge(d, 0), sp.Lt(d, r)]
            st, be, model, t = discharge(ctx, hyps, [n for n in neq if n is not sp.false], minimise=minimise)
            ms += t
            if st == "discharged":
                return dict(status="discharged", backend="bilinear+" + be, model=None, detail="", ms=ms)
            last = dict(status=st, backend="bilinear+" + be, model=model, detail="index maps differ under every tried renaming of bound digits", ms=ms)
    return last or dict(status="undecided", backend="-", model=None, detail="no matching tried", ms=ms)


# ---------------------------------------------------------------------------------------------
# self-check: the array operations above against real numpy on concrete shapes
# ---------------------------------------------------------------------------------------------
def eval_value(x, arrays):
    """numeric value of an entry (Entry / Delta / Poly / SumEntry / number) whose free digits are all concrete; bound digits are enumerated"""
    import itertools as it

    import numpy as np

    W = sym.world()
    total = 0
    for t in to_poly(x).terms:
        bound = W.resolve_terms(t.bound)
        syms = [d for d, _ in bound]
        for vals in it.product(*[range(int(r)) for _, r in bound]):
            sub = dict(zip(syms, vals))
            v = complex(t.coef)
            for a, b in t.deltas:
                if int(sp.sympify(a.value()).subs(sub)) != int(sp.sympify(b.value()).subs(sub)):
                    v = 0
                    break
            if v == 0:
                continue
            for f in t.factors:
                idx = tuple(int(sp.sympify(i.value() if isinstance(i, Num) else i).subs(sub)) for i in f.idx)
                e = arrays[f.name][idx]
                v *= np.conj(e) if f.conj else e
            total += v
    return total


def crosscheck(n_cases=40, seed=0):
    """random concrete instances of kron / matmul / concatenate / vstack / diag / add / scale / conj / T / reshape: every entry of the symbolic
    result evaluated numerically must equal numpy's.  Returns {"ok", "cases", "failures"}."""
    import numpy as np

    rng = np.random.default_rng(seed)
    fails = []
    done = 0

    def arr(name, shape):
        return SymArray(tuple(sp.Integer(s) for s in shape), (lambda nm: (lambda idx: Entry(nm, [as_num(i, sp.Integer(s)) for i, s in zip(idx, shape)])))(name))

    def compare(label, S, N, arrays):
        nonlocal done
        done += 1
        if tuple(int(s) for s in S.shape) != N.shape:
            fails.append("%s: shape %s vs %s" % (label, S.shape, N.shape))
            return
        for idx in np.ndindex(*N.shape):
            sym.reset_world()
            got = eval_value(S.get(tuple(Num([(sp.Integer(i), sp.Integer(s))]) for i, s in zip(idx, N.shape))), arrays)
            if abs(got - N[idx]) > 1e-9:
                fails.append("%s: entry %s = %s, numpy %s" % (label, idx, got, N[idx]))
                return

    for k in range(n_cases):
        a, b, c, d = (int(x) for x in rng.integers(1, 4, size=4))
        A = rng.normal(size=(a, b)) + 1j * rng.normal(size=(a, b))
        B = rng.normal(size=(c, d)) + 1j * rng.normal(size=(c, d))
        C = rng.normal(size=(b, d)) + 1j * rng.normal(size=(b, d))
        v = rng.normal(size=(b,)) + 0j
        arrays = {"A": A, "B": B, "C": C, "v": v}
        sA, sB, sC, sv = arr("A", (a, b)), arr("B", (c, d)), arr("C", (b, d)), arr("v", (b,))
        which = k % 10
        if which == 0:
            compare("kron", kron(sA, sB), np.kron(A, B), arrays)
        elif which == 1:
            compare("kron(1-D, 2-D)", kron(sv, sB), np.kron(v, B), arrays)
        elif which == 2:
            compare("matmul", matmul(sA, sC), A @ C, arrays)
        elif which == 3:
            compare("concatenate axis=1", concatenate([sA, sA.conj(), sA], 1), np.concatenate([A, A.conj(), A], axis=1), arrays)
        elif which == 4:
            compare("concatenate axis=0", concatenate([sA, sA], 0), np.concatenate([A, A], axis=0), arrays)
        elif which == 5:
            rows = [SymArray((sp.Integer(b),), (lambda i: (lambda idx: sA.get((Num([(sp.Integer(i), sp.Integer(a))]), idx[0]))))(i)) for i in range(a)]
            compare("vstack", stack_rows(rows), np.vstack([A[i, :] for i in range(a)]), arrays)
        elif which == 6:
            compare("diag(vector)", diag(sv), np.diag(v), arrays)
            if a == b:
                compare("diag(matrix)", diag(sA), np.diag(A), arrays)
        elif which == 7:
            compare("scale/add/conj/T", add_arrays(scale(sp.Rational(1, 3), sA.conj().T), scale(-2, sA.T)), A.conj().T / 3 - 2 * A.T, arrays)
        elif which == 8:
            compare("matmul(kron, reshape F)", matmul(kron(sv, SymArray((sp.Integer(c), sp.Integer(c)), lambda idx: Delta(idx[0], idx[1], sp.Integer(c)), "delta")), kron(sC, sB).reshape((b * c, d * d), "F")), np.kron(v, np.identity(c)) @ np.reshape(np.kron(C, B), (b * c, d * d), order="F"), arrays)
        else:
            compare("matmul chain with identity kron", matmul(matmul(concatenate([sA, sA.conj()], 1), kron(SymArray((sp.Integer(2), sp.Integer(2)), lambda idx: Delta(idx[0], idx[1], sp.Integer(2)), "delta"), sC)), concatenate([sC.conj().T, sC.T], 0)), np.concatenate([A, A.conj()], axis=1) @ np.kron(np.identity(2), C) @ np.concatenate([C.conj().T, C.T], axis=0), arrays)
    return {"ok": not fails and done > 0, "cases": done, "failures": fails[:5]}
