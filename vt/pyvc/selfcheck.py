"""Vacuity / soundness guards of the proof tier (DESIGN §4.4) and lemmas proved over contracts only."""
from __future__ import annotations

import itertools

import numpy as np
import sympy as sp

from contracts import index_layer as IL
from vt.pyvc import index_proofs as IP
from vt.pyvc import sym
from vt.pyvc.interp import Ctx
from vt.pyvc.prove import discharge, entries_equal, range_hyps
from vt.pyvc.sym import Entry, SymArray


def standard(records, names):
    """(1) non-zero work: every function under contract generated >= 1 claim obligation;
    (2) reachability: every instance's precondition is satisfiable (recorded by the driver as `reachability`)."""
    out = {}
    per = {n: 0 for n in names}
    for r in records:
        if r.get("claim") and r.get("function") in per:
            per[r["function"]] += 1
    out["nonzero_claim_obligations"] = {"ok": all(v > 0 for v in per.values()), "detail": per}
    reach = [r for r in records if r.get("kind") == "reachability"]
    out["preconditions_satisfiable"] = {"ok": bool(reach) and all(r["status"] == "discharged" for r in reach), "detail": {"instances": len(reach)}}
    marks = _assumption_scan()
    out["assumption_scan"] = {"ok": True, "detail": marks}
    try:
        out["numpy_models_crosscheck"] = models_crosscheck(0, 200)
    except Exception as e:  # failing self-check voids the proof tier, never the verdict
        out["numpy_models_crosscheck"] = {"ok": False, "detail": "%s: %s" % (type(e).__name__, e)}
    return out


def _assumption_scan():
    import os
    import re

    from vt.common import VERIF

    hits = []
    for root in ("contracts", "props"):
        for dp, _, fs in os.walk(os.path.join(VERIF, root)):
            for f in fs:
                if f.endswith(".py"):
                    for i, line in enumerate(open(os.path.join(dp, f)), 1):
                        if re.search(r"\b(assume|axiom|trusted|admit)\b", line, re.I) and "assumption_scan" not in line:
                            hits.append("%s/%s:%d" % (root, f, i))
    return {"markers": len(hits), "where": hits[:40]}


# ---------------------------------------------------------------------------------------------
# planted bugs: in-memory AST mutants of the real source must NOT verify
# ---------------------------------------------------------------------------------------------
MUTANTS = {
    "C01": [
        ("permute_systems", "drop-argsort", "np.argsort(num_sys - np.array(perm[::-1]))", "(num_sys - np.array(perm[::-1]))"),
        ("permute_systems", "order-C", '.astype(int), order="F")', '.astype(int), order="C")'),
        ("permute_systems", "no-reverse-dims", "dim[vec_orien, ::-1].astype(int)", "dim[vec_orien, :].astype(int)"),
        ("permute_systems", "col-uses-row-dims", "col_perm = permute_systems(vec_arg, perm, dim[1][:], False, inv_perm)", "col_perm = permute_systems(vec_arg, perm, dim[0][:], False, inv_perm)"),
        ("permute_systems", "col-ignores-inv", "col_perm = permute_systems(vec_arg, perm, dim[1][:], False, inv_perm)", "col_perm = permute_systems(vec_arg, perm, dim[1][:], False, False)"),
        ("vec", "vec-order-C", 'order="F"', 'order="C"'),
        ("swap", "swap-no-op", "perm[sys] = perm[sys[::-1]]", "perm[sys] = perm[sys]"),
        ("permutation_operator", "permop-inv-dropped", "return permute_systems(mat, perm, dim, True, inv_perm)", "return permute_systems(mat, perm, dim, True, False)"),
        ("swap_operator", "swapop-not-row-only", "return swap(mat, [1, 2], dim, True)", "return swap(mat, [1, 1], dim, True)"),
    ],
    "C02": [
        ("partial_trace", "transpose-axes", "ret_mat.transpose((1, 3, 0, 2))", "ret_mat.transpose((3, 1, 0, 2))"),
        ("partial_trace", "stride", "int(sub_sys_vec[0] + 1)", "int(sub_sys_vec[0])"),
        ("partial_trace", "perm-order", "perm = set_diff\n    perm.extend(sys)", "perm = list(sys)\n    perm.extend(set_diff)"),
        ("partial_trace", "sum-axis", "pt_mat = np.sum(pt_mat, axis=2)", "pt_mat = np.sum(pt_mat, axis=1)"),
    ],
    "C03": [
        ("partial_transpose", "transpose-axes", "np.transpose(x_tmp, [0, 3, 2, 1])", "np.transpose(x_tmp, [0, 1, 2, 3])"),
        ("partial_transpose", "no-flip", "dim[:, sys] = np.flipud(dim[:, sys])", "dim[:, sys] = dim[:, sys]"),
        ("partial_transpose", "inverse-dropped", "return permute_systems(z_tmp, perm, dim, False, True)", "return permute_systems(z_tmp, perm, dim, False, False)"),
        ("realignment", "wrong-sys", "y_tmp = partial_transpose(x_tmp, [0], dim_x)", "y_tmp = partial_transpose(x_tmp, [1], dim_x)"),
        ("realignment", "first-swap-dropped", "x_tmp = swap(input_mat, [1, 2], dim, True)", "x_tmp = input_mat"),
    ],
    "C18": [
        ("antisymmetric_projection", "zero-indexed-sign", "perm_sign(p_list[j, :] + 1)", "perm_sign(p_list[j, :])"),
        ("symmetric_projection", "perm-offset", "permutation_operator(dim * np.ones(p_val), perm, False, True)", "permutation_operator(dim * np.ones(p_val), perm + 1, False, True)"),
        ("antisymmetric_projection", "dims-too-short", "permutation_operator(dim * np.ones(p_param), p_list[j, :], False, True)", "permutation_operator(dim * np.ones(p_param - 1), p_list[j, :], False, True)"),
    ],
    "C16": [
        ("vec", "vec-order-C", 'order="F"', 'order="C"'),
        ("unvec", "unvec-order-C", "order=\"F\"", "order=\"C\""),
    ],
}


def _instances_for(prop, fn, tier):
    allinst = getattr(IP, "instances_" + prop)("quick")
    sel = [t for t in allinst if t[0].split()[0] == fn]
    # keep the mutant runs small: instances with n <= 3
    sel = [t for t in sel if " n=4" not in t[0] and " n=5" not in t[0]]
    return sel


def planted(prop, tier, S):
    muts = MUTANTS.get(prop, [])
    if tier != "thorough":
        # quick: one mutant per function
        seen = set()
        pick = []
        for m in muts:
            if m[0] not in seen:
                seen.add(m[0])
                pick.append(m)
        muts = pick
    out = {"tried": 0, "refuted": 0, "survivors": [], "anchors_missing": [], "detail": []}
    for fn, name, old, new in muts:
        try:
            msrc = S.src[fn].mutated(old, new)
        except KeyError:
            # the anchor text no longer occurs in the source (harmless refactor): the mutant cannot be planted;
            # this voids nothing, it is only reported
            out["anchors_missing"].append("%s/%s" % (fn, name))
            continue
        S2 = IP.Sources(overrides={fn: msrc})
        tasks = _instances_for(prop, fn, tier)
        recs, _ = IP.run_instances(tasks, S2)
        bad = [r for r in recs if r["status"] != "discharged"]
        out["tried"] += 1
        if bad:
            out["refuted"] += 1
            out["detail"].append({"mutant": "%s/%s" % (fn, name), "instances": len(tasks), "not_discharged": len(bad), "first": "%s: %s [%s]" % (bad[0].get("kind"), bad[0].get("text", "")[:100], bad[0].get("status"))})
        else:
            out["survivors"].append("%s/%s" % (fn, name))
    return out


# ---------------------------------------------------------------------------------------------
# lemmas over the contracts only (no code involved)
# ---------------------------------------------------------------------------------------------
def lemmas_C01(tier):
    records = []
    nmax = 4
    for n in range(1, nmax + 1):
        for perm in itertools.permutations(range(n)):
            records += _lemma_inverse(n, perm)
            records += _lemma_injective(n, perm)
    return {"L1": "forward then inverse with permuted dims is the identity", "L2": "the index map is injective (so the operator is a permutation matrix, hence unitary)"}, records


def _lemma_inverse(n, perm):
    sym.reset_world()
    d = IP.atoms("d", n)
    N = IP._prod(d)
    ctx = Ctx([sp.Ge(x, 1) for x in d])
    X = IP.X_of((N,))
    Y = IL.spec_permute_systems(X, perm, d, d, False, False)
    dp = [d[perm[i]] for i in range(n)]
    Z = IL.spec_permute_systems(Y, perm, dp, dp, False, True)
    from vt.pyvc.driver import fine_index

    I, _ = fine_index(d, "k")
    try:
        res = entries_equal(ctx, Z.get((I,)), X.get((I,)), minimise=d)
        res.pop("side", None)
    except Exception as e:
        res = dict(status="undecided", backend="-", model=None, detail=str(e)[:200], ms=0.0)
    return [dict(function="permute_systems", instance="lemma L1 n=%d perm=%s" % (n, list(perm)), kind="lemma", text="permute(permute(X, p, d), p, d.p, inverse) == X (over the contract only)", claim=False, **res)]


def _lemma_injective(n, perm):
    sym.reset_world()
    W = sym.world()
    d = IP.atoms("d", n)
    N = IP._prod(d)
    ctx = Ctx([sp.Ge(x, 1) for x in d])
    X = IP.X_of((N,))
    Y = IL.spec_permute_systems(X, perm, d, d, False, False)
    dq = [d[perm[i]] for i in range(n)]
    k1 = [W.declare(sp.Symbol("p%d" % i, integer=True, nonnegative=True), dq[i]) for i in range(n)]
    k2 = [W.declare(sp.Symbol("q%d" % i, integer=True, nonnegative=True), dq[i]) for i in range(n)]
    try:
        e1 = Y.get((sym.enc(k1, dq),)).key()[1][0]
        e2 = Y.get((sym.enc(k2, dq),)).key()[1][0]
        hyps = range_hyps() + [sp.Eq(e1, e2)]
        neg = [sp.Ne(a, b) for a, b in zip(k1, k2)]
        st, be, model, ms = discharge(ctx, hyps, neg, minimise=d)
        res = dict(status=st, backend=be, model=model, detail="", ms=ms)
    except Exception as e:
        res = dict(status="undecided", backend="-", model=None, detail=str(e)[:200], ms=0.0)
    return [dict(function="permutation_operator", instance="lemma L2 n=%d perm=%s" % (n, list(perm)), kind="lemma", text="sigma(I) == sigma(I') implies I == I' (index map injective => permutation matrix => unitary)", claim=False, **res)]


# ---------------------------------------------------------------------------------------------
# cross-check of the numpy models (DESIGN §3.3) against real numpy on random concrete instances
# ---------------------------------------------------------------------------------------------
def models_crosscheck(seed=0, n=200):
    import random

    import numpy as np

    rnd = random.Random(seed)
    bad = []
    done = 0

    def concrete(arr, shape):
        out = np.empty(shape, dtype=object)
        for idx in np.ndindex(*shape):
            e = arr.get(tuple(sp.Integer(i) for i in idx))
            from vt.pyvc.sym import Entry, SumEntry

            if isinstance(e, Entry):
                out[idx] = tuple(int(x) for x in e.key()[1])
            elif isinstance(e, SumEntry):
                bound, body = e.flat()
                acc = []
                ranges = [range(int(r)) for _, r in bound]
                for vals in itertools.product(*ranges):
                    sub = {d: v for (d, _), v in zip(bound, vals)}
                    acc.append(tuple(int(sp.sympify(x).subs(sub)) for x in body.key()[1]))
                out[idx] = tuple(sorted(acc))
            else:
                out[idx] = None
        return out

    for k in range(n):
        sym.reset_world()
        nd = rnd.choice([1, 2, 2, 3, 3, 4])
        shape = tuple(rnd.choice([1, 2, 3, 4]) for _ in range(nd))
        size = int(np.prod(shape))
        ref = np.empty(shape, dtype=object)
        for idx in np.ndindex(*shape):
            ref[idx] = tuple(idx)
        X = SymArray(shape, lambda idx: Entry("X", idx))
        op = rnd.choice(["reshape", "transpose", "gather", "diagsum", "vec"])
        try:
            if op == "reshape":
                # random factorisation of size
                fac = []
                rem = size
                for p in (2, 3, 2, 2, 3):
                    if rem % p == 0 and rnd.random() < 0.7:
                        fac.append(p)
                        rem //= p
                fac.append(rem)
                rnd.shuffle(fac)
                order = rnd.choice(["F", "C"])
                got = concrete(X.reshape(fac, order=order), tuple(fac))
                exp = ref.reshape(tuple(fac), order=order)
            elif op == "transpose":
                axes = list(range(nd))
                rnd.shuffle(axes)
                got = concrete(X.transpose(axes), tuple(shape[a] for a in axes))
                exp = np.transpose(ref, axes)
            elif op == "gather":
                if nd != 2:
                    continue
                perm = list(range(shape[0]))
                rnd.shuffle(perm)
                ia = SymArray((shape[0],), (lambda pm: (lambda idx: sym.Num([(sp.Integer(pm[int(idx[0])]) if not isinstance(idx[0], sym.Num) else sp.Integer(pm[int(idx[0].value())]), sp.Integer(shape[0]))])))(perm), kind="index")
                got = concrete(sym.getitem(X, (ia, slice(None))), shape)
                exp = ref[perm, :]
            elif op == "diagsum":
                T = rnd.choice([1, 2, 3])
                K = rnd.choice([1, 2])
                Y = SymArray((K, K, T * T), lambda idx: Entry("X", idx))
                refY = np.empty((K, K, T * T), dtype=object)
                for idx in np.ndindex(K, K, T * T):
                    refY[idx] = tuple(idx)
                picked = sym.getitem(Y, (slice(None), slice(None), sym.StridedList(sp.Integer(T))))
                summed = sym.sym_sum(picked, 2)
                got = concrete(summed, (K, K))
                exp = np.empty((K, K), dtype=object)
                for i in range(K):
                    for j in range(K):
                        exp[i, j] = tuple(sorted(refY[i, j, t] for t in range(0, T * T, T + 1)))
            else:
                got = concrete(IL.spec_vec(X), (size, 1))
                exp = ref.reshape((-1, 1), order="F")
            done += 1
            if got.shape != exp.shape or any(got[i] != exp[i] for i in np.ndindex(*exp.shape)):
                bad.append("%s shape=%s" % (op, shape))
        except Exception as e:  # a model that cannot even be evaluated concretely is a failed cross-check
            bad.append("%s shape=%s: %s %s" % (op, shape, type(e).__name__, str(e)[:80]))
    return {"ok": not bad and done > 0, "detail": {"instances": done, "mismatches": bad[:5]}}
