"""E1-prog: which optimisation program does an SDP builder hand to the solver?

An extension of E1-term (termvc.py) for the functions that construct a picos program: the real AST is executed symbolically,
matrices (constants and picos variables alike) are terms of the uninterpreted sort `Arr`, scalar expressions are z3 reals, and the
`picos.Problem` object is tracked as an effect log (constraints in order, objective, the point at which `solve` is called).  The
postcondition compares that log with the program stated by the contract:
    same direction, objective equal as a real term, the same constraints (positions matter where the code later reads
    `get_constraint(k).dual`), `solve` called once after the program is complete and with the caller's solver, and the returned
    tuple == (optimal value of THAT program, the stated variables / duals).
The optimum itself is the solver's business (trusted; the bounded tier certifies values by weak duality): what is proved is that
the value returned is the optimum of the stated program and of no other.  List lengths (number of states) are enumerated.

Semantics assumed for picos (listed in the evidence): `A >> B` / `A << B` are the Loewner-order constraints A - B >= 0 / B - A >= 0,
`A | B` is the Hilbert-Schmidt inner product <A, B> = Tr(A^dagger B) (real for Hermitian operands), `*` between matrix expressions is
the matrix product, `picos.sum` is the sum, `picos.trace` the trace, `.real` / np.real of an already real affine expression is the
identity.  Linearity facts used to compare objectives (z3 axioms, see `AXIOMS`): <sA, B> = s<A, B>, (sA)B = s(AB), Tr(sA) = s Tr(A),
and Tr(AB) = <A, B> when A is Hermitian (density operators and their real multiples are).
"""
from __future__ import annotations

import ast

import z3

from .intvc import Unsupported, is_z3
from .termvc import Arr, TermEngine, is_arr, is_scalar, lift, uf

R = z3.RealSort()


class Cons:
    """one constraint: kind 'psd' (lhs - rhs is positive semidefinite), 'eq' (matrix equality) or 'scalar' (a z3 Boolean over real terms)"""

    def __init__(self, kind, lhs, rhs=None):
        self.kind, self.lhs, self.rhs = kind, lhs, rhs

    def __repr__(self):
        return "Cons(%s, %s, %s)" % (self.kind, self.lhs, self.rhs)


_prob_ids = [0]


class Prob:
    def __init__(self):
        _prob_ids[0] += 1
        self.opt = z3.Real("optimum!%d" % _prob_ids[0])  # the optimal value of this program as it stands when solve() is called
        self.cons = []
        self.direction = None
        self.objective = None
        self.solved_at = None
        self.solves = 0
        self.solve_kw = {}
        self.objective_set = 0


class OptVal:
    """the optimal value of the program `prob` as it stood when solve() was called"""

    def __init__(self, prob):
        self.prob = prob


class Struct:
    """a value the engine does not interpret further, e.g. ('np.conj', ('np.array', ('dual', k)))"""

    def __init__(self, *parts):
        self.parts = parts

    def key(self):
        return tuple(p.key() if isinstance(p, Struct) else (str(p) if is_z3(p) else p) for p in self.parts)

    def __repr__(self):
        return repr(self.key())


def keyrepr(v):
    if isinstance(v, (list, tuple)):
        return tuple(keyrepr(x) for x in v)
    if isinstance(v, Param):
        return "param:" + v.name
    if is_z3(v):
        return str(z3.simplify(lift(v)))
    if isinstance(v, float):
        return "%.12g" % v
    return repr(v)


class EntryMat:
    """a small matrix of concrete shape whose entries are real terms (a table filled entry by entry in Python loops)"""

    def __init__(self, rows):
        self.rows = [list(r) for r in rows]

    @property
    def shape(self):
        return (len(self.rows), len(self.rows[0]) if self.rows else 0)

    def map(self, f):
        return EntryMat([[f(x) for x in r] for r in self.rows])

    def transpose(self):
        n, m = self.shape
        return EntryMat([[self.rows[i][j] for i in range(n)] for j in range(m)])

    def term(self):
        n, m = self.shape
        return uf("matrix[%dx%d]" % (n, m), Arr, *[lift(x) for r in self.rows for x in r])


class Param:
    """an argument passed through unchanged (the solver name, **kwargs)"""

    def __init__(self, name):
        self.name = name


def ip(a, b):
    return uf("inner", R, a, b)


def tr(a):
    return uf("tr", R, a)


def smul(s, a):
    return uf("mul", Arr, lift(s), a)


def mmul(a, b):
    return uf("mul", Arr, a, b)


def madd(a, b):
    return uf("add", Arr, a, b)


def msub(a, b):
    return uf("sub", Arr, a, b)


def msum(xs):
    acc = xs[0]
    for x in xs[1:]:
        acc = madd(acc, x)
    return acc


def herm(a):
    return uf("hermitian-operand", z3.BoolSort(), a)


def axioms():
    s = z3.Real("ax_s")
    A, B = z3.Const("ax_A", Arr), z3.Const("ax_B", Arr)
    return [
        z3.ForAll([s, A, B], ip(smul(s, A), B) == s * ip(A, B)),
        z3.ForAll([s, A, B], ip(A, smul(s, B)) == s * ip(A, B)),
        z3.ForAll([s, A, B], mmul(smul(s, A), B) == smul(s, mmul(A, B))),
        z3.ForAll([s, A], tr(smul(s, A)) == s * tr(A)),
        z3.ForAll([s, A], z3.Implies(herm(A), herm(smul(s, A)))),
        z3.ForAll([A, B], z3.Implies(z3.And(herm(A), herm(B)), herm(madd(A, B)))),
        z3.ForAll([A, B], z3.Implies(herm(A), tr(mmul(A, B)) == ip(A, B))),
        # `tr` is the real part of the trace (every objective here is real): taking real parts inside is transparent, and Re Tr(A^dagger B) = <A, B>
        z3.ForAll([A], tr(uf("real-part", Arr, A)) == tr(A)),
        z3.ForAll([A, B], tr(uf("matmul", Arr, uf("transpose", Arr, uf("conj", Arr, A)), B)) == ip(A, B)),
    ]


AXIOM_TEXT = [
    "<sA, B> = <A, sB> = s <A, B> for real s (Hilbert-Schmidt inner product)",
    "(sA)B = s(AB);  Tr(sA) = s Tr(A)",
    "Tr(AB) = <A, B> when A is Hermitian; to_density_matrix(.) is Hermitian and so are its real multiples",
    "objectives are real: Re Tr(Re A) = Re Tr(A) and Re Tr(A^dagger B) = <A, B>",
]


class ProgEngine(TermEngine):
    # ------------------------------------------------------------------ expressions
    def binop(self, op, a, b):
        if isinstance(op, (ast.RShift, ast.LShift)):
            if not (is_arr(a) or is_arr(b)):
                raise Unsupported("shift of non-matrix values")
            a2 = a if is_arr(a) else lift(a)
            b2 = b if is_arr(b) else lift(b)
            return Cons("psd", a2, b2) if isinstance(op, ast.RShift) else Cons("psd", b2, a2)
        if isinstance(op, ast.BitOr):
            if is_arr(a) and is_arr(b):
                return ip(a, b)
            raise Unsupported("| of non-matrix values")
        if isinstance(a, int) and isinstance(b, int) and not isinstance(a, bool) and not isinstance(b, bool) and isinstance(op, (ast.Mod, ast.FloorDiv)) and b != 0:
            return a % b if isinstance(op, ast.Mod) else a // b
        if isinstance(op, ast.Add) and isinstance(a, list) and isinstance(b, list):
            return a + b
        if isinstance(op, ast.Mult) and isinstance(a, list) and isinstance(b, int):
            return a * b
        return super().binop(op, a, b)

    def compare(self, op, a, b):
        if (is_arr(a) or is_arr(b)) and isinstance(op, ast.Eq):
            return Cons("eq", a if is_arr(a) else lift(a), b if is_arr(b) else lift(b))
        if isinstance(a, str) or isinstance(b, str):
            if isinstance(a, str) and isinstance(b, str) and isinstance(op, (ast.Eq, ast.NotEq)):
                return (a == b) if isinstance(op, ast.Eq) else (a != b)
            raise Unsupported("comparison with a string")
        return super().compare(op, a, b)

    def _iterable(self, node, env, pc):
        if isinstance(node, ast.Call) and isinstance(node.func, ast.Name) and node.func.id in ("zip", "enumerate"):
            seqs = [self._iterable(a, env, pc) for a in node.args]
            if node.func.id == "zip":
                return [tuple(t) for t in zip(*seqs)]
            return [(i, x) for i, x in enumerate(seqs[0])]
        v = self.ev(node, env, pc)
        if isinstance(v, (list, tuple, range)):
            return list(v)
        raise Unsupported("iteration over a value of unknown length")

    def _bind(self, target, x, env):
        if isinstance(target, ast.Name):
            env[target.id] = x
        elif isinstance(target, ast.Tuple) and isinstance(x, tuple) and len(x) == len(target.elts):
            for t, y in zip(target.elts, x):
                self._bind(t, y, env)
        else:
            raise Unsupported("comprehension target")

    def ev(self, e, env, pc):
        if isinstance(e, ast.JoinedStr):
            out = ""
            for part in e.values:
                if isinstance(part, ast.Constant):
                    out += str(part.value)
                elif isinstance(part, ast.FormattedValue) and part.format_spec is None and part.conversion == -1:
                    v = self.ev(part.value, env, pc)
                    if not isinstance(v, (int, str)):
                        raise Unsupported("f-string over a symbolic value")
                    out += str(v)
                else:
                    raise Unsupported("f-string form")
            return out
        if isinstance(e, (ast.ListComp, ast.GeneratorExp)) and len(e.generators) == 1:
            g = e.generators[0]
            try:
                seq = self._iterable(g.iter, env, pc)
            except Unsupported:
                seq = None
            if seq is not None:
                out = []
                for x in seq:
                    env2 = dict(env)
                    self._bind(g.target, x, env2)
                    keep = True
                    for cnd in g.ifs:
                        v = self.ev(cnd, env2, pc)
                        if not isinstance(v, bool):
                            raise Unsupported("comprehension filter over a symbolic value")
                        keep = keep and v
                    if keep:
                        out.append(self.ev(e.elt, env2, pc))
                return out
        if isinstance(e, ast.Compare) and len(e.ops) == 1 and isinstance(e.ops[0], (ast.Is, ast.IsNot)) and isinstance(e.comparators[0], ast.Constant) and e.comparators[0].value is None:
            a = self.ev(e.left, env, pc)
            if a is None or isinstance(a, (list, tuple, Param)) or is_z3(a):
                return (a is None) if isinstance(e.ops[0], ast.Is) else (a is not None)
        if isinstance(e, ast.Subscript) and isinstance(e.slice, ast.Slice):
            base = self.ev(e.value, env, pc)
            if isinstance(base, list):
                lo, hi, st = [None if x is None else self.ev(x, env, pc) for x in (e.slice.lower, e.slice.upper, e.slice.step)]
                if all(x is None or isinstance(x, int) for x in (lo, hi, st)):
                    return base[slice(lo, hi, st)]
        if isinstance(e, ast.Compare) and len(e.ops) == 1:
            a = self.ev(e.left, env, pc)
            b = self.ev(e.comparators[0], env, pc)
            if is_arr(a) or is_arr(b) or isinstance(a, str) or isinstance(b, str):
                return self.compare(e.ops[0], a, b)
            if isinstance(a, (int, float)) and isinstance(b, (int, float)):
                return super(TermEngine, self).compare(e.ops[0], a, b)
            if is_scalar(a) and is_scalar(b):
                return self.compare(e.ops[0], a, b)
        if isinstance(e, ast.Attribute) and isinstance(e.value, ast.Name) and e.value.id == "self" and ("self." + e.attr) in env:
            return env["self." + e.attr]
        if isinstance(e, ast.UnaryOp) and isinstance(e.op, ast.USub):
            v0 = self.ev(e.operand, env, pc)
            if isinstance(v0, EntryMat):
                return v0.map(lambda x: -lift(x) if is_z3(x) else -x)
            if is_arr(v0):
                return uf("neg", Arr, v0)
            return -lift(v0) if is_z3(v0) else -v0
        if isinstance(e, ast.Attribute) and e.attr in ("shape", "T"):
            try:
                b0 = self.ev(e.value, env, pc)
            except Unsupported:
                b0 = None
            if isinstance(b0, EntryMat):
                return b0.shape if e.attr == "shape" else b0.transpose()
        if isinstance(e, ast.Call) and isinstance(e.func, ast.Attribute) and e.func.attr in ("conj", "conjugate", "copy") and not e.args:
            try:
                b0 = self.ev(e.func.value, env, pc)
            except Unsupported:
                b0 = None
            if isinstance(b0, EntryMat):
                return b0  # entries are real terms
        if isinstance(e, ast.Subscript) and isinstance(e.slice, ast.Tuple) and len(e.slice.elts) == 2:
            try:
                b0 = self.ev(e.value, env, pc)
            except Unsupported:
                b0 = None
            if isinstance(b0, EntryMat):
                i, j = [self.ev(x, env, pc) for x in e.slice.elts]
                if isinstance(i, int) and isinstance(j, int):
                    return b0.rows[i][j]
                raise Unsupported("symbolic index into an entry table")
        if isinstance(e, ast.Attribute):
            if isinstance(e.value, ast.Name) and e.value.id == "picos":
                return ("picos", e.attr)
            base = None
            try:
                base = self.ev(e.value, env, pc)
            except Unsupported:
                base = None
            if isinstance(base, Prob):
                if e.attr == "value":
                    if base.solved_at is None:
                        raise Unsupported("problem.value before solve")
                    return base.opt
                return ("probmethod", base, e.attr)
            if is_z3(base) and e.attr == "value" and any(base.eq(pr.opt) for pr in self.c.problems):
                return base  # picos: solution.value
            if isinstance(base, Cons) and e.attr == "dual":
                return Struct("dual-of-constraint", id(base))
            if is_z3(base) and base.sort() == R and e.attr == "real":
                return base
        if isinstance(e, ast.Subscript) and not isinstance(e.slice, ast.Slice):
            try:
                base = self.ev(e.value, env, pc)
            except Unsupported:
                base = None
            if is_arr(base):
                idx = self.ev(e.slice, env, pc)
                idx = list(idx) if isinstance(idx, tuple) else [idx]
                if all(isinstance(i, int) for i in idx):
                    return uf("entry[%s]" % ",".join(str(i) for i in idx), R, base)
        return super().ev(e, env, pc)

    # ------------------------------------------------------------------ statements
    _CONCRETE_CALLS = {"np.ones", "np.zeros", "np.prod", "np.int_", "list", "range", "len", "sum", "zip", "int"}
    _CONCRETE_METHODS = {"astype", "flatten", "tolist"}

    def _concrete(self, node, env):
        """value of an expression all of whose inputs are concrete Python ints / lists (index bookkeeping such as
        `2 * np.ones((1, 3 * n)).astype(int).flatten()`): evaluated with the real numpy, which IS the semantics; None if not applicable"""
        import numpy as _np

        scope = {}
        import copy as _copy

        node = _copy.deepcopy(node)

        class _Sub(ast.NodeTransformer):
            def visit_Attribute(self_, n):  # noqa: N805
                if isinstance(n.value, ast.Name) and n.value.id == "self" and ("self." + n.attr) in env:
                    return ast.copy_location(ast.Name(id="self__" + n.attr, ctx=ast.Load()), n)
                return self_.generic_visit(n)

        node = ast.fix_missing_locations(_Sub().visit(node))
        env = dict(env)
        for k in list(env):
            if k.startswith("self."):
                env["self__" + k[5:]] = env[k]
        for n in ast.walk(node):
            if isinstance(n, ast.Name):
                if n.id == "np":
                    scope["np"] = _np
                elif n.id in ("int", "list", "range", "len", "sum", "zip"):
                    continue
                elif n.id in env and (isinstance(env[n.id], (int, str)) or (isinstance(env[n.id], list) and all(isinstance(x, int) for x in env[n.id]))):
                    scope[n.id] = env[n.id]
                elif isinstance(n.ctx, ast.Load):
                    return None
            if isinstance(n, ast.Call):
                fn = ast.unparse(n.func)
                if fn not in self._CONCRETE_CALLS and not (isinstance(n.func, ast.Attribute) and n.func.attr in self._CONCRETE_METHODS):
                    return None
            if isinstance(n, (ast.Lambda, ast.Attribute)) and isinstance(n, ast.Attribute) and not (n.attr in self._CONCRETE_METHODS or ast.unparse(n) in self._CONCRETE_CALLS):
                return None
        if not any(isinstance(n, ast.Call) for n in ast.walk(node)):
            return None
        try:
            v = eval(compile(ast.Expression(node), "<concrete>", "eval"), {"__builtins__": {"int": int, "list": list, "range": range, "len": len, "sum": sum, "zip": zip}}, scope)
        except Exception:
            return None
        if isinstance(v, _np.ndarray):
            if v.ndim == 1 and v.dtype.kind in "iu" and any(isinstance(n, ast.Call) and ast.unparse(n.func) == "np.int_" for n in ast.walk(node)):
                return [int(x) for x in v]  # np.int_(list of ints): kept as the list of ints it stands for
            return None  # otherwise only plain Python results are kept (a later .tolist() produces them)
        if isinstance(v, (_np.integer,)) or (isinstance(v, int) and not isinstance(v, bool)):
            return int(v)
        if isinstance(v, list) and all(isinstance(x, (int, _np.integer)) for x in v):
            return [int(x) for x in v]
        return None

    def assign(self, t, v, env, pc):
        if isinstance(t, ast.Subscript) and isinstance(t.slice, ast.Tuple) and len(t.slice.elts) == 2:
            obj = self.ev(t.value, env, pc)
            if isinstance(obj, EntryMat):
                i, j = [self.ev(x, env, pc) for x in t.slice.elts]
                if not (isinstance(i, int) and isinstance(j, int) and is_scalar(v)):
                    raise Unsupported("store into an entry table")
                obj.rows[i][j] = v
                return
        return super().assign(t, v, env, pc)

    def stmt(self, s, env, pc):
        if isinstance(s, ast.Assign) and len(s.targets) == 1 and isinstance(s.targets[0], ast.Tuple) and isinstance(s.value, ast.Attribute) and s.value.attr == "shape":
            base = self.ev(s.value.value, env, pc)
            if is_arr(base) and all(isinstance(t, ast.Name) for t in s.targets[0].elts):
                for k, t in enumerate(s.targets[0].elts):
                    env[t.id] = uf("shape[%d]" % k, R, base)
                return [(env, pc)]
        if isinstance(s, ast.Assign) and len(s.targets) == 1 and isinstance(s.targets[0], ast.Attribute) and isinstance(s.targets[0].value, ast.Name) and s.targets[0].value.id == "self":
            key = "self." + s.targets[0].attr
            node = s.value
            pend = env.get("__pending__", {})
            if isinstance(node, ast.Call) and isinstance(node.func, ast.Attribute) and node.func.attr == "tolist" and ast.unparse(node.func.value) in pend:
                node = ast.Call(func=ast.Attribute(value=pend[ast.unparse(node.func.value)], attr="tolist", ctx=ast.Load()), args=[], keywords=[])
                ast.fix_missing_locations(node)
            v = self._concrete(node, env)
            if v is None:
                if any(isinstance(n, ast.Attribute) and n.attr in ("astype", "flatten") for n in ast.walk(s.value)):
                    pend = dict(pend)
                    pend[key] = s.value
                    env["__pending__"] = pend
                    env[key] = None
                    return [(env, pc)]
                try:
                    v = self.ev(s.value, env, pc)
                except Unsupported as u:
                    from .termvc import Poison

                    v = Poison("%s = %s: %s" % (key, ast.unparse(s.value)[:60], u))
            env[key] = v
            return [(env, pc)]
        if isinstance(s, ast.Assign) and len(s.targets) == 1 and isinstance(s.targets[0], ast.Name):
            # two-step idiom: x = <numpy expr>; x = x.tolist()  -- keep the unevaluated expression until it becomes a Python list
            node = s.value
            pend = env.get("__pending__", {})
            if isinstance(node, ast.Call) and isinstance(node.func, ast.Attribute) and node.func.attr == "tolist" and isinstance(node.func.value, ast.Name) and node.func.value.id in pend:
                node = ast.Call(func=ast.Attribute(value=pend[node.func.value.id], attr="tolist", ctx=ast.Load()), args=[], keywords=[])
                ast.fix_missing_locations(node)
            v = self._concrete(node, env)
            if v is not None:
                env[s.targets[0].id] = v
                return [(env, pc)]
            if any(isinstance(n, ast.Name) and n.id == "np" for n in ast.walk(s.value)) and any(isinstance(n, ast.Attribute) and n.attr in ("astype", "flatten") for n in ast.walk(s.value)):
                pend = dict(pend)
                pend[s.targets[0].id] = s.value
                env["__pending__"] = pend
        if isinstance(s, ast.Expr) and isinstance(s.value, ast.Call):
            self.ev(s.value, env, pc)
            return [(env, pc)]
        return super().stmt(s, env, pc)

    # ------------------------------------------------------------------ calls
    def _kw(self, e, env, pc):
        out = {}
        for k in e.keywords:
            if k.arg is None:  # **kwargs passed through
                v = self.ev(k.value, env, pc)
                if not isinstance(v, Param):
                    raise Unsupported("** of a non-parameter")
                out["**"] = v
            else:
                out[k.arg] = self.ev(k.value, env, pc)
        return out

    def call(self, e, env, pc):
        f = e.func
        fname = ast.unparse(f)
        if fname.startswith("pc."):
            fname = "picos." + fname[3:]
        if isinstance(f, ast.Attribute) and f.attr == "append" and isinstance(f.value, ast.Name) and isinstance(env.get(f.value.id), list) and len(e.args) == 1:
            env[f.value.id].append(self.ev(e.args[0], env, pc))
            return None
        if isinstance(f, ast.Attribute) and f.attr == "partial_trace" and not fname.startswith(("picos.", "cvxpy.")):
            base = self.ev(f.value, env, pc)
            if is_arr(base) and len(e.args) == 1 and isinstance(self.ev(e.args[0], env, pc), int) and [k.arg for k in e.keywords] == ["dimensions"]:
                return uf("var.partial_trace[%d](dimensions)" % self.ev(e.args[0], env, pc), Arr, base, lift(self.ev(e.keywords[0].value, env, pc)))
        if fname == "np.zeros" and len(e.args) == 1 and not e.keywords:
            shp = self.ev(e.args[0], env, pc)
            if isinstance(shp, (list, tuple)) and len(shp) == 2 and all(isinstance(x, int) for x in shp):
                return EntryMat([[0] * shp[1] for _ in range(shp[0])])
        if fname == "np.negative" and len(e.args) == 1:
            a0 = self.ev(e.args[0], env, pc)
            if isinstance(a0, EntryMat):
                return a0.map(lambda x: -lift(x) if is_z3(x) else -x)
        if fname in ("picos.block", "cvxpy.bmat") and len(e.args) == 1 and not e.keywords:
            rows = self.ev(e.args[0], env, pc)
            if isinstance(rows, list):
                rows = [[x.term() if isinstance(x, EntryMat) else x for x in r_] if isinstance(r_, list) else r_ for r_ in rows]
            if isinstance(rows, list) and len(rows) == 2 and all(isinstance(r_, list) and len(r_) == 2 and all(is_arr(x) for x in r_) for r_ in rows):
                return uf("block2x2", Arr, rows[0][0], rows[0][1], rows[1][0], rows[1][1])
            raise Unsupported("block matrix form")
        if fname == "picos.SpectralNorm" and len(e.args) == 1:
            a0 = self.ev(e.args[0], env, pc)
            if is_arr(a0):
                return uf("spectral-norm", R, a0)
        if isinstance(f, ast.Name) and f.id in ("zip", "enumerate"):
            return self._iterable(e, env, pc)
        if isinstance(f, ast.Name) and f.id == "has_same_dimension":
            return self.opaque_pred(e, env)
        if isinstance(f, ast.Name) and f.id in ("int", "float") and len(e.args) == 1 and not e.keywords:
            v0 = self.ev(e.args[0], env, pc)
            if isinstance(v0, (int, float)) and not isinstance(v0, bool):
                return int(v0) if f.id == "int" else float(v0)
            if is_z3(v0):
                return v0
        if isinstance(f, ast.Name) and f.id in getattr(self.c, "validation_calls", ()):
            return None  # an argument check that raises or returns: assumed to pass (listed in the contract's requires)
        if isinstance(f, ast.Name) and f.id == "isinstance" and len(e.args) == 2 and isinstance(e.args[1], ast.Name) and e.args[1].id in ("int", "list", "float"):
            v0 = self.ev(e.args[0], env, pc)
            if isinstance(v0, (int, float, list)) and not isinstance(v0, bool):
                return isinstance(v0, {"int": int, "list": list, "float": float}[e.args[1].id])
        if isinstance(f, ast.Name) and f.id in getattr(self.c, "local_builders", ()):
            if e.args:
                raise Unsupported("positional call of a builder")
            return Struct("builder", f.id, tuple(sorted((k, keyrepr(v)) for k, v in self._kw(e, env, pc).items())))
        if fname.startswith("cvxpy."):
            args = [self.ev(a, env, pc) for a in e.args]
            kw = self._kw(e, env, pc)
            what = fname[6:]
            if what == "Variable":
                shape = args[0] if args else ()
                shp = list(shape) if isinstance(shape, tuple) else [shape]
                extra = ",".join("%s=%r" % (k, v) for k, v in sorted(kw.items()))
                k = self.c.nvars
                self.c.nvars += 1
                return uf("cvxpy.Variable#%d[%s]" % (k, extra), Arr, *[lift(x) for x in shp])
            if what in ("Maximize", "Minimize") and len(args) == 1:
                ob = args[0]
                if is_arr(ob):
                    ob = uf("scalar-of", R, ob)  # a 0-d variable used as the objective
                return ("objective", "max" if what == "Maximize" else "min", ob)
            if what == "trace" and len(args) == 1 and is_arr(args[0]):
                return tr(args[0])
            if what == "sum" and len(args) == 1 and is_arr(args[0]):
                return uf("sum-of-entries", R, args[0])
            if what == "diag" and len(args) == 1 and is_arr(args[0]):
                return uf("diag", Arr, args[0])
            if what == "real" and len(args) == 1:
                return uf("real-part", Arr, args[0]) if is_arr(args[0]) else args[0]
            if what == "kron" and len(args) == 2:
                return uf("kron", Arr, args[0], args[1])
            if what == "multiply" and len(args) == 2:
                return uf("multiply", Arr, args[0], args[1])
            if what == "Problem" and len(args) == 2 and isinstance(args[0], tuple) and args[0][0] == "objective" and isinstance(args[1], list):
                pr = Prob()
                pr.direction, pr.objective, pr.objective_set = args[0][1], args[0][2], 1
                pr.cons = [self._cons(c) for c in args[1]]
                pr.functional = True
                self.c.problems.append(pr)
                return pr
            raise Unsupported("cvxpy call %s" % fname)
        if fname.startswith("picos."):
            args = [self.ev(a, env, pc) for a in e.args]
            kw = self._kw(e, env, pc)
            what = fname[6:]
            if what == "Problem" and not args and not kw:
                p = Prob()
                self.c.problems.append(p)
                return p
            if what in ("HermitianVariable", "RealVariable", "SymmetricVariable", "ComplexVariable"):
                name, shape = args[0], args[1]
                if not isinstance(name, str):
                    raise Unsupported("variable name")
                shp = list(shape) if isinstance(shape, tuple) else [shape]
                extra = ",".join("%s=%r" % (k, v) for k, v in sorted(kw.items()) if isinstance(v, (int, float)))
                if len(extra.split(",")) != len(kw) and kw:
                    raise Unsupported("variable options")
                return uf("picos.%s[%s%s]" % (what, name, ";" + extra if extra else ""), Arr, *[lift(x) for x in shp])
            if what == "sum" and len(args) == 1 and isinstance(args[0], list) and args[0]:
                xs = args[0]
                if all(is_arr(x) for x in xs):
                    return msum(xs)
                if all(is_scalar(x) for x in xs):
                    acc = lift(xs[0])
                    for x in xs[1:]:
                        acc = acc + lift(x)
                    return acc
                raise Unsupported("picos.sum of mixed values")
            if what == "I" and len(args) == 1:
                return uf("picos.I", Arr, lift(args[0]))
            if what == "trace" and len(args) == 1 and is_arr(args[0]):
                return tr(args[0])
            if what == "diag" and len(args) == 1 and is_arr(args[0]):
                return uf("picos.diag", Arr, args[0])
            if what == "partial_transpose" and len(args) == 1 and is_arr(args[0]) and set(kw) == {"subsystems", "dimensions"} and is_z3(kw["subsystems"]) and is_z3(kw["dimensions"]):
                return uf("picos.partial_transpose(subsystems,dimensions)", Arr, args[0], kw["subsystems"], kw["dimensions"])
            raise Unsupported("picos call %s" % fname)
        if isinstance(f, ast.Attribute):
            try:
                fv = self.ev(f, env, pc)
            except Unsupported:
                fv = None
            if isinstance(fv, tuple) and fv and fv[0] == "probmethod":
                _, prob, m = fv
                args = [self.ev(a, env, pc) for a in e.args]
                kw = self._kw(e, env, pc)
                if prob.solved_at is not None and m in ("add_constraint", "add_list_of_constraints", "set_objective"):
                    self.c.late_edits += 1
                if m == "add_constraint" and len(args) == 1:
                    prob.cons.append(self._cons(args[0]))
                    return None
                if m == "add_list_of_constraints" and len(args) == 1 and isinstance(args[0], list):
                    for c in args[0]:
                        prob.cons.append(self._cons(c))
                    return None
                if m == "set_objective" and len(args) == 2 and isinstance(args[0], str):
                    prob.direction, prob.objective = args[0], args[1]
                    prob.objective_set += 1
                    return None
                if m == "solve" and not args:
                    prob.solves += 1
                    prob.solved_at = len(prob.cons)
                    prob.solve_kw = kw
                    return prob.opt  # cvxpy: solve() returns the optimal value; picos: a solution whose .value is read
                if m == "get_constraint" and len(args) == 1 and isinstance(args[0], int):
                    if not 0 <= args[0] < len(prob.cons):
                        raise Unsupported("constraint index out of range")
                    return prob.cons[args[0]]
                raise Unsupported("problem method %s" % m)
        if fname in ("np.real", "np.conj", "np.array", "np.conjugate") and len(e.args) == 1 and not e.keywords:
            a = self.ev(e.args[0], env, pc)
            if isinstance(a, Struct):
                return Struct(fname, a)
            if fname == "np.real" and is_z3(a) and a.sort() == R:
                return a
            if fname == "np.array" and isinstance(a, list) and a and all(is_scalar(x) for x in a):
                return uf("np.array[list%d]" % len(a), Arr, *[lift(x) for x in a])
        return super().call(e, env, pc)

    def _cons(self, c):
        if isinstance(c, Cons):
            return c
        if is_z3(c) and z3.is_bool(c):
            return Cons("scalar", c)
        raise Unsupported("constraint of unknown form: %r" % (c,))


# ---------------------------------------------------------------------------------------------
# contract
# ---------------------------------------------------------------------------------------------
class ProgContract:
    """params: [(name, kind)] with kind in 'arr', 'real', 'arrlistN', 'reallistN', 'solver', 'kwargs' or a concrete value;
    spec(env) -> dict(direction, objective, constraints=[Cons], ordered=bool, result=callable(prob) -> expected second component)"""

    def __init__(self, base_contract_cls, params, requires, spec, text):
        self._base = base_contract_cls(params=[(n, k) for n, k in params if k not in ("solver", "kwargs")], requires=requires, spec=None, text=text)
        self.params, self.spec, self.text = params, spec, text
        self.problems = []
        self.late_edits = 0
        self.nvars = 0
        self.toqito_names = getattr(self._base, "toqito_names", set())
        self.methods = {}

    def inputs(self):
        env, pc = self._base.inputs()
        for n, k in self.params:
            if k in ("solver", "kwargs"):
                env[n] = Param(n)
        self.env0 = dict(env)
        return env, pc

    def facts(self):
        return axioms() + list(self.hermitian_facts)

    hermitian_facts = ()

    def bind_callee(self, eng, name, args, kw_terms, kws):
        return self._base.bind_callee(eng, name, args, kw_terms, kws)

    def callee(self, eng, name, full, args):
        return NotImplemented

    def _eq(self, a, b):
        if is_z3(a) or is_z3(b):
            a, b = lift(a), lift(b)
            if a.sort() != b.sort():
                return False
            return a == b
        return a == b

    def _cons_goal(self, got, exp):
        if got.kind != exp.kind:
            return False
        if got.kind == "scalar":
            return got.lhs == exp.lhs
        g1, g2 = self._eq(got.lhs, exp.lhs), self._eq(got.rhs, exp.rhs)
        if g1 is False or g2 is False:
            return False
        gs = [g for g in (g1, g2) if g is not True]
        return z3.And(*gs) if gs else True

    def post(self, eng, value, env):
        out = []
        try:
            want = self.spec(self.env0)
        except Exception as ex:
            return [("spec could not be built: %s" % ex, False)]
        scalar = bool(want.get("scalar_result"))
        if len(self.problems) != 1:
            return [("exactly one program is built", False)]
        prob = self.problems[0]
        fval = want.get("value", lambda o: o)
        if scalar:
            ok_shape = is_scalar(value) and prob.solved_at is not None
            out.append(("the function returns a number computed from the optimum of a solved program", bool(ok_shape)))
            value = (value, None)
        else:
            ok_shape = isinstance(value, tuple) and len(value) == 2 and is_scalar(value[0]) and prob.solved_at is not None
            out.append(("the function returns (value, variables) for a solved program", bool(ok_shape)))
        if not ok_shape:
            return out
        out.append(("returned value == " + want.get("value_text", "the optimum of the program"), lift(value[0]) == lift(fval(prob.opt))))
        out.append(("exactly one program is built and it is solved exactly once, after its last constraint and objective", len(self.problems) == 1 and prob.solves == 1 and prob.solved_at == len(prob.cons) and self.late_edits == 0 and prob.objective_set == 1))
        kw = prob.solve_kw
        if want.get("solver_param", True):
            solver_ok = isinstance(kw.get("solver"), Param) and kw["solver"].name == "solver"
            out.append(("solve() is called with the caller's solver", bool(solver_ok)))
        elif "solve_kw" in want:
            exp_kw = want["solve_kw"]
            ok_kw = set(kw) == set(exp_kw) and all(keyrepr(kw[k]) == keyrepr(exp_kw[k]) for k in kw)
            out.append(("solve() is called with %s" % ", ".join(sorted(exp_kw)), bool(ok_kw)))
        else:
            out.append(("solve() is called without arguments (default solver)", not kw))
        out.append(("direction of optimisation is '%s'" % want["direction"], prob.direction == want["direction"]))
        obj = prob.objective
        if not (is_z3(obj) and obj.sort() == R):
            out.append(("the objective is a real affine expression", False))
        else:
            out.append(("objective == " + want.get("objective_text", "stated objective"), obj == want["objective"]))
        exp = want["constraints"]
        out.append(("the program has %d constraints" % len(exp), len(prob.cons) == len(exp)))
        if len(prob.cons) == len(exp):
            if want.get("ordered", True):
                for k, (g, x) in enumerate(zip(prob.cons, exp)):
                    out.append(("constraint %d is %s" % (k, want["constraint_text"][k] if k < len(want.get("constraint_text", [])) else "as stated"), self._cons_goal(g, x)))
            else:
                # multiset match: every stated constraint is matched by a distinct built constraint (z3 decides one pair at a time)
                left = list(range(len(prob.cons)))
                for k, x in enumerate(exp):
                    hit = None
                    for j in left:
                        if self._valid(eng, self._cons_goal(prob.cons[j], x)):
                            hit = j
                            break
                    if hit is not None:
                        left.remove(hit)
                    out.append(("stated constraint %d (%s) is in the program" % (k, want["constraint_text"][k] if k < len(want.get("constraint_text", [])) else ""), hit is not None))
        if scalar:
            return out
        second = want["result"](prob)
        got = value[1]
        out.append(("second component of the result is " + want.get("result_text", "as stated"), self._same(got, second)))
        return out

    def _valid(self, eng, goal):
        if goal is True or goal is False:
            return goal
        if z3.is_true(z3.simplify(goal)):
            return True
        sol = z3.Solver()
        sol.set("timeout", 1500)  # pairs that do not match end in `unknown` (quantified axioms): keep them cheap
        for f_ in self.facts():
            sol.add(f_)
        sol.add(z3.Not(goal))
        return sol.check() == z3.unsat

    def _same(self, a, b):
        if isinstance(a, (list, tuple)) and isinstance(b, (list, tuple)):
            if len(a) != len(b) or type(a) is not type(b):
                return False
            gs = [self._same(x, y) for x, y in zip(a, b)]
            if any(g is False for g in gs):
                return False
            gs = [g for g in gs if g is not True]
            return z3.And(*gs) if gs else True
        if isinstance(a, Struct) and isinstance(b, Struct):
            return a.key() == b.key()
        if isinstance(a, Struct) or isinstance(b, Struct):
            return False
        return self._eq(a, b)


class DispatchContract:
    """the public function hands its arguments to one local builder, chosen by (strategy, primal_dual):
    spec(env) -> (builder name, {parameter: value}) ; the result must be that call and nothing else"""

    def __init__(self, base_contract_cls, params, requires, spec, text, local_builders):
        self._base = base_contract_cls(params=[(n, k) for n, k in params if k not in ("solver", "kwargs")], requires=requires, spec=None, text=text)
        self.params, self.spec, self.text = params, spec, text
        self.local_builders = set(local_builders)
        self.problems = []
        self.late_edits = 0
        self.toqito_names = getattr(self._base, "toqito_names", set())
        self.methods = {}

    def inputs(self):
        env, pc = self._base.inputs()
        for n, k in self.params:
            if k in ("solver", "kwargs"):
                env[n] = Param(n)
        self.env0 = dict(env)
        return env, pc

    def bind_callee(self, eng, name, args, kw_terms, kws):
        return self._base.bind_callee(eng, name, args, kw_terms, kws)

    def callee(self, eng, name, full, args):
        return NotImplemented

    def post(self, eng, value, env):
        try:
            name, kw = self.spec(self.env0)
        except Exception as ex:
            return [("spec could not be built: %s" % ex, False)]
        want = Struct("builder", name, tuple(sorted((k, keyrepr(v)) for k, v in kw.items())))
        ok = isinstance(value, Struct) and value.key() == want.key()
        return [(self.text, bool(ok))]


class InitContract:
    """__init__ of an object whose later methods are verified against attribute values: the attributes stored are the stated ones"""

    def __init__(self, params, want, text):
        self.params, self.want, self.text = params, want, text
        self.problems = []
        self.late_edits = 0
        self.nvars = 0
        self.toqito_names = set()
        self.methods = {}

    def inputs(self):
        env = {"self": "self"}
        for n, k in self.params:
            env[n] = z3.Const(n, Arr) if k == "arr" else k
        self.env0 = dict(env)
        return env, []

    def bind_callee(self, eng, name, args, kw_terms, kws):
        return NotImplemented

    def callee(self, eng, name, full, args):
        return NotImplemented

    def post(self, eng, value, env):
        out = []
        for attr, exp in self.want(self.env0).items():
            got = env.get("self." + attr)
            if is_z3(exp):
                ok = is_z3(got) and got.eq(exp)
            else:
                ok = got == exp and type(got) is type(exp)
            out.append(("%s: self.%s == %s" % (self.text, attr, exp if not is_z3(exp) else "the argument"), bool(ok)))
        return out
