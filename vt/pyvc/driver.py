"""Per-instance verification driver for E1-array: execute the real body on symbolic inputs along every feasible
path, emit obligations (branch feasibility, call-site preconditions, raise-unreachable, shape and entry
postconditions) and discharge them."""
from __future__ import annotations

import time
import traceback

import sympy as sp
import z3

from . import sym
from .interp import Ctx, Interp, Raised, Unsupported, explore_paths
from .prove import entries_equal, exprs_equal
from .sym import Num, SymArray, Unaligned

CLAIM_KINDS = {"post-entry", "post-shape", "call-site-pre", "raise-unreachable", "post-type"}


def fine_index(axis_radices_msf, prefix):
    """one fresh universally quantified digit per (atomic) radix; returns (Num, digit symbols)"""
    W = sym.world()
    digs = []
    for i, r in enumerate(axis_radices_msf):
        d = sp.Symbol("%s%d" % (prefix, i), integer=True, nonnegative=True)
        W.declare(d, r)
        digs.append(d)
    return sym.enc(digs, axis_radices_msf), digs


def model_of_path(ctx, minimise=()):
    cache = {}
    from .interp import rel_to_z3

    s = z3.Solver()
    s.set("timeout", 10000)
    for a in ctx.assumptions:
        s.add(rel_to_z3(a, cache))
    from .interp import implicit

    s.add(*implicit(cache))
    best = None
    for bound in (2, 3, 4, 6, None):
        s.push()
        if bound is not None:
            for m in minimise:
                if m in cache:
                    s.add(cache[m] <= bound)
        if s.check() == z3.sat:
            best = s.model()
            s.pop()
            break
        s.pop()
    if best is None:
        return None
    md = {}
    for symb, zv in cache.items():
        v = best.eval(zv, model_completion=True)
        try:
            md[str(symb)] = v.as_long()
        except Exception:
            md[str(symb)] = str(v)
    return md


def verify_instance(function, label, funcs, contracts, make_inputs, make_spec, out_axes, atoms=(), expect_kind="array"):
    """make_inputs() -> (args, kwargs, assumptions); make_spec(args, kwargs) -> spec SymArray;
    out_axes(args, kwargs) -> per output axis the list (MSF) of radices for fine digits.
    Returns the list of obligation records for this instance (all paths)."""
    records = []

    def run_one(forced):
        sym.reset_world()
        args, kwargs, assumptions = make_inputs()
        ctx = Ctx(assumptions, forced)
        it = Interp(funcs, contracts, ctx)
        outcome = None
        try:
            out = it.call_function(function, args, kwargs)
            outcome = ("return", out)
        except Raised as r:
            outcome = ("raise", r)
        except Unaligned as u:
            outcome = ("unaligned", u)
        except Unsupported as u:
            outcome = ("unsupported", u)
        except RecursionError as u:
            outcome = ("unsupported", Unsupported("recursion limit"))
        except Exception as u:  # an engine error is never a verdict about the code
            outcome = ("unsupported", Unsupported("engine error %s: %s" % (type(u).__name__, str(u)[:200])))
        kind = outcome[0]
        if kind == "return":
            # vacuity guard: the precondition together with the path condition must be satisfiable
            sat, _, _ = ctx.z3_check([])
            ctx.obligations.append(dict(kind="reachability", text="precondition and path condition are satisfiable (not vacuous)", status="discharged" if sat == z3.sat else "undecided", backend="z3"))
            try:
                _post(ctx, outcome[1], make_spec(args, kwargs), out_axes(args, kwargs), atoms, expect_kind)
            except Unaligned as u:
                ctx.obligations.append(dict(kind="scaffold-alignment", text="regrouping while evaluating the postcondition: %s" % u, status="undecided", backend="-", side=_side(u)))
            except Unsupported as u:
                ctx.obligations.append(dict(kind="scaffold-subset", text="postcondition evaluation left the subset: %s" % u, status="undecided", backend="-"))
            except Exception as u:
                ctx.obligations.append(dict(kind="scaffold-subset", text="engine error in postcondition: %s %s" % (type(u).__name__, str(u)[:200]), status="undecided", backend="-"))
        elif kind == "raise":
            r = outcome[1]
            ctx.obligations.append(dict(kind="raise-unreachable", text="under the precondition no path reaches `%s` (line %d)" % (r.text, r.lineno), status="refuted", backend="z3", model=model_of_path(ctx, atoms)))
        elif kind == "unaligned":
            u = outcome[1]
            rec = dict(kind="scaffold-alignment", text="radix regrouping failed in the body: %s" % u, status="undecided", backend="-", side=_side(u))
            if u.side is not None:
                # side condition: the two radix products are equal; its negation being satisfiable gives a dimension
                # vector worth replaying on the real code
                try:
                    res = exprs_equal(ctx, u.side[0], u.side[1], minimise=atoms)
                    rec["side_status"] = res["status"]
                    rec["model"] = res.get("model")
                except Exception:
                    pass
            ctx.obligations.append(rec)
        else:
            ctx.obligations.append(dict(kind="scaffold-subset", text="body left the verified subset: %s" % outcome[1], status="undecided", backend="-"))
        return ctx, outcome

    try:
        paths = explore_paths(run_one)
    except Unsupported as u:
        return [dict(function=function, instance=label, kind="scaffold-subset", text=str(u), status="undecided", backend="-", claim=False, ms=0.0)], 0.0
    ms = 0.0
    for pi, (ctx, outcome) in enumerate(paths):
        ms += ctx.solver_ms
        for ob in ctx.obligations:
            ob = dict(ob)
            ob["function"] = function
            ob["instance"] = label
            ob["path"] = pi
            ob["claim"] = ob["kind"] in CLAIM_KINDS
            ob.setdefault("ms", 0.0)
            ob.setdefault("model", None)
            records.append(ob)
    return records, ms


def _side(u):
    return [str(u.side[0]), str(u.side[1])] if getattr(u, "side", None) else None


def _post(ctx, out, spec, axes, atoms, expect_kind):
    if expect_kind == "abstract":
        # only call-site preconditions / raise-unreachable are claimed for this function; the result is abstracted
        from .interp import AbsArr
        import numpy as np

        ok = isinstance(out, (AbsArr, np.ndarray, SymArray))
        ctx.obligations.append(dict(kind="post-type", text="returns an array on this path", status="discharged" if ok else "refuted", backend="structural", detail="" if ok else "got %s" % type(out).__name__))
        return
    if isinstance(spec, dict):
        # an object-valued result: each named attribute against its specification (arrays by _post, scalars / identities by equality)
        import types

        if not isinstance(out, types.SimpleNamespace):
            ctx.obligations.append(dict(kind="post-type", text="result is an object with attributes %s" % sorted(spec), status="undecided", backend="structural-mismatch", detail="got %s" % type(out).__name__))
            return
        for name in sorted(spec):
            want, ax = spec[name]
            got = getattr(out, name, None)
            if isinstance(want, SymArray):
                _post(ctx, got, want, ax, atoms, expect_kind)
            elif ax == "is":
                ok = got is want
                ctx.obligations.append(dict(kind="post-type", text="result.%s is the very object given" % name, status="discharged" if ok else "undecided", backend="structural" if ok else "structural-mismatch"))
            else:
                res = exprs_equal(ctx, got, want, minimise=atoms)
                ctx.obligations.append(dict(kind="post-shape", text="result.%s == %s" % (name, want), **res))
        return
    from .interp import AbsArr as _AbsArr

    if isinstance(out, _AbsArr) and isinstance(spec, SymArray) and expect_kind != "abstract":
        tab = out.tabulated()
        if tab is None:
            ctx.obligations.append(dict(kind="scaffold-subset", text="the result array is not written completely by tabulation loops", status="undecided", backend="-"))
            return
        out = tab
    if isinstance(spec, tuple) and spec and spec[0] == "symlist":
        # a list of symbolic length: same length, and the element at a fresh universally quantified position against its specification
        from .sym import SymList

        _, n, elem_spec, elem_axes = spec
        if not isinstance(out, SymList):
            ctx.obligations.append(dict(kind="post-type", text="result is a list of %s arrays" % n, status="undecided", backend="structural-mismatch", detail="got %s" % type(out).__name__))
            return
        res = exprs_equal(ctx, out.n, n, minimise=atoms)
        ctx.obligations.append(dict(kind="post-shape", text="len(result) == %s" % n, **res))
        if res["status"] != "discharged":
            return
        j = sym.world().fresh_digit("e", n)
        _post(ctx, out.elem(sym.Num([(j, n)])), elem_spec(j), elem_axes, atoms, expect_kind)
        return
    if isinstance(spec, list):
        # a list-valued result (e.g. a list of Kraus operators, possibly nested): same length, and each element against its specification
        if not isinstance(out, list) or len(out) != len(spec):
            ctx.obligations.append(dict(kind="post-type", text="result is a list of %d elements" % len(spec), status="refuted", backend="structural", detail="got %s" % (type(out).__name__ if not isinstance(out, list) else "%d elements" % len(out))))
            return
        ctx.obligations.append(dict(kind="post-type", text="result is a list of %d elements" % len(spec), status="discharged", backend="structural"))
        for o, s_, ax in zip(out, spec, axes):
            _post(ctx, o, s_, ax, atoms, expect_kind)
        return
    if not isinstance(out, SymArray):
        ctx.obligations.append(dict(kind="post-type", text="result is an ndarray", status="refuted", backend="structural", detail="got %s" % type(out).__name__))
        return
    if out.ndim != spec.ndim:
        ctx.obligations.append(dict(kind="post-shape", text="result has %d axes" % spec.ndim, status="refuted", backend="structural", detail="got %d axes" % out.ndim))
        return
    for ax in range(spec.ndim):
        res = exprs_equal(ctx, out.shape[ax], spec.shape[ax], minimise=atoms)
        ctx.obligations.append(dict(kind="post-shape", text="result.shape[%d] == %s" % (ax, spec.shape[ax]), **res))
        if res["status"] != "discharged":
            return
    idx = []
    for ax, radices in enumerate(axes):
        num, _ = fine_index(radices, "kxyzw"[ax] if ax < 5 else "k%d_" % ax)
        idx.append(num)
    got = out.get(tuple(idx))
    exp = spec.get(tuple(idx))
    from . import bilinear

    if isinstance(got, bilinear.Poly) or isinstance(exp, bilinear.Poly):
        res = bilinear.polys_equal(ctx, got, exp, minimise=atoms)
    else:
        res = entries_equal(ctx, got, exp, minimise=atoms)
    side = res.pop("side", None)
    if res["status"] == "undecided" and res["detail"].startswith("unaligned"):
        ctx.obligations.append(dict(kind="scaffold-alignment", text="postcondition sums could not be aligned: %s" % res["detail"], status="undecided", backend="-"))
        return
    ctx.obligations.append(dict(kind="post-entry", text="for all digits and all dimensions: result[I] == spec[I]", **res))
