"""E1-integer: z3-native verification-condition generator for integer / list code of the real AST.

Value domain: Python ints, z3 Int/Bool terms, `ZList` (z3 Array Int->Int with a length; list or ndarray aliasing
semantics, S-alias), Python lists/tuples of values (concrete length), `Shaped` (an array known only by its shape),
`Opaque` (uninterpreted term built from named operations -- used for numpy value computations whose meaning is an
assumed dependency contract).  Loops with symbolic trip count need an invariant from the sidecar contract
(init / preserve obligations = scaffolding); loops without one whose body only stores array *contents* are
abstracted by havoc (sound for shape / integer facts).  Every obligation is  path-condition -> goal,
discharged by z3 (cvc5 on unknown)."""
from __future__ import annotations

import ast
import itertools
import time

import z3

from .prove import cvc5_check


class Unsupported(Exception):
    pass


class Cell:
    """mutable storage of a ZList (aliasing: a view shares the cell, a copy gets a new one)"""

    _ids = itertools.count()

    def __init__(self, arr):
        self.arr = arr
        self.id = next(Cell._ids)


class ZList:
    def __init__(self, cell, n, kind="list"):
        self.cell = cell
        self.n = n
        self.kind = kind

    def get(self, i):
        return z3.Select(self.cell.arr, i)

    def store(self, i, v):
        self.cell.arr = z3.Store(self.cell.arr, i, v)

    def copy(self):
        return ZList(Cell(self.cell.arr), self.n, self.kind)

    def view(self):
        return ZList(self.cell, self.n, self.kind)


class Shaped:
    """an ndarray of which only the shape (tuple of int terms) is tracked; `terms` optionally records which slices of
    which arrays were accumulated into it (for value contracts phrased over assumed numpy semantics)"""

    def __init__(self, shape, name="arr", terms=None):
        self.shape = tuple(shape)
        self.name = name
        self.terms = terms


class Opaque:
    def __init__(self, op, *args):
        self.op = op
        self.args = args

    def key(self):
        return (self.op,) + tuple(a.key() if isinstance(a, Opaque) else (str(z3.simplify(a)) if isinstance(a, z3.ExprRef) else repr(a)) for a in self.args)

    def __repr__(self):
        return "%s(%s)" % (self.op, ", ".join(map(repr, self.args)))


_fresh = itertools.count()


def fresh_int(prefix="v"):
    return z3.Int("%s!%d" % (prefix, next(_fresh)))


def fresh_arr(prefix="a"):
    return z3.Array("%s!%d" % (prefix, next(_fresh)), z3.IntSort(), z3.IntSort())


def is_z3(x):
    return isinstance(x, z3.ExprRef)


def zint(x):
    if isinstance(x, bool):
        raise Unsupported("bool used as int")
    if isinstance(x, int):
        return z3.IntVal(x)
    return x


def power(b, e):
    if isinstance(e, int) and e >= 0:
        r = 1
        for _ in range(e):
            r = r * b
        return r
    raise Unsupported("symbolic exponent")


class Obligation(dict):
    pass


class Returned(Exception):
    pass


class Engine:
    def __init__(self, fn, contract, function_name, label, timeout_ms=10000):
        self.fn = fn
        self.c = contract
        self.function = function_name
        self.label = label
        self.timeout_ms = timeout_ms
        self.records = []
        self.returns = []
        self.loop_ids = {}
        loops = sorted([n for n in ast.walk(fn) if isinstance(n, (ast.For, ast.While))], key=lambda n: (n.lineno, n.col_offset))
        for node in loops:
            self.loop_ids[id(node)] = len(self.loop_ids)
        self.ms = 0.0

    # ------------------------------------------------------------------ solver
    def check(self, pc, extra=(), want_model=False):
        s = z3.Solver()
        s.set("timeout", self.timeout_ms)
        for p in pc:
            s.add(p)
        for e in extra:
            s.add(e)
        t = time.time()
        r = s.check()
        self.ms += (time.time() - t) * 1000
        return r, s

    def oblige(self, kind, text, pc, goal, claim):
        t = time.time()
        if goal is True:
            self.records.append(dict(function=self.function, instance=self.label, kind=kind, text=text, status="discharged", backend="structural", claim=claim, ms=0.0, model=None))
            return True
        structural_false = goal is False
        if goal is False:
            goal = z3.BoolVal(False)
        facts = self.c.facts() if hasattr(self.c, "facts") and not structural_false else []  # a structural mismatch needs no axioms (and quantifiers would only make `sat` undecidable)
        r, s = self.check(list(facts) + list(pc), [z3.Not(goal)])
        ms = (time.time() - t) * 1000
        model = None
        if r == z3.unsat:
            st, be = "discharged", "z3"
        elif r == z3.sat:
            st, be = "refuted", "z3"
            m = s.model()
            model = {}
            for d in m.decls():
                if d.arity() == 0:
                    v = m[d]
                    try:
                        model[d.name()] = v.as_long()
                    except Exception:
                        model[d.name()] = str(v)[:120]
        else:
            c = cvc5_check(s)
            if c == "unsat":
                st, be = "discharged", "cvc5"
            else:
                st, be = "undecided", "z3:unknown,cvc5:%s" % c
        self.records.append(dict(function=self.function, instance=self.label, kind=kind, text=text, status=st, backend=be, claim=claim, ms=round(ms, 2), model=model))
        return st == "discharged"

    # ------------------------------------------------------------------ driver
    def run(self):
        env, pc = self.c.inputs()
        self.entry_env = dict(env)
        r, _ = self.check(pc)
        self.records.append(dict(function=self.function, instance=self.label, kind="reachability", text="precondition satisfiable (not vacuous)", status="discharged" if r == z3.sat else "undecided", backend="z3", claim=False, ms=0.0, model=None))
        try:
            states = self.block(self.fn.body, env, pc)
            for env2, pc2 in states:
                self.on_return(None, env2, pc2)
        except Unsupported as u:
            self.records.append(dict(function=self.function, instance=self.label, kind="scaffold-subset", text="body left the verified subset: %s" % u, status="undecided", backend="-", claim=False, ms=0.0, model=None))
        except Exception as u:
            self.records.append(dict(function=self.function, instance=self.label, kind="scaffold-engine", text="engine error %s: %s" % (type(u).__name__, str(u)[:200]), status="undecided", backend="-", claim=False, ms=0.0, model=None))
        return self.records

    def on_return(self, value, env, pc):
        self.returns.append((value, env, pc))
        for text, goal in self.c.post(self, value, env):
            self.oblige("post", text, pc, goal, True)

    # ------------------------------------------------------------------ statements
    def block(self, stmts, env, pc):
        states = [(env, pc)]
        for s in stmts:
            nxt = []
            for e, p in states:
                nxt += self.stmt(s, e, p)
            states = nxt
            if not states:
                break
        return states

    def stmt(self, s, env, pc):
        if isinstance(s, ast.Expr):
            if not isinstance(s.value, ast.Constant):
                self.ev(s.value, env, pc)
            return [(env, pc)]
        if isinstance(s, ast.Pass):
            return [(env, pc)]
        if isinstance(s, (ast.Import, ast.ImportFrom)):
            return [(env, pc)]  # a local import only binds names; callees are resolved by name through their contracts
        if isinstance(s, ast.FunctionDef):
            return [(env, pc)]  # nested helper: verified on its own, seen here only through its contract
        if isinstance(s, ast.Assign):
            v = self.ev(s.value, env, pc)
            for t in s.targets:
                self.assign(t, v, env, pc)
            return [(env, pc)]
        if isinstance(s, ast.AugAssign):
            cur = self.ev(_load(s.target), env, pc)
            v = self.binop(s.op, cur, self.ev(s.value, env, pc))
            self.assign(s.target, v, env, pc)
            return [(env, pc)]
        if isinstance(s, ast.Return):
            v = self.ev(s.value, env, pc) if s.value is not None else None
            self.on_return(v, env, pc)
            return []
        if isinstance(s, ast.If):
            c = self.ev(s.test, env, pc)
            return self.branch(c, s.body, s.orelse, env, pc, "line %d" % s.lineno)
        if isinstance(s, ast.For):
            return self.loop(s, env, pc)
        if isinstance(s, ast.Raise):
            r, sol = self.check(pc)
            self.records.append(dict(function=self.function, instance=self.label, kind="raise-unreachable", text="under the precondition no path reaches `%s` (line %d)" % (ast.unparse(s)[:80], s.lineno), status="discharged" if r == z3.unsat else ("refuted" if r == z3.sat else "undecided"), backend="z3", claim=True, ms=0.0, model=None))
            return []
        if isinstance(s, ast.With):
            hook = getattr(self.c, "with_stmt", None)
            if hook is not None:
                return hook(self, s, env, pc)
        raise Unsupported("statement %s at line %d" % (type(s).__name__, s.lineno))

    def branch(self, c, body, orelse, env, pc, where):
        if isinstance(c, bool):
            return self.block(body if c else orelse, env, pc)
        if isinstance(c, int):
            return self.block(body if c != 0 else orelse, env, pc)
        if is_z3(c) and z3.is_int(c):
            c = c != 0
        if not z3.is_bool(c):
            raise Unsupported("non-boolean condition at %s" % where)
        out = []
        rt, _ = self.check(pc, [c])
        rf, _ = self.check(pc, [z3.Not(c)])
        if rt == z3.unknown or rf == z3.unknown:
            raise Unsupported("solver unknown on branch condition at %s" % where)
        if rt == z3.sat:
            out += self.block(body, fork(env), pc + [c])
        else:
            self.records.append(dict(function=self.function, instance=self.label, kind="branch-infeasible", text="%s: condition can never hold" % where, status="discharged", backend="z3", claim=False, ms=0.0, model=None))
        if rf == z3.sat:
            out += self.block(orelse, fork(env), pc + [z3.Not(c)])
        else:
            self.records.append(dict(function=self.function, instance=self.label, kind="branch-infeasible", text="%s: condition always holds" % where, status="discharged", backend="z3", claim=False, ms=0.0, model=None))
        return out

    def loop(self, s, env, pc):
        ordinal = self.loop_ids[id(s)]
        it = s.iter
        if not (isinstance(it, ast.Call) and isinstance(it.func, ast.Name) and it.func.id == "range"):
            seq = self.ev(it, env, pc)
            if isinstance(seq, (list, tuple)):
                states = [(env, pc)]
                for x in seq:
                    nxt = []
                    for e, p in states:
                        self.assign(s.target, x, e, p)
                        nxt += self.block(s.body, e, p)
                    states = nxt
                return states
            raise Unsupported("loop over a non-range at line %d" % s.lineno)
        args = [self.ev(a, env, pc) for a in it.args]
        if len(args) == 1:
            a, b, step = 0, args[0], 1
        elif len(args) == 2:
            a, b, step = args[0], args[1], 1
        else:
            a, b, step = args
        if not isinstance(step, int) or step not in (1, -1):
            raise Unsupported("range step %r" % (step,))
        if isinstance(a, int) and isinstance(b, int):
            states = [(env, pc)]
            for x in range(a, b, step):
                nxt = []
                for e, p in states:
                    self.assign(s.target, x, e, p)
                    nxt += self.block(s.body, e, p)
                states = nxt
            return states
        inv = None
        if hasattr(self.c, "loop_invariant"):
            try:
                inv = self.c.loop_invariant(ordinal, s)
            except TypeError:
                inv = self.c.loop_invariant(ordinal)
        modified = assigned_names(s.body)
        stored = stored_names(s.body)
        tname = s.target.id if isinstance(s.target, ast.Name) else None
        if tname is None:
            raise Unsupported("loop target")
        a, b = zint(a), zint(b)
        if inv is None:
            # havoc abstraction: only sound for facts about shapes/integers not assigned in the body
            if any(not isinstance(env.get(n), (Shaped, type(None))) for n in stored if n in env):
                raise Unsupported("loop at line %d needs an invariant (stores into %s)" % (s.lineno, sorted(stored)))
            env2 = fork(env)
            for n in modified:
                if n in env2 and not isinstance(env2[n], Shaped):
                    env2[n] = havoc_value(env2[n])
                elif n not in env2:
                    env2[n] = fresh_int(n)
            env2[tname] = fresh_int(tname)
            self.records.append(dict(function=self.function, instance=self.label, kind="loop-abstracted", text="loop at line %d abstracted by havoc of %s (array contents only; shapes kept)" % (s.lineno, sorted(modified | stored)), status="discharged", backend="structural", claim=False, ms=0.0, model=None))
            return [(env2, pc)]
        # --- invariant-based treatment
        e0 = fork(env)
        e0[tname] = a
        self.oblige("loop-init", "loop %d invariant holds on entry" % ordinal, pc, inv(self, e0), False)
        # arbitrary iteration
        e1 = fork(env)
        for n in modified | stored:
            if n in e1:
                e1[n] = havoc_value(e1[n])
        # cells stored through aliases must be havocked consistently: re-link views
        relink(env, e1)
        jv = fresh_int(tname)
        e1[tname] = jv
        inrange = z3.And(jv <= a, jv > b) if step == -1 else z3.And(jv >= a, jv < b)
        pc1 = pc + [inrange, inv(self, e1)]
        states = self.block(s.body, e1, pc1)
        for e2, p2 in states:
            e2n = fork(e2)
            e2n[tname] = jv + step
            self.oblige("loop-preserve", "loop %d invariant preserved by the body" % ordinal, p2, inv(self, e2n), False)
        # exit
        e3 = fork(env)
        for n in modified | stored:
            if n in e3:
                e3[n] = havoc_value(e3[n])
        relink(env, e3)
        exit_j = z3.If(a > b, b, a) if step == -1 else z3.If(a < b, b, a)
        e3x = fork(e3)
        e3x[tname] = exit_j
        pc3 = pc + [inv(self, e3x)]
        e3[tname] = exit_j + (1 if step == -1 else -1)  # last value bound (only meaningful if the loop ran)
        return [(e3, pc3)]

    def assign(self, t, v, env, pc):
        if isinstance(t, ast.Name):
            env[t.id] = v
            return
        if isinstance(t, (ast.Tuple, ast.List)):
            vs = list(v)
            if len(vs) != len(t.elts):
                raise Unsupported("unpack arity")
            for tt, vv in zip(t.elts, vs):
                self.assign(tt, vv, env, pc)
            return
        if isinstance(t, ast.Subscript):
            obj = self.ev(t.value, env, pc)
            if isinstance(obj, Shaped):
                hook = getattr(self.c, "store_subscript", None)
                if hook is not None:
                    hook(self, obj, t, v, env, pc)
                return  # content store: shape unchanged
            idx = self.ev(t.slice, env, pc) if not isinstance(t.slice, (ast.Slice, ast.Tuple)) else None
            if isinstance(obj, ZList) and idx is not None:
                i = self.norm_index(obj, idx, pc, "store")
                obj.store(i, zint(v))
                return
            if isinstance(obj, list) and isinstance(idx, int):
                obj[idx] = v
                return
        if isinstance(t, ast.Attribute) and isinstance(t.value, ast.Name):
            hook = getattr(self.c, "store_attr", None)
            if hook is not None:
                hook(self, t.value.id, t.attr, v, env, pc)
                return
        raise Unsupported("assignment target %s" % ast.unparse(t))

    def norm_index(self, lst, idx, pc, what):
        n = zint(lst.n)
        if isinstance(idx, int) and idx < 0:
            i = n + idx
        else:
            i = zint(idx)
        self.oblige("index-in-bounds", "%s index %s within [0, len)" % (what, z3.simplify(i) if is_z3(i) else i), pc, z3.And(i >= 0, i < n), True)
        return i

    # ------------------------------------------------------------------ expressions
    def binop(self, op, a, b):
        if isinstance(a, Shaped) or isinstance(b, Shaped):
            sh = a.shape if isinstance(a, Shaped) else b.shape
            if isinstance(op, ast.Add) and isinstance(a, Shaped) and isinstance(b, Shaped) and a.terms is not None and b.terms is not None:
                return Shaped(sh, terms=a.terms + b.terms)
            return Shaped(sh)
        if isinstance(a, Opaque) or isinstance(b, Opaque):
            return Opaque(type(op).__name__, a, b)
        if isinstance(op, ast.Add):
            if isinstance(a, list) and isinstance(b, list):
                return a + b
            return a + b
        if isinstance(op, ast.Sub):
            return a - b
        if isinstance(op, ast.Mult):
            return a * b
        if isinstance(op, ast.Pow):
            return power(a, b)
        if isinstance(op, ast.FloorDiv):
            return a // b if isinstance(a, int) and isinstance(b, int) else zint(a) / zint(b)
        if isinstance(op, ast.Mod):
            return a % b
        if isinstance(op, ast.RShift) and isinstance(b, int) and b >= 0:
            return a >> b if isinstance(a, int) else zint(a) / (2**b)
        if isinstance(op, ast.BitAnd) and b == 1:
            return a & 1 if isinstance(a, int) else zint(a) % 2
        raise Unsupported("operator %s" % type(op).__name__)

    def ev(self, e, env, pc):
        if isinstance(e, ast.Constant):
            if isinstance(e.value, (int, bool, str, type(None), float)):
                return e.value
            raise Unsupported("constant %r" % (e.value,))
        if isinstance(e, ast.Name):
            if e.id in env:
                return env[e.id]
            hook = getattr(self.c, "name", None)
            if hook:
                return hook(self, e.id)
            raise Unsupported("name %s" % e.id)
        if isinstance(e, ast.Tuple):
            return tuple(self.ev(x, env, pc) for x in e.elts)
        if isinstance(e, ast.List):
            return [self.ev(x, env, pc) for x in e.elts]
        if isinstance(e, ast.BinOp):
            return self.binop(e.op, self.ev(e.left, env, pc), self.ev(e.right, env, pc))
        if isinstance(e, ast.UnaryOp):
            v = self.ev(e.operand, env, pc)
            if isinstance(e.op, ast.USub):
                return -v
            if isinstance(e.op, ast.Not):
                return (not v) if isinstance(v, bool) else z3.Not(v)
        if isinstance(e, ast.BoolOp):
            vs = [self.ev(x, env, pc) for x in e.values]
            if all(isinstance(v, bool) for v in vs):
                return all(vs) if isinstance(e.op, ast.And) else any(vs)
            vs = [z3.BoolVal(v) if isinstance(v, bool) else v for v in vs]
            return z3.And(*vs) if isinstance(e.op, ast.And) else z3.Or(*vs)
        if isinstance(e, ast.Compare):
            left = self.ev(e.left, env, pc)
            parts = []
            for op, c in zip(e.ops, e.comparators):
                right = self.ev(c, env, pc)
                parts.append(self.compare(op, left, right))
                left = right
            if all(isinstance(p, bool) for p in parts):
                return all(parts)
            return z3.And(*[z3.BoolVal(p) if isinstance(p, bool) else p for p in parts]) if len(parts) > 1 else parts[0]
        if isinstance(e, ast.Subscript):
            o = self.ev(e.value, env, pc)
            if isinstance(e.slice, ast.Slice):
                sl = e.slice
                if sl.lower is None and sl.upper is None and sl.step is None:
                    if isinstance(o, ZList):
                        return o.view() if o.kind == "ndarray" else o.copy()
                    if isinstance(o, list):
                        return list(o)
                    if isinstance(o, Shaped):
                        return o
                raise Unsupported("slice %s" % ast.unparse(e))
            if isinstance(o, Shaped):
                hook = getattr(self.c, "subscript", None)
                if hook:
                    return hook(self, o, e, env, pc)
                return Opaque("getitem", o.name)
            k = self.ev(e.slice, env, pc)
            if isinstance(o, ZList):
                i = self.norm_index(o, k, pc, "load")
                return o.get(i)
            if isinstance(o, (list, tuple)) and isinstance(k, int):
                return o[k]
            raise Unsupported("subscript %s" % ast.unparse(e))
        if isinstance(e, ast.Attribute):
            o = self.ev(e.value, env, pc) if not (isinstance(e.value, ast.Name) and e.value.id in ("np", "self", "NonlocalGame", "multiprocessing")) else ("mod", e.value.id)
            if isinstance(o, tuple) and o and o[0] == "mod":
                hook = getattr(self.c, "attribute", None)
                if hook:
                    return hook(self, o[1], e.attr, env)
                return ("modattr", o[1], e.attr)
            if isinstance(o, Shaped) and e.attr == "shape":
                return o.shape
            hook = getattr(self.c, "attr_of", None)
            if hook:
                return hook(self, o, e.attr)
            raise Unsupported("attribute %s" % ast.unparse(e))
        if isinstance(e, ast.Call):
            return self.call(e, env, pc)
        raise Unsupported("expression %s" % type(e).__name__)

    def compare(self, op, a, b):
        if isinstance(a, (int, bool)) and isinstance(b, (int, bool)):
            import operator as o

            return {ast.Eq: o.eq, ast.NotEq: o.ne, ast.Lt: o.lt, ast.LtE: o.le, ast.Gt: o.gt, ast.GtE: o.ge}[type(op)](a, b)
        a, b = zint(a), zint(b)
        if isinstance(op, ast.Eq):
            return a == b
        if isinstance(op, ast.NotEq):
            return a != b
        if isinstance(op, ast.Lt):
            return a < b
        if isinstance(op, ast.LtE):
            return a <= b
        if isinstance(op, ast.Gt):
            return a > b
        if isinstance(op, ast.GtE):
            return a >= b
        raise Unsupported("comparison")

    def call(self, e, env, pc):
        f = e.func
        args = [self.ev(a, env, pc) for a in e.args]
        kw = {k.arg: self.ev(k.value, env, pc) for k in e.keywords}
        if isinstance(f, ast.Name):
            n = f.id
            if n == "len":
                a = args[0]
                if isinstance(a, ZList):
                    return a.n
                if isinstance(a, Shaped):
                    return a.shape[0]
                return len(a)
            if n == "int":
                return args[0]
            if n == "float":
                return Opaque("float", args[0]) if not isinstance(args[0], str) else Opaque("float", args[0])
            if n == "divmod":
                a, b = args
                if isinstance(a, int) and isinstance(b, int):
                    return divmod(a, b)
                a, b = zint(a), zint(b)
                return (a / b, a % b)
            if n == "max":
                return Opaque("max", *args)
            if n == "range":
                return ("range",) + tuple(args)
        hook = getattr(self.c, "call", None)
        if hook:
            r = hook(self, e, args, kw, env, pc)
            if r is not NotImplemented:
                return r
        raise Unsupported("call %s" % ast.unparse(f))


def fork(env):
    """copy an environment; ZLists keep sharing cells only inside the copy (cells are duplicated consistently)"""
    out = {}
    cellmap = {}
    for k, v in env.items():
        if isinstance(v, ZList):
            c = cellmap.get(id(v.cell))
            if c is None:
                c = Cell(v.cell.arr)
                cellmap[id(v.cell)] = c
            out[k] = ZList(c, v.n, v.kind)
        elif isinstance(v, list):
            out[k] = list(v)
        else:
            out[k] = v
    return out


def relink(old_env, new_env):
    """after havoc, names that shared a cell in old_env must share a cell in new_env too"""
    groups = {}
    for k, v in old_env.items():
        if isinstance(v, ZList):
            groups.setdefault(id(v.cell), []).append(k)
    for names in groups.values():
        names = [n for n in names if isinstance(new_env.get(n), ZList)]
        if len(names) > 1:
            first = new_env[names[0]]
            for n in names[1:]:
                new_env[n] = ZList(first.cell, new_env[n].n, new_env[n].kind)


def havoc_value(v):
    if isinstance(v, ZList):
        return ZList(Cell(fresh_arr("h")), v.n, v.kind)
    if isinstance(v, (int,)) or is_z3(v):
        return fresh_int("h")
    if isinstance(v, list):
        return [havoc_value(x) for x in v]
    if isinstance(v, Opaque):
        return Opaque("havoc", next(_fresh))
    return v


def assigned_names(stmts):
    out = set()
    for s in stmts:
        for n in ast.walk(s):
            if isinstance(n, ast.Name) and isinstance(n.ctx, ast.Store):
                out.add(n.id)
    return out


def stored_names(stmts):
    out = set()
    for s in stmts:
        for n in ast.walk(s):
            if isinstance(n, (ast.Subscript, ast.Attribute)) and isinstance(n.ctx, ast.Store):
                r = n
                while isinstance(r, (ast.Subscript, ast.Attribute)):
                    r = r.value
                if isinstance(r, ast.Name):
                    out.add(r.id)
    return out


def _load(t):
    import copy

    t2 = copy.deepcopy(t)
    for n in ast.walk(t2):
        if hasattr(n, "ctx"):
            n.ctx = ast.Load()
    return t2
