"""E1 symbolic executor over the stated Python subset (DESIGN §3.1), for functions of the index layer.

It executes the *real* AST of a function (re-read from the repository on every run by vt.extract).  Scalars
are Python ints or sympy integer expressions (monomials in dimension atoms); arrays are numpy arrays (dtype
object when they hold symbolic dimensions) or `SymArray`s of symbolic shape.  Branches on symbolic conditions
are decided by z3 under the path condition; when both sides are feasible the path forks (re-execution with a
forced decision trail).  Calls to functions that have a contract use the contract's summary and emit the
call-site precondition obligations; the callee's body is never seen by the caller.
"""
from __future__ import annotations

import ast
import functools
import operator

import numpy as np
import sympy as sp
import z3

from . import sym
from .sym import ConstVec, Num, StridedList, SymArray, SymList, SymRange, Unaligned, Unsupported, as_num

EPS = sp.Rational(1, 2**52)


# ---------------------------------------------------------------------------------------------
# sympy -> z3
# ---------------------------------------------------------------------------------------------
def to_z3(e, cache):
    e = sp.sympify(e)
    if e.is_Integer:
        return z3.IntVal(int(e))
    if e.is_Rational:
        return z3.RealVal(str(e))
    if e.is_Float:
        return z3.RealVal(str(sp.nsimplify(e)))
    if e.is_Symbol:
        if e not in cache:
            cache[e] = z3.Int(e.name)
        return cache[e]
    if e.is_Add:
        return functools.reduce(operator.add, [to_z3(a, cache) for a in e.args])
    if e.is_Mul:
        return functools.reduce(operator.mul, [to_z3(a, cache) for a in e.args])
    if e.is_Pow and e.exp.is_Integer and e.exp > 0:
        return functools.reduce(operator.mul, [to_z3(e.base, cache)] * int(e.exp))
    if isinstance(e, sp.Min):
        a, b = [to_z3(x, cache) for x in e.args[:2]]
        r = z3.If(a < b, a, b)
        for x in e.args[2:]:
            c = to_z3(x, cache)
            r = z3.If(r < c, r, c)
        return r
    if isinstance(e, sp.Max):
        a, b = [to_z3(x, cache) for x in e.args[:2]]
        r = z3.If(a > b, a, b)
        for x in e.args[2:]:
            c = to_z3(x, cache)
            r = z3.If(r > c, r, c)
        return r
    raise Unsupported("to_z3 %r" % (e,))


_REL = {sp.Eq: operator.eq, sp.Ne: operator.ne, sp.Lt: operator.lt, sp.Le: operator.le, sp.Gt: operator.gt, sp.Ge: operator.ge}


def rel_to_z3(r, cache):
    if r is sp.true or r is True:
        return z3.BoolVal(True)
    if r is sp.false or r is False:
        return z3.BoolVal(False)
    if isinstance(r, sp.Not):
        return z3.Not(rel_to_z3(r.args[0], cache))
    if isinstance(r, sp.And):
        return z3.And(*[rel_to_z3(a, cache) for a in r.args])
    if isinstance(r, sp.Or):
        return z3.Or(*[rel_to_z3(a, cache) for a in r.args])
    if isinstance(r, sp.Xor):
        out = rel_to_z3(r.args[0], cache)
        for a in r.args[1:]:
            out = z3.Xor(out, rel_to_z3(a, cache))
        return out
    for k, f in _REL.items():
        if isinstance(r, k):
            return f(to_z3(r.lhs, cache), to_z3(r.rhs, cache))
    raise Unsupported("relation %r" % (r,))


def implicit(cache):
    """sympy symbol assumptions (positive / nonnegative integers) restated for z3, whose Int variables are unconstrained"""
    out = []
    for symb, zv in list(cache.items()):
        if symb.is_positive:
            out.append(zv >= 1)
        elif symb.is_nonnegative:
            out.append(zv >= 0)
    return out


def is_sym(x):
    return isinstance(x, sp.Expr) and not x.is_number


def has_sym(a):
    try:
        return any(isinstance(x, sp.Basic) and not x.is_number for x in np.asarray(a, dtype=object).ravel())
    except Exception:
        return False


def negate(rel):
    if rel is sp.true:
        return sp.false
    if rel is sp.false:
        return sp.true
    return sp.Not(rel) if not isinstance(rel, tuple(_REL)) else rel.negated


# ---------------------------------------------------------------------------------------------
class Ctx:
    """Assumptions (precondition + path condition), obligation log, forced decision trail."""

    def __init__(self, assumptions, forced=()):
        self.assumptions = list(assumptions)
        self.obligations = []  # dicts: kind, text, status, backend, ms
        self.forced = list(forced)
        self.taken = []
        self.solver_ms = 0.0

    def z3_check(self, extra, timeout_ms=10000):
        import time

        cache = {}
        s = z3.Solver()
        s.set("timeout", timeout_ms)
        for a in self.assumptions:
            s.add(rel_to_z3(a, cache))
        for a in extra:
            s.add(rel_to_z3(a, cache))
        s.add(*implicit(cache))
        t = time.time()
        r = s.check()
        self.solver_ms += (time.time() - t) * 1000
        return r, s, cache

    def decide(self, rel, where=""):
        if rel in (True, False):
            return rel
        if rel is sp.true:
            return True
        if rel is sp.false:
            return False
        can_true, _, _ = self.z3_check([rel])
        can_false, _, _ = self.z3_check([negate(rel)])
        if can_true == z3.unsat and can_false == z3.unsat:
            raise Unsupported("contradictory path condition at %s" % where)
        if can_true == z3.unsat:
            self.obligations.append(dict(kind="branch-infeasible", text="%s: %s is impossible" % (where, rel), status="discharged", backend="z3"))
            return False
        if can_false == z3.unsat:
            self.obligations.append(dict(kind="branch-infeasible", text="%s: not(%s) is impossible" % (where, rel), status="discharged", backend="z3"))
            return True
        if can_true == z3.unknown or can_false == z3.unknown:
            raise Unsupported("solver unknown on branch condition %s at %s" % (rel, where))
        # both feasible: fork
        i = len(self.taken)
        choice = self.forced[i] if i < len(self.forced) else True
        self.taken.append(choice)
        self.assumptions.append(rel if choice else negate(rel))
        return choice


class AbsArr:
    """an array tracked by shape only (contents abstracted): arithmetic on it yields another AbsArr"""

    def __init__(self, shape=None):
        self.shape = tuple(shape) if shape is not None else None
        self.pieces = []  # tabulation pieces written by `tabulate` loops: (const axes {axis: int}, free axes [(axis, digit, radix)], value)

    def tabulated(self):
        """the array as a SymArray if tabulate loops have written every entry exactly once (else None)"""
        import itertools as _it

        from . import bilinear

        if not self.pieces or self.shape is None:
            return None
        shape = tuple(sp.sympify(x) for x in self.shape)
        cax = sorted(self.pieces[0][0])
        if any(sorted(p[0]) != cax for p in self.pieces):
            return None
        if any(not shape[a].is_Integer for a in cax):
            return None
        want = set(_it.product(*[range(int(shape[a])) for a in cax]))
        have = [tuple(int(p[0][a]) for a in cax) for p in self.pieces]
        if len(have) != len(set(have)) or set(have) != want:
            return None  # some block was never written, or written twice
        pieces = list(self.pieces)

        def g(idx):
            out = None
            for consts, free, value in pieces:
                sub = {d: (idx[a].value() if isinstance(idx[a], Num) else sp.sympify(idx[a])) for a, d, r in free}
                v = bilinear.subst_value(bilinear.to_poly(value), sub)
                if cax:
                    sel = bilinear.Poly([bilinear.Term(1, [], [(as_num(idx[a], shape[a]), Num([(sp.Integer(int(consts[a])), shape[a])])) for a in cax])])
                    v = bilinear.p_mul(sel, v)
                out = v if out is None else bilinear.p_add(out, v)
            return out

        return SymArray(shape, g, "poly")


class Return(Exception):
    def __init__(self, v):
        self.v = v


class Raised(Exception):
    """The executed function reaches a `raise` statement on a feasible path."""

    def __init__(self, lineno, text):
        super().__init__("raise at line %d: %s" % (lineno, text))
        self.lineno = lineno
        self.text = text


MODULES = {"np", "functools", "operator", "sparse", "sp", "scipy", "itertools", "math"}
BUILTINS = {"len", "int", "isinstance", "sorted", "list", "range", "set", "max", "min", "any", "all", "tuple", "abs", "sum", "float", "enumerate", "zip", "reversed"}
GLOBALS = {"list": "list", "int": "int", "float": "float", "None": None, "True": True, "False": False, "Variable": "Variable", "tuple": "tuple"}


class Interp:
    def __init__(self, funcs, contracts, ctx, facts=None):
        self.funcs = funcs  # name -> ast.FunctionDef executed by body
        self.contracts = contracts  # name -> summary(interp, args, kwargs)
        self.ctx = ctx
        self.depth = 0

    # -- function call by body ---------------------------------------------------------------
    def call_function(self, name, args, kwargs):
        fn = self.funcs[name]
        env = {}
        params = [a.arg for a in fn.args.args]
        defaults = fn.args.defaults
        for p, d in zip(params[len(params) - len(defaults) :], defaults):
            env[p] = self.ev(d, {})
        for p, a in zip(params, args):
            env[p] = a
        for k, v in kwargs.items():
            if k not in params:
                raise Unsupported("unexpected keyword %s" % k)
            env[k] = v
        for p in params:
            if p not in env:
                raise Unsupported("missing argument %s" % p)
        try:
            self.block(fn.body, env)
        except Return as r:
            return r.v
        return None

    def block(self, stmts, env):
        for s in stmts:
            self.stmt(s, env)

    def stmt(self, s, env):
        if isinstance(s, ast.Expr):
            if isinstance(s.value, ast.Constant):
                return
            self.ev(s.value, env)
            return
        if isinstance(s, ast.Pass):
            return
        if isinstance(s, ast.Assign):
            v = self.ev(s.value, env)
            for t in s.targets:
                self.assign(t, v, env)
            return
        if isinstance(s, ast.AnnAssign):
            if s.value is not None:
                self.assign(s.target, self.ev(s.value, env), env)
            return
        if isinstance(s, ast.AugAssign):
            cur = self.ev(_load(s.target), env)
            v = self.binop(s.op, cur, self.ev(s.value, env))
            self.assign(s.target, v, env)
            return
        if isinstance(s, ast.If):
            c = self.truth(self.ev(s.test, env), "line %d" % s.lineno)
            self.block(s.body if c else s.orelse, env)
            return
        if isinstance(s, ast.For):
            it = self.ev(s.iter, env)
            if isinstance(it, SymRange) and isinstance(s.target, ast.Name) and not s.orelse:
                if self.tabulate_loop(s, it, env):
                    return
                self.map_loop(s, it, env)
                return
            if isinstance(it, (SymRange, SymArray, SymList)):
                raise Unsupported("loop with symbolic trip count at line %d" % s.lineno)
            for x in list(it):
                self.assign(s.target, x, env)
                self.block(s.body, env)
            self.block(s.orelse, env)
            return
        if isinstance(s, ast.Return):
            raise Return(self.ev(s.value, env) if s.value else None)
        if isinstance(s, ast.Raise):
            raise Raised(s.lineno, ast.unparse(s)[:120])
        if isinstance(s, ast.Assert):
            c = self.truth(self.ev(s.test, env), "assert line %d" % s.lineno)
            if not c:
                raise Raised(s.lineno, "assert " + ast.unparse(s.test)[:100])
            return
        raise Unsupported("statement %s at line %d" % (type(s).__name__, getattr(s, "lineno", 0)))

    def tabulate_loop(self, s, it, env):
        """a nest `for i1 in range(n1): ... for ik in range(nk): arr[<ints and loop variables>] = f(i1..ik)` over symbolic ranges, the body of
        each level being exactly the next level and the innermost body exactly one subscript store into an array allocated (np.zeros /
        np.ndarray / np.empty) before the nest, every loop variable used as exactly one whole index.  The inductive invariant -- the entries
        visited so far hold f, all others are untouched -- holds by construction for this shape; the store is recorded as a tabulation piece.
        Returns False if the statement is not of this shape (nothing has been executed then)."""
        loops = []
        node = s
        ranges = []
        cur_it = it
        while True:
            if not (isinstance(node, ast.For) and isinstance(node.target, ast.Name) and not node.orelse and len(node.body) == 1):
                return False
            loops.append(node)
            inner = node.body[0]
            if isinstance(inner, ast.For):
                node = inner
                continue
            break
        store = loops[-1].body[0]
        if not (isinstance(store, ast.Assign) and len(store.targets) == 1 and isinstance(store.targets[0], ast.Subscript) and isinstance(store.targets[0].value, ast.Name)):
            return False
        arr = env.get(store.targets[0].value.id)
        if not isinstance(arr, AbsArr) or arr.shape is None:
            return False
        env2 = dict(env)
        digits = []
        for k, lp in enumerate(loops):
            r = it if k == 0 else self.ev(lp.iter, env2)
            if not isinstance(r, SymRange):
                return False
            d = sym.world().fresh_digit("q", r.n)
            env2[lp.target.id] = d
            digits.append((lp.target.id, d, sp.sympify(r.n)))
        sl = store.targets[0].slice
        comps = list(sl.elts) if isinstance(sl, ast.Tuple) else [sl]
        if len(comps) != len(arr.shape):
            return False
        consts, free, used = {}, [], set()
        for a, c in enumerate(comps):
            v = self.ev(c, env2)
            hit = [t for t in digits if v is t[1] or (isinstance(v, sp.Symbol) and v == t[1])]
            if hit:
                name, d, r = hit[0]
                if name in used or not sym.same(r, arr.shape[a]):
                    return False
                used.add(name)
                free.append((a, d, r))
            elif isinstance(v, (int, np.integer)) or (isinstance(v, sp.Expr) and v.is_Integer):
                consts[a] = int(v)
            else:
                return False
        if len(used) != len(digits):
            return False
        value = self.ev(store.value, env2)
        arr.pieces.append((consts, free, value))
        for name, d, r in digits:
            env[name] = r - 1
        return True

    def map_loop(self, s, it, env):
        """`for i in range(n): <locals>; lst.append(f(i))` with symbolic n and lst empty before the loop.
        Invariant (by construction of the pattern): after k iterations lst == [f(0), .., f(k-1)] and nothing else visible changed; the body is
        executed once for a fresh universally quantified i in [0, n) and must (a) append exactly one element to exactly one list that was empty,
        (b) rebind no name that existed before the loop, (c) contain no return / break / continue.  Anything else leaves the subset."""
        from . import bilinear

        for node in ast.walk(s):
            if isinstance(node, (ast.Return, ast.Break, ast.Continue, ast.While)):
                raise Unsupported("symbolic loop with control transfer at line %d" % s.lineno)
        n = it.n
        i = sym.world().fresh_digit("i", n)
        before = {k: v for k, v in env.items()}
        lists = {id(v): (k, len(v)) for k, v in env.items() if isinstance(v, list)}
        env2 = dict(env)
        env2[s.target.id] = i
        self.block(s.body, env2)
        grown = []
        for k, v in before.items():
            if env2.get(k) is not v:
                raise Unsupported("symbolic loop rebinds the outer name %s at line %d" % (k, s.lineno))
            if isinstance(v, list):
                if len(v) == lists[id(v)][1] + 1:
                    grown.append(k)
                elif len(v) != lists[id(v)][1]:
                    raise Unsupported("symbolic loop changes the length of %s by more than one" % k)
        if len(grown) != 1 or len(before[grown[0]]) != 1:
            raise Unsupported("symbolic loop at line %d is not a single append to an empty list" % s.lineno)
        name = grown[0]
        elem = before[name].pop()  # restore the caller-visible list object, then rebind the name to the symbolic list
        if not isinstance(elem, SymArray):
            raise Unsupported("symbolic loop appends a non-array")

        def at(j, elem=elem, i=i):
            jv = j.value() if isinstance(j, Num) else sp.sympify(j)
            if jv == i:
                return elem
            return bilinear.subst_array(elem, {i: jv})

        env[name] = SymList(n, at, "arrays")
        env[s.target.id] = n - 1

    def assign(self, t, v, env):
        if isinstance(t, ast.Name):
            env[t.id] = v
            return
        if isinstance(t, (ast.Tuple, ast.List)):
            vs = list(v)
            if len(vs) != len(t.elts):
                raise Unsupported("unpack arity")
            for tt, vv in zip(t.elts, vs):
                self.assign(tt, vv, env)
            return
        if isinstance(t, ast.Subscript):
            obj = self.ev(t.value, env)
            key = self.ev_slice(t.slice, env)
            if isinstance(obj, np.ndarray):
                if has_sym(v) and obj.dtype != object:
                    raise Unsupported("store of a symbolic value into a numeric array")
                obj[key] = v
                return
            if isinstance(obj, list):
                obj[key] = v
                return
        raise Unsupported("assignment target %s" % ast.unparse(t))

    def truth(self, v, where=""):
        if isinstance(v, (bool, np.bool_)):
            return bool(v)
        if isinstance(v, sp.Basic):
            if v is sp.true:
                return True
            if v is sp.false:
                return False
            if isinstance(v, sp.Expr) and v.is_number:
                return bool(v != 0)
            return self.ctx.decide(v, where)
        if isinstance(v, (SymArray, SymList, SymRange, ConstVec)):
            raise Unsupported("truth value of a symbolic container")
        if isinstance(v, np.ndarray) and v.size != 1:
            raise Unsupported("truth value of an array")
        return bool(v)

    def ev_slice(self, sl, env):
        if isinstance(sl, ast.Tuple):
            return tuple(self.ev_slice(e, env) for e in sl.elts)
        if isinstance(sl, ast.Slice):
            return slice(*[self.ev(x, env) if x is not None else None for x in (sl.lower, sl.upper, sl.step)])
        return self.ev(sl, env)

    def binop(self, op, a, b):
        from .sym import Entry as _Entry

        if isinstance(a, _Entry) or isinstance(b, _Entry) or type(a).__name__ == "Poly" or type(b).__name__ == "Poly":
            from . import bilinear

            if isinstance(op, ast.Mult):
                return bilinear.p_mul(a, b)
            if isinstance(op, ast.Add):
                return bilinear.p_add(a, b)
            if isinstance(op, ast.Sub):
                return bilinear.p_add(a, bilinear.p_mul(bilinear.Poly([bilinear.Term(-1)]), b))
            if isinstance(op, ast.Pow) and isinstance(b, _Entry) and isinstance(a, (int, sp.Integer)) and not b.conj:
                return _Entry("(%d)**%s" % (int(a), b.name), b.idx)  # an entrywise function of one input array: a derived input array
            raise Unsupported("operator %s on array entries" % type(op).__name__)
        if isinstance(op, (ast.BitXor, ast.BitAnd, ast.BitOr)) and isinstance(a, (int, np.integer)) and isinstance(b, (int, np.integer)):
            return {ast.BitXor: operator.xor, ast.BitAnd: operator.and_, ast.BitOr: operator.or_}[type(op)](int(a), int(b))
        if isinstance(a, AbsArr) or isinstance(b, AbsArr):
            return AbsArr(a.shape if isinstance(a, AbsArr) else b.shape)
        if isinstance(op, ast.Div):
            if isinstance(a, (int, np.integer)) and isinstance(b, (int, np.integer)) and not isinstance(a, bool):
                return sp.Rational(int(a), int(b)) if int(a) % int(b) else int(a) // int(b)
            if isinstance(a, (sp.Expr, int, np.integer)) and isinstance(b, (sp.Expr, int, np.integer)):
                return sp.cancel(sp.sympify(a) / sp.sympify(b))
        if isinstance(op, ast.Pow) and isinstance(a, (sp.Expr, int)) and isinstance(b, (sp.Expr, int)):
            r = sp.powdenest(sp.Pow(sp.sympify(a), sp.sympify(b)), force=False)
            r = sp.simplify(r) if (isinstance(b, sp.Rational) and not b.is_Integer) else r
            return int(r) if r.is_Integer else r
        if isinstance(a, AbsArr) or isinstance(b, AbsArr):
            return AbsArr(a.shape if isinstance(a, AbsArr) else b.shape)
        f = {
            ast.Add: operator.add,
            ast.Sub: operator.sub,
            ast.Mult: operator.mul,
            ast.Div: operator.truediv,
            ast.Pow: operator.pow,
            ast.FloorDiv: operator.floordiv,
            ast.Mod: operator.mod,
            ast.MatMult: operator.matmul,
        }.get(type(op))
        if f is None:
            raise Unsupported("operator %s" % type(op).__name__)
        if isinstance(a, AbsArr) or isinstance(b, AbsArr):
            return AbsArr(a.shape if isinstance(a, AbsArr) else b.shape)
        if isinstance(a, SymArray) and isinstance(b, SymArray) and isinstance(op, (ast.MatMult, ast.Add)):
            from . import bilinear

            return bilinear.matmul(a, b) if isinstance(op, ast.MatMult) else bilinear.add_arrays(a, b)
        if isinstance(a, SymArray) and isinstance(b, SymArray) and isinstance(op, ast.Sub):
            from . import bilinear

            return bilinear.add_arrays(a, bilinear.scale(-1, b))

        def _scalar(x):
            return isinstance(x, (int, float, sp.Expr)) and not isinstance(x, bool)

        if isinstance(a, SymArray) and _scalar(b) and isinstance(op, (ast.Mult, ast.Div)):
            from . import bilinear

            return bilinear.scale(sp.nsimplify(b) if isinstance(op, ast.Mult) else 1 / sp.nsimplify(b), a)
        if isinstance(b, SymArray) and _scalar(a) and isinstance(op, ast.Mult):
            from . import bilinear

            return bilinear.scale(sp.nsimplify(a), b)
        if isinstance(a, (SymArray,)) or isinstance(b, (SymArray,)):
            raise Unsupported("arithmetic on a symbolic-shape array")
        if isinstance(op, (ast.FloorDiv, ast.Mod)) and (is_sym(a) or is_sym(b)):
            q = sp.cancel(sp.sympify(a) / sp.sympify(b))
            if sp.denom(q) == 1 and isinstance(op, ast.FloorDiv):
                return q
            if sp.denom(q) == 1:
                return 0
            raise Unsupported("symbolic // or %% that does not cancel")
        return f(a, b)

    def compare(self, op, a, b):
        from .sym import Entry as _Entry

        if isinstance(op, ast.Eq) and ((isinstance(a, _Entry) and isinstance(b, (int, np.integer))) or (isinstance(b, _Entry) and isinstance(a, (int, np.integer)))):
            e_, c_ = (a, b) if isinstance(a, _Entry) else (b, a)
            if e_.conj:
                raise Unsupported("comparison of a conjugated entry")
            return _Entry("[%s==%d]" % (e_.name, int(c_)), e_.idx)  # the 0/1 indicator array of `input == c`: a derived input array
        if isinstance(op, ast.Is):
            return a is b
        if isinstance(op, ast.IsNot):
            return a is not b
        if isinstance(op, (ast.In, ast.NotIn)):
            r = a in b
            return r if isinstance(op, ast.In) else not r
        if isinstance(a, (list, tuple)) and isinstance(b, (list, tuple)) and (has_sym(a) or has_sym(b)):
            if len(a) != len(b):
                return isinstance(op, ast.NotEq)
            rels = [self.compare(ast.Eq(), x, y) for x, y in zip(a, b)]
            conj = sp.And(*[sp.sympify(r) if isinstance(r, (bool, np.bool_)) else r for r in rels])
            return conj if isinstance(op, ast.Eq) else sp.Not(conj)
        symbolic = is_sym(a) or is_sym(b)
        if symbolic:
            a, b = sp.sympify(a), sp.sympify(b)
            return {ast.Eq: sp.Eq, ast.NotEq: sp.Ne, ast.Lt: sp.Lt, ast.LtE: sp.Le, ast.Gt: sp.Gt, ast.GtE: sp.Ge}[type(op)](a, b)
        f = {ast.Eq: operator.eq, ast.NotEq: operator.ne, ast.Lt: operator.lt, ast.LtE: operator.le, ast.Gt: operator.gt, ast.GtE: operator.ge}[type(op)]
        r = f(a, b)
        if isinstance(r, sp.Basic):
            return bool(r)
        return r

    # -- expressions ------------------------------------------------------------------------
    def ev(self, e, env):
        if isinstance(e, ast.Constant):
            return e.value
        if isinstance(e, ast.Name):
            if e.id in env:
                return env[e.id]
            if e.id in GLOBALS:
                return GLOBALS[e.id]
            if e.id in MODULES:
                return ("modattr", "", e.id)
            raise Unsupported("name " + e.id)
        if isinstance(e, ast.Tuple):
            return tuple(self.ev(x, env) for x in e.elts)
        if isinstance(e, ast.List):
            return [self.ev(x, env) for x in e.elts]
        if isinstance(e, ast.BinOp):
            return self.binop(e.op, self.ev(e.left, env), self.ev(e.right, env))
        if isinstance(e, ast.UnaryOp):
            v = self.ev(e.operand, env)
            if isinstance(e.op, ast.Not):
                return not self.truth(v, "not at line %d" % e.lineno)
            if isinstance(e.op, ast.USub):
                return -v
            if isinstance(e.op, ast.UAdd):
                return v
        if isinstance(e, ast.BoolOp):
            if isinstance(e.op, ast.Or):
                for x in e.values:
                    if self.truth(self.ev(x, env), "or at line %d" % e.lineno):
                        return True
                return False
            for x in e.values:
                if not self.truth(self.ev(x, env), "and at line %d" % e.lineno):
                    return False
            return True
        if isinstance(e, ast.Compare):
            left = self.ev(e.left, env)
            result = True
            for op, c in zip(e.ops, e.comparators):
                right = self.ev(c, env)
                r = self.compare(op, left, right)
                if len(e.ops) == 1:
                    return r
                if not self.truth(r, "chained compare line %d" % e.lineno):
                    return False
                left = right
            return result
        if isinstance(e, ast.IfExp):
            c = self.truth(self.ev(e.test, env), "ifexp line %d" % e.lineno)
            return self.ev(e.body if c else e.orelse, env)
        if isinstance(e, ast.Attribute):
            if isinstance(e.value, ast.Name) and e.value.id in MODULES and e.value.id not in env:
                return ("modattr", e.value.id, e.attr)
            o = self.ev(e.value, env)
            if isinstance(o, tuple) and len(o) == 3 and o[0] == "modattr":
                return ("modattr", (o[1] + "." if o[1] else "") + o[2], e.attr)
            if isinstance(o, SymArray):
                if e.attr == "shape":
                    return tuple(int(x) if sp.sympify(x).is_Integer else x for x in o.shape)
                if e.attr == "T":
                    return o.T
                if e.attr == "ndim":
                    return o.ndim
                if e.attr == "size":
                    return o.size()
                if e.attr == "dtype":
                    return "dtype-of-input"
                return ("method", o, e.attr)
            if isinstance(o, AbsArr):
                if e.attr == "shape":
                    if o.shape is None:
                        raise Unsupported("shape of an abstracted array")
                    return o.shape
                raise Unsupported("attribute %s of an abstracted array" % e.attr)
            if isinstance(o, np.ndarray):
                if e.attr in ("astype", "tolist", "flatten", "copy", "reshape", "transpose", "ravel"):
                    return ("npmethod", o, e.attr)
                return getattr(o, e.attr)
            if isinstance(o, list):
                return ("pymethod", o, e.attr)
            import types as _types

            if isinstance(o, _types.SimpleNamespace):
                if not hasattr(o, e.attr):
                    raise Unsupported("attribute %s of the object" % e.attr)
                return getattr(o, e.attr)
            if isinstance(o, _Finfo) and e.attr == "eps":
                return EPS
            raise Unsupported("attribute %s on %s" % (e.attr, type(o).__name__))
        if isinstance(e, ast.Subscript):
            o = self.ev(e.value, env)
            k = self.ev_slice(e.slice, env)
            if isinstance(o, SymArray):
                r_ = sym.getitem(o, k)
                return r_.get(()) if r_.ndim == 0 else r_  # a fully indexed array is its entry
            if isinstance(o, ConstVec):
                return o[k]
            if isinstance(o, SymList):
                if isinstance(k, slice) and (k.start, k.stop, k.step) == (None, None, None):
                    return o
                raise Unsupported("index into a symbolic list")
            if isinstance(k, sp.Integer):
                k = int(k)
            return o[k]
        if isinstance(e, ast.Call):
            return self.call(e, env)
        if isinstance(e, ast.NamedExpr):
            v = self.ev(e.value, env)
            env[e.target.id] = v
            return v
        if isinstance(e, (ast.ListComp, ast.GeneratorExp)) and len(e.generators) == 1 and not e.generators[0].ifs:
            g = e.generators[0]
            it = self.ev(g.iter, env)
            if isinstance(it, SymRange) and isinstance(g.target, ast.Name):
                # [f(i) for i in range(n)] with symbolic n: the list of f(i), i a fresh universally quantified position (same reading as map_loop)
                from . import bilinear

                n = it.n
                i = sym.world().fresh_digit("i", n)
                env2 = dict(env)
                env2[g.target.id] = i
                elem = self.ev(e.elt, env2)
                if not isinstance(elem, SymArray):
                    raise Unsupported("comprehension over a symbolic range yields a non-array")

                def at(j, elem=elem, i=i):
                    jv = j.value() if isinstance(j, Num) else sp.sympify(j)
                    return elem if jv == i else bilinear.subst_array(elem, {i: jv})

                return SymList(n, at, "arrays")
            if isinstance(it, (SymRange, SymArray, SymList)):
                raise Unsupported("comprehension over a symbolic domain")
            out = []
            env2 = dict(env)
            for x in list(it):
                self.assign(g.target, x, env2)
                out.append(self.ev(e.elt, env2))
            return out
        raise Unsupported("expression %s" % type(e).__name__)

    def call(self, e, env):
        if isinstance(e.func, ast.Name) and e.func.id not in env and (e.func.id in BUILTINS or e.func.id in self.funcs or e.func.id in self.contracts):
            f = ("name", e.func.id)
        else:
            f = self.ev(e.func, env)
        args = []
        for a in e.args:
            if isinstance(a, ast.Starred):
                args.extend(list(self.ev(a.value, env)))
            else:
                args.append(self.ev(a, env))
        kw = {k.arg: self.ev(k.value, env) for k in e.keywords}
        if not isinstance(f, tuple):
            raise Unsupported("call of %r" % (f,))
        if f[0] == "name":
            n = f[1]
            if n in self.contracts:
                return self.contracts[n](self, args, kw)
            if n in self.funcs:
                return self.call_function(n, args, kw)
            return self.builtin(n, args, kw)
        if f[0] == "method":
            _, o, m = f
            if m == "reshape":
                shape = args[0] if len(args) == 1 and isinstance(args[0], (tuple, list, np.ndarray)) else args
                return o.reshape([_intify(x) for x in shape], order=kw.get("order", "C"))
            if m == "transpose":
                return o.transpose(args[0] if len(args) == 1 and isinstance(args[0], (tuple, list, np.ndarray)) else (args or None))
            if m == "astype":
                return o
            if m == "toarray":
                return o
            if m in ("conj", "conjugate"):
                return o.conj()
            if m == "copy":
                return o
            if m in ("flatten", "ravel") and not args and not kw:
                return o.reshape((o.size(),), "C")
            raise Unsupported("method " + m)
        if f[0] == "npmethod":
            _, o, m = f
            if m == "astype":
                if o.dtype == object:
                    return o
                return o.astype(*[_pytype(a) for a in args])
            return getattr(o, m)(*args, **kw)
        if f[0] == "pymethod":
            return getattr(f[1], f[2])(*args, **kw)
        if f[0] == "modattr":
            q = (f[1] + "." if f[1] else "") + f[2]
            return self.modcall(q, args, kw)
        raise Unsupported("call %r" % (f,))

    def builtin(self, n, args, kw):
        if n == "len":
            a = args[0]
            if isinstance(a, SymArray):
                return a.shape[0]
            if isinstance(a, (SymList, ConstVec, SymRange)):
                return a.n
            return len(a)
        if n == "int":
            a = args[0]
            if isinstance(a, sp.Expr):
                if a.is_Integer:
                    return int(a)
                return a  # S-float-dims: identity on integral monomials
            return int(a)
        if n == "float":
            return args[0]
        if n == "isinstance":
            o, t = args

            def tn(t):
                return t[2] if isinstance(t, tuple) and len(t) == 3 and t[0] == "modattr" else t

            ts = [tn(x) for x in t] if isinstance(t, tuple) and not (len(t) == 3 and t[0] == "modattr") else [tn(t)]
            return any(self._isinstance(o, x) for x in ts)
        if n == "sorted":
            return sorted(_concrete_list(args[0]))
        if n == "set":
            return set(int(x) for x in args[0])
        if n == "tuple":
            return tuple(args[0])
        if n == "list":
            a = args[0]
            if isinstance(a, SymRange):
                return SymList(a.n, lambda i: i, "index")
            if isinstance(a, (StridedList, SymList)):
                return a
            return list(a)
        if n == "range":
            if any(is_sym(a) for a in args):
                if len(args) == 3:
                    lo, hi, st = args
                    T = sp.sympify(st) - 1
                    if lo == 0 and sp.expand(sp.sympify(hi) - T * T) == 0:
                        return StridedList(T)
                    raise Unsupported("symbolic strided range")
                return SymRange(args[0], args[1]) if len(args) == 2 else SymRange(0, args[0])
            return range(*[int(a) for a in args])
        if n in ("max", "min"):
            a = args[0] if len(args) == 1 else args
            a = list(a)
            if has_sym(a):
                return (sp.Max if n == "max" else sp.Min)(*a)
            return (max if n == "max" else min)(a)
        if n == "any":
            return any(self.truth(x, "any()") for x in args[0])
        if n == "all":
            return all(self.truth(x, "all()") for x in args[0])
        if n == "abs":
            return abs(args[0])
        if n == "sum":
            acc = args[1] if len(args) > 1 else 0
            for x in args[0]:
                acc = x if (isinstance(acc, int) and acc == 0 and isinstance(x, SymArray)) else self.binop(ast.Add(), acc, x)
            return acc
        if n == "enumerate":
            return list(enumerate(args[0]))
        if n == "zip":
            return list(zip(*args))
        if n == "reversed":
            return list(reversed(args[0]))
        raise Unsupported("builtin " + n)

    def _isinstance(self, o, t):
        if t == "Variable" or t == "Expression":
            return False
        if t == "ndarray":
            return isinstance(o, (SymArray, np.ndarray))
        if t == "int":
            if isinstance(o, sp.Expr):
                return bool(o.is_integer)
            return isinstance(o, (int,)) and not isinstance(o, bool)
        if t == "float":
            if isinstance(o, sp.Symbol):
                return bool(o.is_real) and o.is_integer is not True  # a real parameter symbol stands for a Python float
            return isinstance(o, float)
        if t == "list":
            return isinstance(o, list)
        if t == "tuple":
            return isinstance(o, tuple)
        raise Unsupported("isinstance against %r" % (t,))

    def modcall(self, q, args, kw):
        if q in self.contracts:
            return self.contracts[q](self, args, kw)
        if q in ("np.min", "np.max", "np.amin", "np.amax"):
            a = list(np.asarray(args[0], dtype=object).ravel())
            if has_sym(a):
                return (sp.Min if "min" in q else sp.Max)(*a)
            return (min if "min" in q else max)(a)
        if q == "np.array":
            a = args[0]
            if isinstance(a, SymList):
                return SymArray((a.n,), lambda idx: a.elem(as_num(idx[0], a.n)), a.kind)
            if isinstance(a, (SymArray, AbsArr)):
                return a
            if isinstance(a, range):
                a = list(a)
            return np.array(a, dtype=object) if has_sym(a) else np.array(a)
        if q == "np.asarray":
            a = args[0]
            if isinstance(a, (SymArray, np.ndarray)):
                return a
            return np.array(a, dtype=object) if has_sym(a) else np.asarray(a)
        if q in ("np.zeros", "np.empty") and kw.get("dtype") == "int" and not has_sym(args[0] if isinstance(args[0], (tuple, list)) else [args[0]]):
            # an integer work array of concrete shape: modelled with unbounded integers (S-int-math), so it can hold dimension symbols
            out = np.empty(args[0] if not isinstance(args[0], sp.Integer) else int(args[0]), dtype=object)
            out.fill(0)
            return out
        if q in ("np.vstack", "np.stack") and isinstance(args[0], (list, tuple)) and args[0] and all(isinstance(a, SymArray) and a.ndim == 1 for a in args[0]) and (q == "np.vstack" or kw.get("axis", args[1] if len(args) > 1 else 0) == 0):
            from . import bilinear

            return bilinear.stack_rows(list(args[0]))
        if q == "np.vstack" and all(isinstance(a, np.ndarray) for a in args[0]):
            return np.vstack(list(args[0]))
        if q == "np.any" and isinstance(args[0], (np.ndarray, bool, np.bool_)):
            vals = list(np.asarray(args[0], dtype=object).ravel())
            if all(isinstance(v, (bool, np.bool_)) for v in vals):
                return any(vals)
            return sp.Or(*[sp.sympify(bool(v)) if isinstance(v, (bool, np.bool_)) else v for v in vals])
        if q in ("np.zeros", "np.empty", "np.ndarray"):
            shp = args[0]
            if has_sym(shp if isinstance(shp, (tuple, list)) else [shp]):
                return AbsArr(tuple(shp) if isinstance(shp, (tuple, list)) else (shp,))
            return np.zeros(shp if not isinstance(shp, tuple) else tuple(int(x) for x in shp))
        if q == "np.eye":
            n = args[0]
            if is_sym(n) and len(args) == 1 and set(kw) <= {"dtype"}:
                return sym.identity(n)
            if is_sym(n):
                return AbsArr((n, n))
            return np.eye(int(n))
        if q in ("np.linalg.qr", "np.linalg.svd", "np.linalg.eigh"):
            return AbsArr(None)
        if q == "np.arange":
            if len(args) == 1 and is_sym(args[0]):
                return sym.arange(args[0])
            return np.arange(*[int(a) for a in args])
        if q == "math.factorial":
            import math

            return math.factorial(int(args[0]))
        if q == "np.ones":
            shp = args[0]
            if isinstance(shp, sp.Expr) and is_sym(shp):
                return ConstVec(shp, sp.Integer(1))
            if isinstance(shp, sp.Integer):
                shp = int(shp)
            if isinstance(shp, tuple):
                shp = tuple(int(x) for x in shp)
            return np.full(shp, sp.Integer(1), dtype=object)
        if q == "np.prod":
            a = args[0]
            if isinstance(a, sp.Expr):
                return a
            if has_sym(a):
                r = sp.Integer(1)
                for x in np.asarray(a, dtype=object).ravel():
                    r *= x
                return r
            r = np.prod(a)
            return r
        if q == "np.transpose":
            if isinstance(args[0], SymArray):
                return args[0].transpose(args[1] if len(args) > 1 else kw.get("axes"))
            return np.transpose(*args, **kw)
        if q == "np.argsort":
            return np.argsort(np.asarray(args[0]).astype(int))
        if q == "np.reshape":
            if isinstance(args[0], SymArray):
                shp = args[1] if len(args) > 1 else kw.get("newshape", kw.get("shape"))
                return args[0].reshape([_intify(x) for x in shp], order=kw.get("order", "C"))
            return np.reshape(*args, **kw)
        if q == "np.sum":
            a = args[0]
            if isinstance(a, SymArray):
                return sym.sym_sum(a, kw["axis"] if "axis" in kw else args[1])
            if isinstance(a, list) and a and all(isinstance(x, SymArray) for x in a) and kw.get("axis", args[1] if len(args) > 1 else None) == 0:
                from . import bilinear

                out = a[0]
                for x in a[1:]:
                    out = bilinear.add_arrays(out, x)
                return out
            return np.sum(*args, **kw)
        if q == "np.sqrt":
            a = args[0]
            if isinstance(a, sp.Expr):
                return sp.sqrt(a)
            if has_sym(a):
                arr = np.asarray(a, dtype=object)
                out = np.empty(arr.shape, dtype=object)
                for i, x in np.ndenumerate(arr):
                    out[i] = _sqrt(x)
                return out
            return np.sqrt(a)
        if q == "np.round":
            return args[0]  # S-float-dims: identity on integral values
        if q == "np.abs":
            a = args[0]
            if isinstance(a, sp.Expr):
                return sp.Abs(a) if not (a.is_nonnegative) else a
            if isinstance(a, np.ndarray) and a.dtype == object:
                out = np.empty(a.shape, dtype=object)
                for i, x in np.ndenumerate(a):
                    x = sp.sympify(x)
                    out[i] = x if x.is_nonnegative else sp.Abs(x)
                return out
            return np.abs(a)
        if q == "np.finfo":
            return _Finfo()
        if q == "np.flipud":
            return np.flipud(args[0])
        if q == "np.int_":
            return args[0]
        if q == "np.identity":
            n = args[0]
            if is_sym(n):
                return sym.identity(n)
            return sym.identity(sp.Integer(int(n)))
        if q in ("np.conjugate", "np.conj") and isinstance(args[0], SymArray):
            return args[0].conj()
        if q == "np.outer" and all(isinstance(a, SymArray) for a in args[:2]):
            from . import bilinear

            return bilinear.outer(args[0], args[1])
        if q == "np.column_stack" and isinstance(args[0], (list, tuple)) and args[0] and all(isinstance(a, SymArray) for a in args[0]):
            from . import bilinear

            return bilinear.column_stack(list(args[0]))
        if q == "np.dot" and all(isinstance(a, SymArray) and a.ndim == 2 for a in args[:2]):
            from . import bilinear

            return bilinear.matmul(args[0], args[1])
        if q == "np.trace" and isinstance(args[0], SymArray) and len(args) == 1:
            from . import bilinear

            return bilinear.trace_scalar(args[0])
        if q == "np.diag" and isinstance(args[0], SymArray) and len(args) == 1:
            from . import bilinear

            return bilinear.diag(args[0])
        if q == "np.kron" and all(isinstance(a, SymArray) for a in args[:2]):
            from . import bilinear

            return bilinear.kron(args[0], args[1])
        if q == "np.concatenate" and isinstance(args[0], (list, tuple)) and args[0] and all(isinstance(a, SymArray) for a in args[0]):
            from . import bilinear

            return bilinear.concatenate(list(args[0]), int(kw.get("axis", args[1] if len(args) > 1 else 0)))
        if q == "np.matmul" and all(isinstance(a, SymArray) for a in args[:2]):
            from . import bilinear

            return bilinear.matmul(args[0], args[1])
        if q == "itertools.permutations" and len(args) == 1:
            import itertools as _it

            return list(_it.permutations([int(x) for x in args[0]]))
        if q == "itertools.chain":
            out = []
            for a in args:
                out += list(a)
            return out
        if q in ("sparse.issparse", "sp.sparse.issparse", "scipy.sparse.issparse"):
            return False
        if q in ("sp.sparse.identity", "sparse.identity", "scipy.sparse.identity"):
            raise Unsupported("sparse identity (sparse branch is covered by E3 only)")
        if q == "functools.reduce":
            fn, seq, init = args
            if fn == ("modattr", "operator", "iconcat") and isinstance(seq, SymArray) and seq.ndim == 2 and init == []:
                if seq.shape[0] != 1:
                    raise Unsupported("flatten of more than one row")
                return SymList(seq.shape[1], lambda i: seq.get((sp.Integer(0), i)), seq.kind)
            if fn == ("modattr", "operator", "iconcat") and isinstance(seq, np.ndarray):
                return functools.reduce(operator.iconcat, [list(x) for x in seq], [])
        raise Unsupported("call of " + q)


class _Finfo:
    eps = EPS


def _sqrt(x):
    x = sp.sympify(x)
    r = sp.sqrt(x)
    r2 = sp.powdenest(r, force=True)
    return r2


def _intify(x):
    if isinstance(x, (np.integer,)):
        return int(x)
    return x


def _pytype(a):
    if a == "int":
        return int
    if a == "float":
        return float
    return a


def _concrete_list(a):
    if isinstance(a, np.ndarray):
        return [int(x) for x in a.tolist()]
    return list(a)


def _load(t):
    import copy

    t2 = copy.deepcopy(t)
    for n in ast.walk(t2):
        if hasattr(n, "ctx"):
            n.ctx = ast.Load()
    return t2


# ---------------------------------------------------------------------------------------------
def explore_paths(run_one, max_paths=64):
    """run_one(forced) -> (ctx, outcome).  Enumerates every feasible path by re-execution."""
    pending = [[]]
    results = []
    while pending:
        if len(results) >= max_paths:
            raise Unsupported("more than %d paths" % max_paths)
        forced = pending.pop()
        ctx, outcome = run_one(forced)
        results.append((ctx, outcome))
        for i in range(len(forced), len(ctx.taken)):
            pending.append(ctx.taken[:i] + [not ctx.taken[i]])
    return results
