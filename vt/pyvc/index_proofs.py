"""E1-array proof instances for the index layer (C01-C03, C16): for each function under contract, enumerate the
(n, permutation / subset, flags, calling form) instances, and per instance prove the contract for ALL local dimensions
and ALL entry values.  The number of subsystems and the permutation are enumerated (stated bound)."""
from __future__ import annotations

import itertools
import multiprocessing as mp
import os
import time

import numpy as np
import sympy as sp

from contracts import index_layer as IL
from vt import extract
from vt.common import NCPU
from vt.pyvc import sym
from vt.pyvc.driver import verify_instance
from vt.pyvc.interp import AbsArr
from vt.pyvc.sym import Entry, SymArray

FILES = {
    "vec": ("toqito/matrix_ops/vec.py", "vec"),
    "unvec": ("toqito/matrix_ops/unvec.py", "unvec"),
    "permute_systems": ("toqito/perms/permute_systems.py", "permute_systems"),
    "swap": ("toqito/perms/swap.py", "swap"),
    "permutation_operator": ("toqito/perms/permutation_operator.py", "permutation_operator"),
    "swap_operator": ("toqito/perms/swap_operator.py", "swap_operator"),
    "partial_trace": ("toqito/channels/partial_trace.py", "partial_trace"),
    "partial_transpose": ("toqito/channels/partial_transpose.py", "partial_transpose"),
    "realignment": ("toqito/channels/realignment.py", "realignment"),
    "symmetric_projection": ("toqito/perms/symmetric_projection.py", "symmetric_projection"),
    "antisymmetric_projection": ("toqito/perms/antisymmetric_projection.py", "antisymmetric_projection"),
}

SUMMARIES = {
    "vec": IL.summary_vec,
    "permute_systems": IL.summary_permute_systems,
    "swap": IL.summary_swap,
    "partial_trace": IL.summary_partial_trace,
    "partial_transpose": IL.summary_partial_transpose,
    "perm_sign": IL.summary_perm_sign,
    "permutation_operator": IL.summary_permutation_operator,
    "permutations": lambda interp, args, kw: list(itertools.permutations(*[list(a) if not isinstance(a, int) else a for a in args])),
    "orth": lambda interp, args, kw: AbsArr(None),
}

# which callee contracts each function's verification may use (callers never see callee bodies)
CALLEES = {
    "vec": [],
    "unvec": [],
    "permute_systems": ["vec", "permute_systems"],
    "swap": ["permute_systems"],
    "permutation_operator": ["permute_systems"],
    "swap_operator": ["swap"],
    "partial_trace": ["permute_systems"],
    "partial_transpose": ["permute_systems"],
    "realignment": ["swap", "partial_transpose"],
    "symmetric_projection": ["permutation_operator", "permutations", "orth"],
    "antisymmetric_projection": ["perm_sign", "permutation_operator", "permutations", "orth"],
}


class Sources:
    """functions under contract, re-read from the repository (or from an in-memory mutant)"""

    def __init__(self, overrides=None):
        self.src = {}
        self.fn = {}
        for name, (rel, qual) in FILES.items():
            s = (overrides or {}).get(name) or extract.Source(rel)
            self.src[name] = s
            self.fn[name] = s.function(qual)

    def info(self, names):
        return [self.src[n].info(FILES[n][1]) for n in names]


def atoms(prefix, n):
    return [sp.Symbol("%s%d" % (prefix, i), integer=True, positive=True) for i in range(n)]


def X_of(shape, name="X"):
    return SymArray(shape, (lambda nm: (lambda idx: Entry(nm, idx)))(name))


def _prod(xs):
    r = sp.Integer(1)
    for x in xs:
        r *= x
    return r


def batteries(n):
    base = [[2, 3, 4, 2, 3, 2], [3, 2, 2, 3, 2, 4]]
    return [b[:n] for b in base]


def dims_from_model(model, prefix, n):
    if not model:
        return None
    try:
        return [max(1, int(model["%s%d" % (prefix, i)])) for i in range(n)]
    except (KeyError, ValueError, TypeError):
        return None


# ---------------------------------------------------------------------------------------------
# instance builders: each returns (label, thunk) where thunk(sources) -> (records, solver_ms, replay_cases)
# ---------------------------------------------------------------------------------------------
def _contracts_for(name):
    return {c: SUMMARIES[c] for c in CALLEES[name]}


def inst_vec(shape_rank):
    def run(S):
        a = atoms("m", shape_rank)

        def mk():
            return [X_of(tuple(a), "M")], {}, [sp.Ge(x, 1) for x in a]

        recs, ms = verify_instance("vec", "vec rank=%d" % shape_rank, {"vec": S.fn["vec"]}, {}, mk, lambda args, kw: IL.spec_vec(args[0]), lambda args, kw: [list(reversed(a)), [sp.Integer(1)]], atoms=a)
        return recs, ms, [dict(clause="vec.index", params=dict(shape=b), function="vec", input_class="vec") for b in ([2, 3, 2][:shape_rank], [3, 2, 4][:shape_rank])]

    return "vec rank=%d" % shape_rank, run


def inst_unvec(form):
    def run(S):
        r, c = atoms("u", 2)

        def mk():
            shp = (r * c, sp.Integer(1)) if form == "column" else (r * c,)
            return [X_of(shp, "v"), [r, c]], {}, [sp.Ge(r, 1), sp.Ge(c, 1)]

        recs, ms = verify_instance("unvec", "unvec %s" % form, {"unvec": S.fn["unvec"]}, {}, mk, lambda args, kw: IL.spec_unvec(args[0], (r, c)), lambda args, kw: [[r], [c]], atoms=[r, c])
        return recs, ms, [dict(clause="unvec.index", params=dict(shape=[2, 3], form=form), function="unvec", input_class="unvec")]

    return "unvec %s" % form, run


def inst_ps(kind, n, perm, row_only, inv, dimform, defaults=False):
    """kind: vector | column | matrix ; dimform: list | array | 2row | 2row-array"""
    label = "permute_systems %s n=%d perm=%s row_only=%s inv=%s dim=%s%s" % (kind, n, list(perm), row_only, inv, dimform, " (flags defaulted)" if defaults else "")

    def run(S):
        r = atoms("r", n)
        c = atoms("c", n) if dimform.startswith("2row") else r

        def mk():
            R, C = _prod(r), _prod(c)
            if kind == "vector":
                X = X_of((R,))
                assume = [sp.Ge(R, 2)]
            elif kind == "column":
                X = X_of((R, sp.Integer(1)))
                assume = [sp.Ge(R, 2)]
            else:
                X = X_of((R, C))
                assume = [sp.Ge(R, 2), sp.Ge(C, 2)]
            if dimform == "list":
                dim = list(r)
            elif dimform == "array":
                dim = np.array(list(r), dtype=object)
            elif dimform == "2row":
                dim = [list(r), list(c)]
            else:
                dim = np.array([list(r), list(c)], dtype=object)
            args = [X, list(perm), dim] + ([] if defaults else [row_only, inv])
            return args, {}, assume + [sp.Ge(x, 1) for x in set(r + c)]

        q = list(perm) if not inv else [int(x) for x in np.argsort(perm)]

        def spec(args, kw):
            X = args[0]
            if kind == "column":
                # observed and relied upon: a column vector comes back 1-D
                X1 = SymArray((X.shape[0],), lambda idx: X.get((idx[0], sp.Integer(0))))
                return IL.spec_permute_systems(X1, perm, r, r, False, inv)
            return IL.spec_permute_systems(X, perm, r, c, row_only, inv)

        def axes(args, kw):
            rows = [r[q[i]] for i in range(n)]
            if kind in ("vector", "column"):
                return [rows]
            return [rows, [_prod(c)] if row_only else [c[q[i]] for i in range(n)]]

        fn = {"permute_systems": S.fn["permute_systems"]}
        recs, ms = verify_instance("permute_systems", label, fn, _contracts_for("permute_systems"), mk, spec, axes, atoms=list(dict.fromkeys(r + c)))
        # replay cases for anything not discharged
        rc = []
        models = [x.get("model") for x in recs if x.get("model")]
        cands = []
        for m in models:
            dr = dims_from_model(m, "r", n)
            dc = dims_from_model(m, "c", n) if dimform.startswith("2row") else dr
            if dr and dc and np.prod(dr) <= 4096 and np.prod(dc) <= 4096:
                cands.append((dr, dc))
        for b in batteries(n):
            cands.append((b, list(reversed(b)) if dimform.startswith("2row") else b))
        for dr, dc in cands:
            if kind != "matrix" and int(np.prod(dr)) < 2:
                continue
            if kind == "matrix" and (int(np.prod(dr)) < 2 or int(np.prod(dc)) < 2):
                continue
            rc.append(dict(clause="ps.index", function="permute_systems", input_class="permute_systems/%s/%s" % (kind, dimform), params=dict(kind=kind, perm=list(perm), row_only=row_only, inv=inv, dimform=dimform, rdims=dr, cdims=dc, defaults=defaults, entries="arange")))
        return recs, ms, rc

    return label, run


def inst_swap(n, s1, s2, row_only, dimform):
    label = "swap n=%d sys=[%d,%d] row_only=%s dim=%s" % (n, s1, s2, row_only, dimform)

    def run(S):
        r = atoms("r", n)
        c = atoms("c", n) if dimform == "2row" else r

        def mk():
            R, C = _prod(r), _prod(c)
            dim = list(r) if dimform == "list" else [list(r), list(c)]
            return [X_of((R, C)), [s1, s2], dim, row_only], {}, [sp.Ge(R, 2), sp.Ge(C, 2)] + [sp.Ge(x, 1) for x in set(r + c)]

        p = list(range(n))
        p[s1 - 1], p[s2 - 1] = p[s2 - 1], p[s1 - 1]

        def axes(args, kw):
            return [[r[p[i]] for i in range(n)], [_prod(c)] if row_only else [c[p[i]] for i in range(n)]]

        recs, ms = verify_instance("swap", label, {"swap": S.fn["swap"]}, _contracts_for("swap"), mk, lambda args, kw: IL.spec_swap(args[0], [s1, s2], r, c, row_only), axes, atoms=list(dict.fromkeys(r + c)))
        rc = []
        for b in batteries(n):
            rc.append(dict(clause="swap.index", function="swap", input_class="swap/%s" % dimform, params=dict(sys=[s1, s2], row_only=row_only, dimform=dimform, rdims=b, cdims=list(reversed(b)) if dimform == "2row" else b)))
        return recs, ms, rc

    return label, run


def inst_permop(n, perm, inv, dimform):
    label = "permutation_operator n=%d perm=%s inv=%s dim=%s" % (n, list(perm), inv, dimform)

    def run(S):
        d = atoms("d", n) if dimform == "list" else [atoms("d", 1)[0]] * n

        def mk():
            dim = list(d) if dimform == "list" else d[0]
            return [dim, list(perm), inv, False], {}, [sp.Ge(_prod(d), 2)] + [sp.Ge(x, 1) for x in set(d)]

        q = list(perm) if not inv else [int(x) for x in np.argsort(perm)]

        def axes(args, kw):
            return [[d[q[i]] for i in range(n)], [_prod(d)]]

        recs, ms = verify_instance("permutation_operator", label, {"permutation_operator": S.fn["permutation_operator"]}, _contracts_for("permutation_operator"), mk, lambda args, kw: IL.spec_permutation_operator(d, perm, inv), axes, atoms=list(dict.fromkeys(d)))
        rc = [dict(clause="permop.index", function="permutation_operator", input_class="permutation_operator", params=dict(perm=list(perm), inv=inv, dims=b if dimform == "list" else [b[0]] * n, scalar=dimform != "list", sparse=False)) for b in batteries(n)]
        return recs, ms, rc

    return label, run


def inst_swapop(dimform):
    label = "swap_operator dim=%s" % dimform

    def run(S):
        d = atoms("d", 2) if dimform == "list" else [atoms("d", 1)[0]] * 2

        def mk():
            dim = list(d) if dimform == "list" else d[0]
            return [dim, False], {}, [sp.Ge(_prod(d), 2)] + [sp.Ge(x, 1) for x in set(d)]

        def axes(args, kw):
            return [[d[1], d[0]], [_prod(d)]]

        recs, ms = verify_instance("swap_operator", label, {"swap_operator": S.fn["swap_operator"]}, _contracts_for("swap_operator"), mk, lambda args, kw: IL.spec_permutation_operator(d, [1, 0], False), axes, atoms=list(dict.fromkeys(d)))
        rc = [dict(clause="swapop.index", function="swap_operator", input_class="swap_operator", params=dict(dims=[2, 3] if dimform == "list" else [3, 3], scalar=dimform != "list", sparse=False))]
        return recs, ms, rc

    return label, run


def inst_ptrace(n, S_list, sysform, dimform):
    label = "partial_trace n=%d sys=%s (%s) dim=%s" % (n, list(S_list), sysform, dimform)

    def run(S):
        d = atoms("d", n)

        def mk():
            N = _prod(d)
            sys_arg = int(S_list[0]) if sysform == "int" else list(S_list)
            dim = list(d) if dimform == "list" else np.array(list(d), dtype=object)
            if sysform == "omitted":  # `sys` not passed, `dim` by keyword: the second subsystem is traced out
                return [X_of((N, N))], {"dim": dim}, [sp.Ge(N, 2)] + [sp.Ge(x, 1) for x in d]
            return [X_of((N, N)), sys_arg, dim], {}, [sp.Ge(N, 2)] + [sp.Ge(x, 1) for x in d]

        K = [i for i in range(n) if i not in S_list]

        def axes(args, kw):
            return [[d[i] for i in K], [d[i] for i in K]]

        recs, ms = verify_instance("partial_trace", label, {"partial_trace": S.fn["partial_trace"]}, _contracts_for("partial_trace"), mk, lambda args, kw: IL.spec_partial_trace(args[0], S_list, d), axes, atoms=d)
        rc = []
        models = [x.get("model") for x in recs if x.get("model")]
        cands = [dims_from_model(m, "d", n) for m in models]
        cands = [c for c in cands if c and 2 <= int(np.prod(c)) <= 1024] + batteries(n)
        for b in cands:
            rc.append(dict(clause="ptrace.index", function="partial_trace", input_class="partial_trace/%s" % sysform, params=dict(sys=list(S_list), sysform="list" if sysform == "omitted" else sysform, dims=b, dimform=dimform, **({"sys_omitted": True} if sysform == "omitted" else {}))))
        return recs, ms, rc

    return label, run


def inst_ptranspose(n, S_list, sysform, dimform):
    label = "partial_transpose n=%d sys=%s (%s) dim=%s" % (n, list(S_list), sysform, dimform)

    def run(S):
        r = atoms("r", n)
        c = atoms("c", n) if dimform == "2row" else r

        def mk():
            R, C = _prod(r), _prod(c)
            if sysform == "int":
                sys_arg = int(S_list[0])
            elif sysform == "array":
                sys_arg = np.array(list(S_list))
            else:
                sys_arg = list(S_list)
            dim = list(r) if dimform == "list" else [list(r), list(c)]
            assume = [sp.Ge(R, 2), sp.Ge(C, 2)] + [sp.Ge(x, 1 if dimform == "list" else 2) for x in set(r + c)]
            if sysform == "omitted":  # `sys` not passed, `dim` by keyword: the second subsystem is transposed
                return [X_of((R, C))], {"dim": dim}, assume
            return [X_of((R, C)), sys_arg, dim], {}, assume

        Sset = set(S_list)

        def axes(args, kw):
            return [[c[s] if s in Sset else r[s] for s in range(n)], [r[s] if s in Sset else c[s] for s in range(n)]]

        recs, ms = verify_instance("partial_transpose", label, {"partial_transpose": S.fn["partial_transpose"]}, _contracts_for("partial_transpose"), mk, lambda args, kw: IL.spec_partial_transpose(args[0], S_list, r, c), axes, atoms=list(dict.fromkeys(r + c)))
        rc = []
        for b in batteries(n):
            rc.append(dict(clause="ptranspose.index", function="partial_transpose", input_class="partial_transpose/%s/%s" % (sysform, dimform), params=dict(sys=list(S_list), sysform="list" if sysform == "omitted" else sysform, rdims=b, cdims=list(reversed(b)) if dimform == "2row" else b, dimform=dimform, **({"sys_omitted": True} if sysform == "omitted" else {}))))
        return recs, ms, rc

    return label, run


def inst_realign(dimform):
    label = "realignment dim=%s" % dimform

    def run(S):
        if dimform == "2row":
            dA, dB, dA2, dB2 = atoms("a", 4)
        else:
            dA, dB = atoms("a", 2)
            dA2, dB2 = dA, dB

        def mk():
            dim = [dA, dB] if dimform == "list" else [[dA, dB], [dA2, dB2]]
            return [X_of((dA * dB, dA2 * dB2)), dim], {}, [sp.Ge(x, 2) for x in {dA, dB, dA2, dB2}]

        def axes(args, kw):
            return [[dA, dA2], [dB, dB2]]

        recs, ms = verify_instance("realignment", label, {"realignment": S.fn["realignment"]}, _contracts_for("realignment"), mk, lambda args, kw: IL.spec_realignment(args[0], [dA, dB], [dA2, dB2]), axes, atoms=list(dict.fromkeys([dA, dB, dA2, dB2])))
        rc = [dict(clause="realign.index", function="realignment", input_class="realignment/%s" % dimform, params=dict(rdims=[2, 3], cdims=[3, 2] if dimform == "2row" else [2, 3], dimform=dimform))]
        return recs, ms, rc

    return label, run


def inst_projector(which, p, partial):
    label = "%s p=%d partial=%s, all dim >= 1" % (which, p, partial)

    def run(S):
        d = sp.Symbol("d", integer=True, positive=True)

        def mk():
            return [d, p, partial], {}, [sp.Ge(d, 1)]

        def spec(args, kw):
            return None

        recs, ms = verify_instance(which, label, {which: S.fn[which]}, _contracts_for(which), mk, spec, lambda a, k: [], atoms=[d], expect_kind="abstract")
        pre_ = "sym" if which.startswith("sym") else "asym"
        rc = []
        for dd in (1, 2, 3):
            if dd**p <= 256:
                for cl in (["%s.partial_span" % pre_, "%s.partial_orthonormal" % pre_] if partial else ["%s.explicit" % pre_, "%s.hermitian_idempotent" % pre_]):
                    rc.append(dict(clause=cl, function=which, input_class="%s/E1-replay/p=%d" % (which, p), params=dict(d=dd, p=p)))
        return recs, ms, rc

    return label, run


# ---------------------------------------------------------------------------------------------
# instance sets
# ---------------------------------------------------------------------------------------------
def perms_of(n):
    return list(itertools.permutations(range(n)))


def instances_C01(tier):
    nmax = 5 if tier == "thorough" else 4
    out = [inst_vec(2), inst_vec(3), inst_vec(4)]
    for n in range(1, nmax + 1):
        for perm in perms_of(n):
            for inv in (False, True):
                out.append(inst_ps("vector", n, perm, False, inv, "list"))
                if n <= 3:
                    out.append(inst_ps("vector", n, perm, False, inv, "array"))
                    out.append(inst_ps("column", n, perm, False, inv, "list"))
                if n >= 2 or True:
                    for ro in (False, True):
                        if n == 1:
                            out.append(inst_ps("matrix", n, perm, ro, inv, "list"))
                            continue
                        out.append(inst_ps("matrix", n, perm, ro, inv, "2row"))
                        if n <= 3:
                            out.append(inst_ps("matrix", n, perm, ro, inv, "list"))
                            out.append(inst_ps("matrix", n, perm, ro, inv, "2row-array"))
    out.append(inst_ps("matrix", 3, (1, 2, 0), False, False, "2row", defaults=True))
    out.append(inst_ps("vector", 3, (1, 2, 0), False, False, "list", defaults=True))
    for n in range(2, min(nmax, 4) + 1):
        for s1 in range(1, n + 1):
            for s2 in range(1, n + 1):
                if s1 == s2:
                    continue
                for ro in (False, True):
                    out.append(inst_swap(n, s1, s2, ro, "2row"))
                    if n <= 3:
                        out.append(inst_swap(n, s1, s2, ro, "list"))
    for n in range(1, min(nmax, 4) + 1):
        for perm in perms_of(n):
            for inv in (False, True):
                out.append(inst_permop(n, perm, inv, "list"))
                if n <= 3:
                    out.append(inst_permop(n, perm, inv, "scalar"))
    out.append(inst_swapop("list"))
    out.append(inst_swapop("scalar"))
    out += float_form_instances("C01")
    return out


def subsets_in_orders(n, proper=True):
    out = []
    for size in range(1, n if proper else n + 1):
        for S in itertools.permutations(range(n), size):
            out.append(S)
    return out


def instances_C02(tier):
    nmax = 5 if tier == "thorough" else 4
    out = []
    for n in range(2, nmax + 1):
        for S in subsets_in_orders(n, proper=False):
            if n == 5 and len(S) > 2 and list(S) != sorted(S):
                continue
            out.append(inst_ptrace(n, S, "list", "list"))
            if len(S) == 1:
                out.append(inst_ptrace(n, S, "int", "list"))
            if n <= 3:
                out.append(inst_ptrace(n, S, "list", "array"))
        out.append(inst_ptrace(n, (1,), "omitted", "list"))  # `sys` omitted with `dim` given: the second subsystem
    out += float_form_instances("C02")
    return out


def instances_C03(tier):
    nmax = 4 if tier == "thorough" else 3
    out = []
    for n in range(1, nmax + 1):
        for size in range(1, n + 1):
            for S in itertools.permutations(range(n), size):
                if n == 4 and list(S) != sorted(S):
                    continue
                if size == 1 and S == (1,) and n >= 2:
                    out.append(inst_ptranspose(n, S, "omitted", "list"))  # `sys` omitted with `dim` given: the second subsystem
                for dimform in ("list", "2row"):
                    if n == 1 and dimform == "2row":
                        continue  # ambiguous calling form, outside requires (see C03 TRUSTED)
                    out.append(inst_ptranspose(n, S, "list", dimform))
                    if len(S) == 1:
                        out.append(inst_ptranspose(n, S, "int", dimform))
                    if n <= 2:
                        out.append(inst_ptranspose(n, S, "array", dimform))
    out.append(inst_realign("list"))
    out.append(inst_realign("2row"))
    out += float_form_instances("C03")
    return out


def instances_C18(tier):
    out = []
    for p in (1, 2, 3, 4) + ((5,) if tier == "thorough" else ()):
        for partial in (False, True):
            out.append(inst_projector("symmetric_projection", p, partial))
            out.append(inst_projector("antisymmetric_projection", p, partial))
    return out


def instances_C16(tier):
    return [inst_vec(2), inst_vec(3), inst_unvec("column"), inst_unvec("flat")]


# ---------------------------------------------------------------------------------------------
# pool runner
# ---------------------------------------------------------------------------------------------
_TASKS = None
_SOURCES = None


def _run_idx(i):
    label, thunk = _TASKS[i]
    t = time.time()
    try:
        recs, ms, rc = thunk(_SOURCES)
    except Exception as e:  # engine failure: undecided, never a verdict
        import traceback

        recs, ms, rc = [dict(function=label.split()[0], instance=label, kind="scaffold-engine", text="engine error %s: %s" % (type(e).__name__, str(e)[:300]), status="undecided", backend="-", claim=False, ms=0.0, trace=traceback.format_exc()[-800:])], 0.0, []
    clean = all(r["status"] == "discharged" for r in recs if not r.get("claim"))
    for k, r in enumerate(recs):
        r["_id"] = "%d.%d" % (i, k)
        r["clean"] = clean
        if r["status"] != "discharged":
            r["replay"] = rc
    return i, recs, round((time.time() - t) * 1000, 1)


def run_instances(tasks, sources=None, procs=None):
    global _TASKS, _SOURCES
    _TASKS = tasks
    _SOURCES = sources or Sources()
    procs = procs or NCPU
    records = []
    t0 = time.time()
    if procs <= 1 or len(tasks) < 3:
        outs = [_run_idx(i) for i in range(len(tasks))]
    else:
        ctx = mp.get_context("fork")
        with ctx.Pool(procs) as pool:
            outs = pool.map(_run_idx, range(len(tasks)), chunksize=1)
    outs.sort()
    for i, recs, ms in outs:
        records += recs
    return records, time.time() - t0


def frame_records(names):
    """E2: each function writes through no reference reachable from its arguments (`modifies` nothing)"""
    from vt.frame import Index, frame_obligations

    ix = Index()
    out = []
    for n in names:
        rel, qual = FILES[n]
        recs, S = frame_obligations(ix, rel, qual, modifies=(), label="%s modifies none of its arguments" % n)
        for x in recs:
            x["clean"] = False
            if x["status"] != "discharged":
                x["replay"] = [dict(clause="frame.args", function=n, input_class="frame/%s" % n, params=dict(fn=n, rdims=[2, 3], cdims=[3, 2], perm=[1, 0], sys=[0] if n != "swap" else [1, 2], dimform="2row-array")) ] if n in ("partial_transpose", "realignment", "permute_systems", "swap") else [dict(clause="frame.args", function=n, input_class="frame/%s" % n, params=dict(fn=n, rdims=[2, 3], cdims=[2, 3], sys=[0]))] if n == "partial_trace" else []
        out += recs
    for i, x in enumerate(out):
        x["_id"] = "frame.%d" % i
    return out


# ---------------------------------------------------------------------------------------------
# CPython cross-check (DESIGN §4.4-4): the symbolic executor is run on CONCRETE dimensions and its prediction (which input
# entries every output entry reads) is compared with what CPython computes with the real function -- run in the executor.
# ---------------------------------------------------------------------------------------------
def crosscheck_cases(S, seed=0, count=24):
    import random

    from vt.pyvc.interp import Ctx, Interp
    from vt.pyvc.sym import SumEntry

    rnd = random.Random(seed)
    out = []

    def concretise(arr):
        shape = [int(x) for x in arr.shape]
        pred = []
        for idx in itertools.product(*[range(n) for n in shape]):
            e = arr.get(tuple(sp.Integer(i) for i in idx))
            if isinstance(e, SumEntry):
                bound, body = e.flat()
                terms = []
                for vals in itertools.product(*[range(int(r)) for _, r in bound]):
                    sub = {d: v for (d, _), v in zip(bound, vals)}
                    terms.append([int(sp.sympify(x).subs(sub)) for x in body.key()[1]])
                pred.append(sorted(terms))
            else:
                pred.append([[int(x) for x in e.key()[1]]])
        return shape, pred

    for _ in range(count):
        fn = rnd.choice(["permute_systems", "permute_systems", "partial_trace", "partial_transpose"])
        n = rnd.choice([2, 2, 3])
        d = [rnd.choice([1, 2, 3]) for _ in range(n)]
        if int(np.prod(d)) < 2:
            continue
        sym.reset_world()
        try:
            if fn == "permute_systems":
                perm = list(range(n))
                rnd.shuffle(perm)
                kind = rnd.choice(["vector", "matrix"])
                ro, inv = rnd.random() < 0.5, rnd.random() < 0.5
                c = d[1:] + d[:1]
                if kind == "matrix" and int(np.prod(c)) < 2:
                    continue
                R, C = int(np.prod(d)), int(np.prod(c))
                X = X_of((R,)) if kind == "vector" else X_of((R, C))
                dim = list(d) if kind == "vector" else [list(d), list(c)]
                it = Interp({"permute_systems": S.fn["permute_systems"], "vec": S.fn["vec"]}, {}, Ctx([]))
                res = it.call_function("permute_systems", [X, perm, dim, False if kind == "vector" else ro, inv], {})
                shape, pred = concretise(res)
                params = dict(fn=fn, kind=kind, perm=perm, rdims=d, cdims=c, row_only=ro, inv=inv, shape=shape, pred=pred)
            elif fn == "partial_trace":
                k = rnd.randint(1, n - 1) if n > 1 else 1
                Sx = rnd.sample(range(n), k)
                N = int(np.prod(d))
                it = Interp({"partial_trace": S.fn["partial_trace"], "permute_systems": S.fn["permute_systems"], "vec": S.fn["vec"]}, {}, Ctx([]))
                res = it.call_function("partial_trace", [X_of((N, N)), list(Sx), list(d)], {})
                shape, pred = concretise(res)
                params = dict(fn=fn, sys=Sx, dims=d, shape=shape, pred=pred)
            else:
                k = rnd.randint(1, n)
                Sx = sorted(rnd.sample(range(n), k))
                N = int(np.prod(d))
                it = Interp({"partial_transpose": S.fn["partial_transpose"], "permute_systems": S.fn["permute_systems"], "vec": S.fn["vec"]}, {}, Ctx([]))
                res = it.call_function("partial_transpose", [X_of((N, N)), list(Sx), list(d)], {})
                shape, pred = concretise(res)
                params = dict(fn=fn, sys=Sx, dims=d, shape=shape, pred=pred)
            out.append(dict(clause="e1.crosscheck", params=params, input_class="crosscheck/%s" % fn, function=fn))
        except Exception as e:  # engine limitation on a concrete instance: recorded, not a failure of the code
            out.append(dict(clause="e1.crosscheck", params=dict(fn=fn, engine_error="%s: %s" % (type(e).__name__, str(e)[:120])), input_class="crosscheck/%s" % fn, function=fn))
    return out


# ---------------------------------------------------------------------------------------------
# scalar / omitted dimension arguments (proved under S-float-dims: np.round(np.sqrt(.)), x ** (1/n), x / d, int(.) exact on integral values)
# ---------------------------------------------------------------------------------------------
def inst_custom(fn, label, mk, spec, axes, atoms_, replay):
    def run(S):
        recs, ms = verify_instance(fn, label, {fn: S.fn[fn]}, _contracts_for(fn), mk, spec, axes, atoms=atoms_)
        return recs, ms, replay

    return label, run


def float_form_instances(prop):
    d, e = atoms("d", 2)
    out = []
    if prop == "C01":
        out.append(inst_custom("swap", "swap dim omitted (d x d), all d", lambda: ([X_of((d * d, d * d))], {}, [sp.Ge(d, 2)]), lambda a, k: IL.spec_swap(a[0], [1, 2], [d, d], [d, d], False), lambda a, k: [[d, d], [d, d]], [d],
                               [dict(clause="swap.index", function="swap", input_class="swap/omitted", params=dict(sys=[1, 2], row_only=False, dimform="omitted", rdims=[3, 3], cdims=[3, 3]))]))
        out.append(inst_custom("swap", "swap dim = int d on (d e) x (d e), all d, e", lambda: ([X_of((d * e, d * e)), [1, 2], d], {}, [sp.Ge(d, 2), sp.Ge(e, 2)]), lambda a, k: IL.spec_swap(a[0], [1, 2], [d, e], [d, e], False), lambda a, k: [[e, d], [e, d]], [d, e],
                               [dict(clause="swap.index", function="swap", input_class="swap/scalar", params=dict(sys=[1, 2], row_only=False, dimform="scalar", rdims=[2, 3], cdims=[2, 3]))]))
        for n, perm in ((2, (1, 0)), (3, (1, 2, 0)), (3, (2, 0, 1)), (4, (1, 2, 3, 0))):
            out.append(inst_custom("permute_systems", "permute_systems vector dim omitted n=%d perm=%s, all d" % (n, list(perm)), (lambda n=n, perm=perm: ([X_of((d**n,)), list(perm)], {}, [sp.Ge(d, 2)])), (lambda a, k, n=n, perm=perm: IL.spec_permute_systems(a[0], perm, [d] * n, [d] * n, False, False)), (lambda a, k, n=n: [[d] * n]), [d],
                                   [dict(clause="ps.float_prelude", function="permute_systems", input_class="permute_systems/dim-omitted/d=3,n=%d" % n, params=dict(d=3, n=n, perm=list(perm)))]))
            if n <= 3:
                out.append(inst_custom("permute_systems", "permute_systems matrix dim omitted n=%d perm=%s, all d" % (n, list(perm)), (lambda n=n, perm=perm: ([X_of((d**n, d**n)), list(perm)], {}, [sp.Ge(d, 2)])), (lambda a, k, n=n, perm=perm: IL.spec_permute_systems(a[0], perm, [d] * n, [d] * n, False, False)), (lambda a, k, n=n: [[d] * n, [d] * n]), [d],
                                       [dict(clause="ps.float_prelude", function="permute_systems", input_class="permute_systems/dim-omitted/d=2,n=%d" % n, params=dict(d=2, n=n, perm=list(perm)))]))
    if prop == "C02":
        for Sx in ([0], [1]):
            out.append(inst_custom("partial_trace", "partial_trace dim = int d, sys=%s, all d, e" % Sx, (lambda Sx=Sx: ([X_of((d * e, d * e)), list(Sx), d], {}, [sp.Ge(d, 1), sp.Ge(e, 1), sp.Ge(d * e, 2)])), (lambda a, k, Sx=Sx: IL.spec_partial_trace(a[0], Sx, [d, e])), (lambda a, k, Sx=Sx: [[d if Sx == [1] else e]] * 2), [d, e],
                                   [dict(clause="ptrace.index", function="partial_trace", input_class="partial_trace/scalar-dim", params=dict(sys=list(Sx), dims=[2, 3], sysform="list", dimform="scalar"))]))
        out.append(inst_custom("partial_trace", "partial_trace all arguments omitted (d x d, second system traced), all d", lambda: ([X_of((d * d, d * d))], {}, [sp.Ge(d, 2)]), lambda a, k: IL.spec_partial_trace(a[0], [1], [d, d]), lambda a, k: [[d], [d]], [d],
                               [dict(clause="ptrace.index", function="partial_trace", input_class="partial_trace/omitted", params=dict(sys=[1], dims=[3, 3], sysform="list", dimform="omitted", sys_omitted=True))]))
    if prop == "C03":
        for Sx in ([0], [1]):
            out.append(inst_custom("partial_transpose", "partial_transpose dim omitted sys=%s (d x d), all d" % Sx, (lambda Sx=Sx: ([X_of((d * d, d * d)), list(Sx)], {}, [sp.Ge(d, 2)])), (lambda a, k, Sx=Sx: IL.spec_partial_transpose(a[0], Sx, [d, d], [d, d])), (lambda a, k: [[d, d], [d, d]]), [d],
                                   [dict(clause="ptranspose.index", function="partial_transpose", input_class="partial_transpose/omitted", params=dict(sys=list(Sx), rdims=[3, 3], cdims=[3, 3], sysform="list", dimform="omitted"))]))
        out.append(inst_custom("realignment", "realignment dim omitted (d x d), all d", lambda: ([X_of((d * d, d * d))], {}, [sp.Ge(d, 2)]), lambda a, k: IL.spec_realignment(a[0], [d, d], [d, d]), lambda a, k: [[d, d], [d, d]], [d],
                               [dict(clause="realign.index", function="realignment", input_class="realignment/omitted", params=dict(rdims=[3, 3], cdims=[3, 3], dimform="omitted"))]))
        out.append(inst_custom("realignment", "realignment dim = int d, all d, e", lambda: ([X_of((d * e, d * e)), d], {}, [sp.Ge(d, 2), sp.Ge(e, 2)]), lambda a, k: IL.spec_realignment(a[0], [d, e], [d, e]), lambda a, k: [[d, d], [e, e]], [d, e],
                               [dict(clause="realign.index", function="realignment", input_class="realignment/scalar", params=dict(rdims=[2, 3], cdims=[2, 3], dimform="scalar"))]))
    return out
