"""E1-array value domain: mixed-radix numerals and symbolic-shape arrays (DESIGN §2-E1(b), Appendix B).

A flat index is carried as a numeral  [(digit, radix), ...]  least significant first,
value = sum_k digit_k * prod_{l<k} radix_l  with 0 <= digit_k < radix_k.  Reshapes between shapes whose sizes
are products of the same radix sequence regroup digits; this is the uniqueness of mixed-radix representation,
the one arithmetic rule built into the generator (trusted base: 'mixed-radix rule').

Arrays are (shape, get) where get maps an index tuple (of numerals / expressions) to an `Entry` of a named
uninterpreted input array, an index numeral (for index arrays such as arange), or a `SumEntry`.
"""
from __future__ import annotations

import itertools

import sympy as sp


class Unsupported(Exception):
    """Construct outside the stated subset -> every obligation downstream is undecided."""


class Unaligned(Exception):
    """A reshape whose radix grouping does not line up.  `.side` = (lhs, rhs) radix products that would have
    to be equal for the regrouping to go through (a scaffolding side condition; its negation is satisfiable
    for a genuinely mis-ordered reshape/transpose and the model is replayed on the real code)."""

    def __init__(self, msg, side=None):
        super().__init__(msg)
        self.side = side


class World:
    """Per-proof state: free digits (full-range universally quantified or sum-bound) and digit splits."""

    def __init__(self):
        self.free = {}  # digit symbol -> radix
        self.subst = {}  # digit symbol -> [(lo, r), (hi, radix/r)]
        self.ctr = itertools.count()
        self.splits = 0

    def fresh_digit(self, prefix, radix):
        t = sp.Symbol("%s%d" % (prefix, next(self.ctr)), integer=True, nonnegative=True)
        self.free[t] = sp.sympify(radix)
        return t

    def declare(self, sym, radix):
        self.free[sym] = sp.sympify(radix)
        return sym

    def split_digit(self, d, r, need):
        lo = self.fresh_digit("s", need)
        hi = self.fresh_digit("s", sp.cancel(r / need))
        self.subst[d] = [(lo, sp.sympify(need)), (hi, sp.cancel(r / need))]
        self.splits += 1
        return self.subst[d]

    def resolve_terms(self, terms):
        out = []
        for d, r in terms:
            if d in self.subst:
                out += self.resolve_terms(self.subst[d])
            else:
                out.append((d, r))
        return out

    def ranges(self):
        """All digit range facts 0 <= d < radix for digits that are still atomic (not split)."""
        rel = []
        for d, r in self.free.items():
            if d in self.subst:
                continue
            rel.append((d, r))
        return rel


WORLD = World()


def reset_world():
    global WORLD
    WORLD = World()
    return WORLD


def world():
    return WORLD


def _is_one(x):
    return sp.sympify(x) == 1


def same(a, b):
    """Structural equality of two dimension expressions (monomials): exact, by cancellation."""
    return sp.simplify(sp.sympify(a) - sp.sympify(b)) == 0


class Num:
    def __init__(self, terms):
        self.terms = [(sp.sympify(d), sp.sympify(r)) for d, r in terms if not _is_one(r)]

    def value(self):
        v = sp.Integer(0)
        stride = sp.Integer(1)
        for d, r in WORLD.resolve_terms(self.terms):
            v += d * stride
            stride *= r
        return sp.expand(v)

    def size(self):
        s = sp.Integer(1)
        for _, r in self.terms:
            s *= r
        return s

    def __repr__(self):
        return "Num(%s)" % (self.terms,)


def as_num(x, radix):
    if isinstance(x, Num):
        return x
    return Num([(x, radix)])


def enc(digits, dims):
    """most-significant-first digit and dimension lists -> numeral (last subsystem fastest)."""
    return Num(list(zip(reversed(list(digits)), reversed(list(dims)))))


def flatten(shape, idx, order):
    axes = range(len(shape)) if order == "F" else reversed(range(len(shape)))
    terms = []
    for a in axes:
        n = as_num(idx[a], shape[a])
        if not same(n.size(), shape[a]):
            if len(n.terms) == 0 and isinstance(idx[a], Num):
                # the numeral lost all its digits because every radix was 1: a size-1 index into a larger axis
                n = Num([(sp.Integer(0), shape[a])])
            elif len(n.terms) == 0:
                n = Num([(sp.sympify(idx[a]), shape[a])])
            else:
                raise Unaligned("axis %d: numeral size %s != axis size %s" % (a, n.size(), shape[a]), side=(n.size(), sp.sympify(shape[a])))
        terms += n.terms
    return Num(terms)


def unflatten(num, shape, order):
    W = WORLD
    axes = list(range(len(shape))) if order == "F" else list(reversed(range(len(shape))))
    out = [None] * len(shape)
    terms = W.resolve_terms(list(num.terms))
    if all(sp.sympify(d).is_Integer and sp.sympify(r).is_Integer for d, r in terms) and all(sp.sympify(x).is_Integer for x in shape):
        # fully concrete index: plain div/mod (used by the model cross-check and by concrete-dimension instances)
        v = 0
        stride = 1
        for d, r in terms:
            v += int(d) * stride
            stride *= int(r)
        for a in axes:
            out[a] = Num([(sp.Integer(v % int(shape[a])), sp.Integer(int(shape[a])))])
            v //= int(shape[a])
        return tuple(out)
    pos = 0
    for a in axes:
        need = sp.sympify(shape[a])
        got = sp.Integer(1)
        grp = []
        while not same(got, need):
            if pos >= len(terms):
                raise Unaligned("ran out of digits for axis %d: need %s got %s" % (a, need, got), side=(got, need))
            d, r = terms[pos]
            q = sp.cancel(need / (got * r))
            if not (sp.denom(q) == 1):
                rem = sp.cancel(need / got)
                q2 = sp.cancel(r / rem)
                if d in W.free and sp.denom(q2) == 1 and sp.denom(rem) == 1 and not _is_one(rem):
                    lo, hi = W.split_digit(d, r, rem)
                    terms[pos : pos + 1] = [lo, hi]
                    d, r = terms[pos]
                else:
                    raise Unaligned("axis %d: radix product %s overshoots %s" % (a, got * r, need), side=(got * r, need))
            pos += 1
            grp.append((d, r))
            got *= r
        out[a] = Num(grp)
    for d, r in terms[pos:]:
        if d != 0:
            raise Unaligned("left-over digits %s" % (terms[pos:],), side=None)
    return tuple(out)


class Entry:
    """Entry of a named uninterpreted input array at a symbolic index."""

    def __init__(self, name, idx, conj=False):
        self.name = name
        self.idx = tuple(idx)
        self.conj = conj

    def key(self):
        return (self.name, tuple(i.value() if isinstance(i, Num) else sp.expand(sp.sympify(i)) for i in self.idx), self.conj)

    def __repr__(self):
        k = self.key()
        return "%s%s%s" % ("conj " if k[2] else "", k[0], list(k[1]))


class SumEntry:
    def __init__(self, bound, body):
        self.bound = list(bound)  # [(digit, radix)]
        self.body = body

    def flat(self):
        b = list(self.bound)
        body = self.body
        while isinstance(body, SumEntry):
            b += body.bound
            body = body.body
        return b, body


class SymArray:
    def __init__(self, shape, get, kind="elem"):
        self.shape = tuple(sp.sympify(s) for s in shape)
        self._get = get
        self.kind = kind

    @property
    def ndim(self):
        return len(self.shape)

    def get(self, idx):
        if len(idx) != len(self.shape):
            raise Unsupported("index arity %d on %d-d array" % (len(idx), len(self.shape)))
        return self._get(tuple(idx))

    def size(self):
        s = sp.Integer(1)
        for x in self.shape:
            s *= x
        return s

    def reshape(self, newshape, order="C"):
        newshape = [sp.sympify(s) for s in newshape]
        if any(s == -1 for s in newshape):
            known = sp.Integer(1)
            for s in newshape:
                if s != -1:
                    known *= s
            newshape = [sp.cancel(self.size() / known) if s == -1 else s for s in newshape]
        tot = sp.Integer(1)
        for s in newshape:
            tot *= s
        if not same(tot, self.size()):
            raise Unaligned("reshape size mismatch %s vs %s" % (newshape, self.shape), side=(tot, self.size()))
        old = self

        def g(idx):
            return old.get(unflatten(flatten(newshape, idx, order), old.shape, order))

        return SymArray(newshape, g, self.kind)

    def transpose(self, axes=None):
        if axes is None:
            axes = list(reversed(range(self.ndim)))
        axes = [int(a) for a in axes]
        if sorted(axes) != list(range(self.ndim)):
            raise Unsupported("transpose axes %s on %d-d array" % (axes, self.ndim))
        old = self
        newshape = [old.shape[a] for a in axes]

        def g(idx):
            o = [None] * len(axes)
            for t, a in enumerate(axes):
                o[a] = idx[t]
            return old.get(tuple(o))

        return SymArray(newshape, g, self.kind)

    @property
    def T(self):
        return self.transpose()

    def conj(self):
        """entrywise complex conjugate: flips the conj flag of every entry"""
        old = self

        def g(idx):
            e = old.get(idx)
            if isinstance(e, Entry):
                return Entry(e.name, e.idx, not e.conj)
            if isinstance(e, Delta):
                return e
            from . import bilinear

            if isinstance(e, (bilinear.Poly, SumEntry)):
                return bilinear.p_conj(e)
            raise Unsupported("conjugate of a non-entry")

        return SymArray(self.shape, g, self.kind)


def arange(n):
    return SymArray((n,), lambda idx: as_num(idx[0], n), kind="index")


def identity(n):
    """np.identity(N): elem = [r == c]; represented as a Delta entry."""
    return SymArray((n, n), lambda idx: Delta(idx[0], idx[1], n), kind="delta")


class Delta:
    """Kronecker delta [a == b] with both indices in [0, n)."""

    def __init__(self, a, b, n):
        self.a, self.b, self.n = a, b, n

    def key(self):
        av = self.a.value() if isinstance(self.a, Num) else sp.expand(sp.sympify(self.a))
        bv = self.b.value() if isinstance(self.b, Num) else sp.expand(sp.sympify(self.b))
        return ("delta", (av, bv), False)


class ConstVec:
    """np.ones(k) * v for symbolic k: a vector all of whose entries are v."""

    def __init__(self, n, v):
        self.n = n
        self.v = sp.sympify(v)

    def __mul__(self, o):
        return ConstVec(self.n, self.v * o)

    __rmul__ = __mul__

    def __truediv__(self, o):
        return ConstVec(self.n, sp.cancel(self.v / o))

    def __getitem__(self, i):
        return self.v


class SymRange:
    def __init__(self, lo, hi):
        if lo != 0:
            raise Unsupported("symbolic range with non-zero start")
        self.n = hi


class SymList:
    def __init__(self, n, elem, kind):
        self.n = n
        self.elem = elem
        self.kind = kind


class StridedList:
    """list(range(0, T*T, T+1)): the diagonal positions of a T x T block flattened."""

    def __init__(self, T):
        self.T = T
        self.count = T

    def at(self, i, axis_size):
        i = as_num(i, self.T)
        return Num(i.terms + i.terms)


def getitem(arr, key):
    """arr[key] for a SymArray with ints / full slices / index arrays / strided lists."""
    if not isinstance(key, tuple):
        key = (key,)
    key = list(key) + [slice(None)] * (arr.ndim - len(key))
    if len(key) != arr.ndim:
        raise Unsupported("too many indices")
    newshape = []
    plan = []
    for a, k in enumerate(key):
        if isinstance(k, slice):
            if (k.start, k.stop, k.step) != (None, None, None):
                raise Unsupported("partial slice of a symbolic array")
            plan.append(("axis", len(newshape)))
            newshape.append(arr.shape[a])
        elif isinstance(k, SymArray):
            if not (k.ndim == 1 and k.kind == "index"):
                raise Unsupported("gather with a non-index array")
            plan.append(("gather", len(newshape), k))
            newshape.append(k.shape[0])
        elif isinstance(k, SymList) and k.kind == "index":
            kk = SymArray((k.n,), (lambda kk_: (lambda idx: kk_.elem(as_num(idx[0], kk_.n))))(k), "index")
            plan.append(("gather", len(newshape), kk))
            newshape.append(k.n)
        elif hasattr(k, "dtype") and hasattr(k, "tolist") and getattr(k, "ndim", 0) == 1:
            # a concrete integer index array (concrete-dimension instances): gather through it
            vals = [int(v) for v in k.tolist()]
            kk = SymArray((len(vals),), (lambda vs, size: (lambda idx: Num([(sp.Integer(vs[int(idx[0].value()) if isinstance(idx[0], Num) else int(idx[0])]), sp.sympify(size))])))(vals, arr.shape[a]), "index")
            plan.append(("gather", len(newshape), kk))
            newshape.append(len(vals))
        elif isinstance(k, list) and k and all(isinstance(v, (int,)) or hasattr(v, "__index__") for v in k):
            vals = [int(v) for v in k]
            kk = SymArray((len(vals),), (lambda vs, size: (lambda idx: Num([(sp.Integer(vs[int(idx[0].value()) if isinstance(idx[0], Num) else int(idx[0])]), sp.sympify(size))])))(vals, arr.shape[a]), "index")
            plan.append(("gather", len(newshape), kk))
            newshape.append(len(vals))
        elif isinstance(k, StridedList):
            plan.append(("strided", len(newshape), k))
            newshape.append(k.count)
        elif isinstance(k, (int, sp.Expr)) or hasattr(k, "__index__"):
            plan.append(("const", k))
        else:
            raise Unsupported("index %r" % (k,))

    def g(idx):
        o = []
        for a, p in enumerate(plan):
            if p[0] == "axis":
                o.append(idx[p[1]])
            elif p[0] == "gather":
                o.append(p[2].get((idx[p[1]],)))
            elif p[0] == "strided":
                o.append(p[2].at(idx[p[1]], arr.shape[a]))
            else:
                o.append(sp.sympify(int(p[1]) if hasattr(p[1], "__index__") and not isinstance(p[1], sp.Expr) else p[1]))
        return arr.get(tuple(o))

    return SymArray(newshape, g, arr.kind)


def sym_sum(a, ax):
    old = a
    newshape = [s for i, s in enumerate(a.shape) if i != ax]
    T = a.shape[ax]

    def g(idx):
        t = WORLD.fresh_digit("t", T)
        full = list(idx)
        full.insert(ax, Num([(t, T)]))
        return SumEntry([(t, T)], old.get(tuple(full)))

    return SymArray(newshape, g, a.kind)
