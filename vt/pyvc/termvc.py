"""E1-term: verification conditions for thin numeric wrappers, over *uninterpreted* library operations.

The real AST of the function is executed symbolically with arrays of an uninterpreted sort `Arr` and scalars as z3 Reals.
Every numpy / scipy / toqito call becomes an application of an uninterpreted function named after the dotted name and its
constant arguments (`np.linalg.norm[ord='nuc']`), i.e. the library is seen only through its name: these are assumed contracts
on dependencies, and machine arithmetic is treated as mathematical (both listed in the evidence).  Scalar arithmetic is
native z3 real arithmetic, so algebraic rearrangements of the scalar part are proved, not pattern-matched.  Conditions the
engine cannot interpret become opaque Boolean predicates named by their source text; the contract's `requires` says which of
them hold.  The postcondition `result == spec(args)` is then a z3 validity query.  A refuted obligation here is only a
*candidate* (uninterpreted functions may be given exotic interpretations): it is replayed through the bounded run-time
contract and never reported without a failing concrete input.
"""
from __future__ import annotations

import ast

import z3

from .intvc import Engine, Unsupported, is_z3

Arr = z3.DeclareSort("Arr")
_UF = {}


def sort_of(x):
    if isinstance(x, bool):
        return z3.BoolSort()
    if isinstance(x, (int, float)):
        return z3.RealSort()
    if is_z3(x):
        s = x.sort()
        if s == z3.IntSort():
            return z3.RealSort()
        return s
    raise Unsupported("value %r has no sort" % (x,))


def lift(x):
    if isinstance(x, bool):
        return z3.BoolVal(x)
    if isinstance(x, int):
        return z3.RealVal(x)
    if isinstance(x, float):
        return z3.RealVal(repr(x))
    if is_z3(x) and x.sort() == z3.IntSort():
        return z3.ToReal(x)
    return x


def uf(name, ret, *args):
    args = [lift(a) for a in args]
    key = (name, ret.name() if hasattr(ret, "name") else str(ret), tuple(str(a.sort()) for a in args))
    f = _UF.get(key)
    if f is None:
        f = z3.Function(name + "/" + "_".join(str(a.sort()) for a in args) + "->" + str(ret), *[a.sort() for a in args], ret)
        _UF[key] = f
    return f(*args) if args else f()


def is_arr(x):
    return is_z3(x) and x.sort() == Arr


def is_scalar(x):
    return isinstance(x, (int, float)) and not isinstance(x, bool) or (is_z3(x) and x.sort() in (z3.RealSort(), z3.IntSort()))


# result sort of library calls: "same" = sort of first argument
RET = {
    "np.linalg.norm": "real", "np.trace": "real", "np.real": "same", "np.imag": "same", "np.sqrt": "same", "np.arccos": "same", "np.log2": "same", "np.log": "same",
    "np.round": "same", "np.around": "same", "np.abs": "same", "abs": "same", "np.sum": "real", "np.conj": "same", "np.conjugate": "same", "np.transpose": "same",
    "scipy.linalg.sqrtm": "arr", "scipy.linalg.inv": "arr", "scipy.linalg.det": "real", "np.linalg.det": "real", "np.linalg.matrix_power": "arr", "np.kron": "arr",
    "np.linalg.inv": "arr", "np.exp": "same", "np.max": "real", "np.min": "real", "np.linalg.matrix_rank": "real", "np.outer": "arr", "np.dot": "arr", "np.matmul": "arr",
    "scipy.linalg.fractional_matrix_power": "arr", "np.zeros_like": "arr", "np.eye": "arr", "np.identity": "arr", "np.diag": "arr", "np.cos": "same", "np.sin": "same", "round": "same", "np.linalg.eigvals": "arr", "np.linalg.eigvalsh": "arr", "np.sort": "arr", "np.array": "same", "np.asarray": "same",
}
PRED = {"is_density", "is_positive_semidefinite", "is_hermitian", "is_square", "is_unitary", "is_pure", "np.all", "np.any", "isinstance", "is_positive_definite"}
CLOSE_DEFAULTS = {"rtol": 1e-05, "atol": 1e-08}


def const_repr(v):
    if isinstance(v, (int, float, str, bool, type(None))):
        return repr(v)
    if isinstance(v, (list, tuple)) and all(isinstance(x, (int, float, str, bool)) for x in v):
        return repr(list(v))
    return None


class Poison:
    """value of an assignment the engine could not interpret; using it makes the path undecided, not using it is harmless"""

    def __init__(self, why):
        self.why = why


class TermEngine(Engine):
    """Engine whose expression layer builds uninterpreted terms."""

    def binop(self, op, a, b):
        if is_scalar(a) and is_scalar(b):
            if isinstance(a, (int, float)) and isinstance(b, (int, float)):
                import operator as o

                f = {ast.Add: o.add, ast.Sub: o.sub, ast.Mult: o.mul, ast.Div: o.truediv, ast.Pow: o.pow}.get(type(op))
                if f is None:
                    raise Unsupported("operator %s" % type(op).__name__)
                return f(a, b)
            A, B = lift(a), lift(b)
            if isinstance(op, ast.Add):
                return A + B
            if isinstance(op, ast.Sub):
                return A - B
            if isinstance(op, ast.Mult):
                return A * B
            if isinstance(op, ast.Div):
                return A / B
            if isinstance(op, ast.Pow):
                if isinstance(b, int) and 0 <= b <= 8:
                    r = z3.RealVal(1)
                    for _ in range(b):
                        r = r * A
                    return r
                return uf("pow", z3.RealSort(), A, B)
            raise Unsupported("scalar operator %s" % type(op).__name__)
        if isinstance(op, ast.Mult) and isinstance(a, list) and all(isinstance(x, (int, float)) for x in a) and is_z3(b) and not is_arr(b):
            return uf("list-repeat[%r]" % (a,), Arr, b)  # [c] * n with a symbolic length
        names = {ast.Add: "add", ast.Sub: "sub", ast.Mult: "mul", ast.Div: "div", ast.MatMult: "matmul", ast.Pow: "apow"}
        n = names.get(type(op))
        if n is None:
            raise Unsupported("operator %s" % type(op).__name__)
        return uf(n, Arr, a, b)

    def compare(self, op, a, b):
        if is_scalar(a) and is_scalar(b):
            A, B = lift(a), lift(b)
            if isinstance(a, (int, float)) and isinstance(b, (int, float)):
                return super().compare(op, a, b)
            return {ast.Eq: A == B, ast.NotEq: A != B, ast.Lt: A < B, ast.LtE: A <= B, ast.Gt: A > B, ast.GtE: A >= B}[type(op)]
        raise Unsupported("comparison of non-scalars")

    def ev(self, e, env, pc):
        if isinstance(e, (ast.ListComp, ast.GeneratorExp)) and len(e.generators) == 1 and not e.generators[0].ifs and isinstance(e.generators[0].target, ast.Name):
            g = e.generators[0]
            src = self.ev(g.iter, env, pc)
            if isinstance(src, (list, tuple, range)):
                # a comprehension over a concrete-length Python list (of terms) or range: expanded element by element
                out = []
                for x in src:
                    env2 = dict(env)
                    env2[g.target.id] = x
                    out.append(self.ev(e.elt, env2, pc))
                return out
            # an elementwise conversion of an array-valued term, e.g. [int(x.item()) for x in dim]: a term named by the element expression
            if is_arr(src) and {n.id for n in ast.walk(e.elt) if isinstance(n, ast.Name)} <= {g.target.id, "int", "float", "complex", "abs"}:
                return uf("map[%s for %s]" % (ast.unparse(e.elt), g.target.id), Arr, src)
            raise Unsupported("list comprehension")
        if isinstance(e, ast.Call) and isinstance(e.func, ast.Name) and e.func.id in ("all", "any") and len(e.args) == 1 and isinstance(e.args[0], (ast.GeneratorExp, ast.ListComp)):
            g0 = e.args[0].generators[0]
            try:
                src0 = self.ev(g0.iter, env, pc)
            except Unsupported:
                src0 = None
            if is_arr(src0):  # a quantified condition over the entries of an array-valued term: an opaque predicate named by its source text
                return self.opaque_pred(e, env)
        if isinstance(e, ast.Call) and isinstance(e.func, ast.Name) and e.func.id in ("len", "sum", "range") and e.args:
            a0 = self.ev(e.args[0], env, pc)
            if e.func.id == "len" and isinstance(a0, (list, tuple)):
                return len(a0)
            if e.func.id == "range" and all(isinstance(self.ev(a, env, pc), int) for a in e.args):
                return range(*[self.ev(a, env, pc) for a in e.args])
            if e.func.id == "sum" and isinstance(a0, (list, tuple)) and a0:
                acc = a0[0]
                for x in a0[1:]:
                    acc = self.binop(ast.Add(), acc, x)
                return acc
        if isinstance(e, ast.Subscript):
            base = self.ev(e.value, env, pc)
            if isinstance(base, tuple) and len(base) == 2 and base[0] == "shape" and not isinstance(e.slice, (ast.Slice, ast.Tuple)):
                i = self.ev(e.slice, env, pc)
                if isinstance(i, int):
                    return uf("shape[%d]" % i, z3.RealSort(), base[1])
            if isinstance(base, (list, tuple)) and not (base and isinstance(base[0], str)) and not isinstance(e.slice, (ast.Slice, ast.Tuple)):
                i = self.ev(e.slice, env, pc)
                if isinstance(i, int):
                    return base[i]
        if isinstance(e, ast.IfExp):
            c = self.cond(e.test, env, pc)
            if isinstance(c, bool):
                return self.ev(e.body if c else e.orelse, env, pc)
            a, b = self.ev(e.body, env, pc), self.ev(e.orelse, env, pc)
            if is_z3(lift(a)) and is_z3(lift(b)) and lift(a).sort() == lift(b).sort():
                return z3.If(c, lift(a), lift(b))
            raise Unsupported("conditional expression with a symbolic test and non-term branches")
        if isinstance(e, ast.Constant) and isinstance(e.value, complex):
            return uf("complex-constant[%r]" % (e.value,), z3.RealSort())
        if isinstance(e, ast.Call) and isinstance(e.func, ast.Name) and e.func.id == "len" and len(e.args) == 1:
            v = self.ev(e.args[0], env, pc)
            if is_arr(v):
                return uf("len", z3.RealSort(), v)
        if isinstance(e, ast.Name) and isinstance(env.get(e.id), Poison):
            raise Unsupported("use of uninterpreted value: " + env[e.id].why)
        if isinstance(e, ast.Attribute) and ast.unparse(e) == "np.finfo(float).eps":
            return uf("np.finfo(float).eps", z3.RealSort())
        if isinstance(e, ast.Constant) and isinstance(e.value, float):
            return e.value
        if isinstance(e, ast.UnaryOp) and isinstance(e.op, ast.USub):
            v = self.ev(e.operand, env, pc)
            if is_arr(v):
                return uf("neg", Arr, v)
            return -lift(v) if is_z3(v) else -v
        if isinstance(e, ast.UnaryOp) and isinstance(e.op, ast.Not):
            v = self.cond(e.operand, env, pc)
            return (not v) if isinstance(v, bool) else z3.Not(v)
        if isinstance(e, ast.BoolOp):
            vs = [self.cond(x, env, pc) for x in e.values]
            if all(isinstance(v, bool) for v in vs):
                return all(vs) if isinstance(e.op, ast.And) else any(vs)
            vs = [z3.BoolVal(v) if isinstance(v, bool) else v for v in vs]
            return z3.And(*vs) if isinstance(e.op, ast.And) else z3.Or(*vs)
        if isinstance(e, ast.Compare):
            try:
                return super().ev(e, env, pc)
            except Unsupported:
                return self.opaque_pred(e, env)
        if isinstance(e, ast.Attribute):
            if isinstance(e.value, ast.Name) and e.value.id in ("np", "scipy", "cvxpy", "math"):
                return ("modattr", e.value.id, e.attr)
            base = self.ev(e.value, env, pc)
            if isinstance(base, tuple) and base and base[0] == "modattr":
                return ("modattr", base[1] + "." + base[2], e.attr)
            if e.attr == "real" and ((is_z3(base) and base.sort() == z3.RealSort()) or isinstance(base, (int, float))):
                return base  # scalars are modelled as reals
            if is_arr(base) and e.attr in getattr(self.c, "methods", {}):
                return ("objmethod", base, e.attr)  # a method of an opaque object (declared by the contract with its result sort)
            if is_arr(base):
                if e.attr == "T":
                    return uf("transpose", Arr, base)
                if e.attr == "H":
                    return uf("dagger", Arr, base)
                if e.attr in ("conj", "conjugate", "copy", "flatten", "ravel"):
                    return ("arrmethod", base, e.attr)
                if e.attr == "shape":
                    return ("shape", base)
                if e.attr == "real":
                    return uf("np.real", Arr, base)
            raise Unsupported("attribute %s" % ast.unparse(e))
        if isinstance(e, ast.Subscript):
            try:
                base0 = self.ev(e.value, env, pc)
            except Unsupported:
                base0 = None
            if is_arr(base0):
                sl = e.slice
                if isinstance(sl, ast.Slice) and sl.lower is None and sl.upper is None and isinstance(sl.step, ast.UnaryOp) and isinstance(sl.step.op, ast.USub) and isinstance(sl.step.operand, ast.Constant) and sl.step.operand.value == 1:
                    return uf("reversed", Arr, base0)  # x[::-1]
                if not isinstance(sl, (ast.Slice, ast.Tuple)):
                    i0 = self.ev(sl, env, pc)
                    if isinstance(i0, int):
                        return uf("item[%d]" % i0, z3.RealSort(), base0)
            raise Unsupported("subscript %s" % ast.unparse(e))
        return super().ev(e, env, pc)

    def cond(self, e, env, pc):
        try:
            v = self.ev(e, env, pc)
        except Unsupported:
            return self.opaque_pred(e, env)
        if isinstance(v, bool) or (is_z3(v) and z3.is_bool(v)):
            return v
        return self.opaque_pred(e, env)

    def opaque_pred(self, e, env):
        """an uninterpretable condition: Boolean UF named by its source text over the array variables it mentions"""
        names = sorted({n.id for n in ast.walk(e) if isinstance(n, ast.Name) and n.id in env and is_z3(env[n.id])})
        return uf("pred:" + ast.unparse(e), z3.BoolSort(), *[env[n] for n in names])

    def stmt(self, s, env, pc):
        if isinstance(s, ast.Assign) and len(s.targets) == 1 and isinstance(s.targets[0], ast.Name):
            try:
                v = self.ev(s.value, env, pc)
            except (Unsupported, AttributeError, TypeError, z3.Z3Exception) as u:  # an uninterpretable right-hand side poisons only its target
                v = Poison("%s = %s: %s" % (s.targets[0].id, ast.unparse(s.value)[:60], u))
            env[s.targets[0].id] = v
            return [(env, pc)]
        if isinstance(s, ast.If):
            c = self.cond(s.test, env, pc)
            return self.branch(c, s.body, s.orelse, env, pc, "line %d" % s.lineno)
        if isinstance(s, ast.Try):
            # the handler path (LAPACK failure) is outside the contract; the body is the verified path
            return self.block(s.body, env, pc)
        return super().stmt(s, env, pc)

    def call(self, e, env, pc):
        f = e.func
        name = None
        if isinstance(f, ast.Name):
            name = f.id
        else:
            try:
                fv = self.ev(f, env, pc)
            except Unsupported:
                fv = None
            if isinstance(fv, tuple) and fv and fv[0] == "modattr":
                name = fv[1] + "." + fv[2]
            elif isinstance(fv, tuple) and fv and fv[0] == "objmethod":
                _, base, m = fv
                if e.keywords:
                    raise Unsupported("keyword arguments of method %s" % m)
                margs = [self.ev(a, env, pc) for a in e.args]
                if not all(is_z3(a) or isinstance(a, (int, float)) for a in margs):
                    raise Unsupported("argument of method %s" % m)
                return uf("method:" + m, self.c.methods[m], base, *margs)
            elif isinstance(fv, tuple) and fv and fv[0] == "arrmethod":
                _, base, m = fv
                if m in ("conj", "conjugate"):
                    return uf("conj", Arr, base)
                return base
        if name is None:
            raise Unsupported("call %s" % ast.unparse(f))
        toq = getattr(self.c, "toqito_names", set())
        if (name in PRED or name.split(".")[-1] in PRED) and name not in toq:
            return self.opaque_pred(e, env)
        args = [self.ev(a, env, pc) for a in e.args]
        kws = []
        kw_terms = []
        for k in e.keywords:
            v = self.ev(k.value, env, pc)
            c = const_repr(v) if not is_z3(v) else None
            if is_z3(v):
                kw_terms.append((k.arg, v))
            elif c is None:
                raise Unsupported("non-constant keyword %s" % k.arg)
            else:
                kws.append("%s=%s" % (k.arg, c))
        if name in ("np.linalg.eigh", "np.linalg.eig") and len(args) == 1 and is_arr(args[0]) and not kws and not kw_terms:
            return (uf(name + "#0", Arr, args[0]), uf(name + "#1", Arr, args[0]))  # (eigenvalues, eigenvectors)
        if name in ("np.allclose", "np.isclose"):
            # numpy's documented signature: (a, b, rtol=1e-05, atol=1e-08); applied by parameter name with defaults made explicit
            vals = {}
            pos = ["a", "b", "rtol", "atol"]
            for pn, a in zip(pos, args):
                vals[pn] = a
            for pn, v in kw_terms:
                vals[pn] = v
            for item in kws:
                pn, c = item.split("=", 1)
                vals[pn] = float(c)
            for pn, dv in CLOSE_DEFAULTS.items():
                vals.setdefault(pn, dv)
            if "a" not in vals or "b" not in vals or set(vals) - set(pos):
                raise Unsupported("unexpected arguments of %s" % name)
            return uf(name, z3.BoolSort(), vals["a"], vals["b"], vals["rtol"], vals["atol"])
        binder = getattr(self.c, "bind_callee", None)
        if binder is not None:
            r = binder(self, name, args, kw_terms, kws)
            if r is not NotImplemented:
                return r
        if kw_terms:
            raise Unsupported("term-valued keyword argument of %s" % name)
        term_args = []
        consts = []
        for a in args:
            c = const_repr(a) if not is_z3(a) else None
            if is_z3(a):
                term_args.append(a)
            elif isinstance(a, (list, tuple)) and any(is_z3(x) for x in a):
                consts.append("list%d" % len(a))
                term_args.extend(a)
            elif isinstance(a, (int, float)) and not isinstance(a, bool) and name in ("max", "min"):
                term_args.append(a)
            elif c is not None:
                consts.append(c)
            else:
                raise Unsupported("argument of %s" % name)
        full = name + ("[" + ",".join(consts + kws) + "]" if (consts or kws) else "")
        hook = getattr(self.c, "callee", None)
        if hook is not None:
            r = hook(self, name, full, term_args)
            if r is not NotImplemented:
                return r
        kind = RET.get(name)
        if kind is None:
            if name in ("float", "int", "complex") and len(term_args) == 1:
                return term_args[0]
            if name in ("max", "min") and len(term_args) == 2:
                a, b = lift(term_args[0]), lift(term_args[1])
                return z3.If(a >= b, a, b) if name == "max" else z3.If(a <= b, a, b)
            raise Unsupported("library call %s has no sort entry" % name)
        if kind == "same":
            if not term_args:
                raise Unsupported("call %s without term argument" % name)
            ret = Arr if is_arr(term_args[0]) else z3.RealSort()
        else:
            ret = Arr if kind == "arr" else z3.RealSort()
        return uf(full, ret, *term_args)


def run_term_contract(fn_ast, contract, function, label):
    eng = TermEngine(fn_ast, contract, function, label)
    return eng.run()
