"""Shared plumbing: paths, result records, known findings, replay files, evidence writer.

Runs under both interpreters (prover = python3-vt, executor = /venv/bin/python); stdlib only.
"""
from __future__ import annotations

import hashlib
import json
import os
import subprocess
import sys
import time

VERIF = os.path.dirname(os.path.dirname(os.path.abspath(__file__)))
REPO = os.environ.get("VERIF_REPO", "/repo")
EXECUTOR = os.environ.get("VERIF_EXECUTOR", "/venv/bin/python")
PROVER = os.environ.get("VERIF_PROVER", "python3-vt")
_SCRATCH = os.path.realpath(REPO) != "/repo"  # a run against a scratch worktree (seeded patches) must not touch the real evidence
REPLAYS = os.path.join(VERIF, ".work", "replays-scratch") if _SCRATCH else os.path.join(VERIF, "replays")
EVIDENCE = os.path.join(VERIF, ".work", "evidence-scratch") if _SCRATCH else os.path.join(VERIF, "evidence")
KNOWN = os.path.join(VERIF, "KNOWN_FINDINGS.json")
NCPU = int(os.environ.get("VERIF_NCPU", str(os.cpu_count() or 4)))


def seed() -> int:
    try:
        return int(os.environ.get("VERIF_SEED", "0"))
    except ValueError:
        return 0


def jdump(obj) -> str:
    return json.dumps(obj, sort_keys=True, default=_default)


def _default(o):
    try:
        import numpy as np

        if isinstance(o, np.integer):
            return int(o)
        if isinstance(o, np.floating):
            return float(o)
        if isinstance(o, np.bool_):
            return bool(o)
        if isinstance(o, complex) or isinstance(o, np.complexfloating):
            return {"re": float(o.real), "im": float(o.imag)}
        if isinstance(o, np.ndarray):
            if np.iscomplexobj(o):
                return {"re": o.real.tolist(), "im": o.imag.tolist()}
            return o.tolist()
    except ImportError:
        pass
    if isinstance(o, (set, frozenset, tuple)):
        return list(o)
    return repr(o)


def short_hash(obj) -> str:
    return hashlib.sha256(jdump(obj).encode()).hexdigest()[:12]


# ---------------------------------------------------------------------------------------------
# known findings
# ---------------------------------------------------------------------------------------------
def load_known():
    if not os.path.exists(KNOWN):
        return []
    with open(KNOWN) as fh:
        return json.load(fh).get("findings", [])


def match_known(viol: dict, known: list) -> dict | None:
    """A violation {property, function, clause, input_class, ...} matches a 'known' entry when property and function are
    equal and the violation's clause and input class each match one of the entry's patterns (a string or a list of strings;
    `*` `?` `[..]` as in fnmatch, matched case-sensitively against the whole string).  'fixed' entries never match."""
    import fnmatch

    def ok(patterns, value):
        if patterns is None:
            return False
        if isinstance(patterns, str):
            patterns = [patterns]
        return any(fnmatch.fnmatchcase(value or "", p) for p in patterns)

    for k in known:
        if k.get("status") != "known":
            continue
        if k.get("property") != viol.get("property") or k.get("function") != viol.get("function"):
            continue
        if ok(k.get("clause"), viol.get("clause")) and ok(k.get("input_class"), viol.get("input_class", "")):
            return k
    return None


# ---------------------------------------------------------------------------------------------
# replay files
# ---------------------------------------------------------------------------------------------
def write_replay(prop: str, viol: dict) -> str:
    os.makedirs(REPLAYS, exist_ok=True)
    name = "%s-%s-%s.json" % (prop, _slug(viol.get("clause", "clause")), short_hash(viol))
    path = os.path.join(REPLAYS, name)
    with open(path, "w") as fh:
        fh.write(json.dumps(viol, indent=1, sort_keys=True, default=_default))
    return path


def _slug(s: str) -> str:
    return "".join(c if c.isalnum() else "_" for c in s)[:60]


# ---------------------------------------------------------------------------------------------
# running the executor
# ---------------------------------------------------------------------------------------------
def executor_env():
    env = dict(os.environ)
    pp = [REPO, VERIF]
    if env.get("PYTHONPATH"):
        pp.append(env["PYTHONPATH"])
    env["PYTHONPATH"] = os.pathsep.join(pp)
    env.setdefault("OMP_NUM_THREADS", "1")
    env.setdefault("OPENBLAS_NUM_THREADS", "1")
    env.setdefault("MKL_NUM_THREADS", "1")
    env["PYTHONDONTWRITEBYTECODE"] = "1"
    env["PYTHONWARNINGS"] = "ignore"
    return env


def run_executor(args: list, timeout: float, stdin_obj=None):
    """Run `/venv/bin/python -m vt.executor <args>`; returns (parsed-json-or-None, stderr-tail, returncode)."""
    cmd = [EXECUTOR, "-m", "vt.executor"] + list(args)
    try:
        p = subprocess.run(
            cmd,
            input=None if stdin_obj is None else jdump(stdin_obj),
            capture_output=True,
            text=True,
            timeout=timeout,
            cwd=VERIF,
            env=executor_env(),
        )
    except subprocess.TimeoutExpired as e:
        return None, "executor timeout after %ss: %s" % (timeout, " ".join(cmd)), 124
    out = None
    for line in reversed(p.stdout.splitlines()):
        if line.startswith("{"):
            try:
                out = json.loads(line)
                break
            except ValueError:
                continue
    return out, p.stderr[-4000:], p.returncode


def source_info(relpath: str, qualname: str | None = None) -> dict:
    """Hash (and line span) of a function in the repository source, for evidence."""
    import ast

    path = os.path.join(REPO, relpath)
    src = open(path).read()
    info = {"file": relpath, "sha256": hashlib.sha256(src.encode()).hexdigest()[:16]}
    if qualname:
        body = ast.parse(src).body
        node = None
        for part in qualname.split("."):
            for n in body:
                if isinstance(n, (ast.FunctionDef, ast.ClassDef)) and n.name == part:
                    node = n
                    body = n.body
                    break
            else:
                node = None
                break
        if node is not None:
            info["function"] = qualname
            info["lines"] = [node.lineno, node.end_lineno]
            seg = "\n".join(src.splitlines()[node.lineno - 1 : node.end_lineno])
            info["fn_sha256"] = hashlib.sha256(seg.encode()).hexdigest()[:16]
    return info


class Timer:
    def __init__(self):
        self.t0 = time.time()

    def s(self) -> float:
        return round(time.time() - self.t0, 3)
