"""Mechanical extraction of the functions under contract from the repository's *current* source text.

Nothing is hand-copied: every run parses /repo/toqito/**.py with `ast`.  What the extraction drops: docstrings,
comments, type annotations and decorators' effects (none of the functions under contract is decorated except
`@staticmethod`/`@classmethod`, which are recorded).  The evidence lists file hash, function hash and line span.
"""
from __future__ import annotations

import ast
import hashlib
import os

from .common import REPO


class Source:
    def __init__(self, relpath, text=None):
        self.relpath = relpath
        self.path = os.path.join(REPO, relpath)
        self.text = open(self.path).read() if text is None else text
        self.tree = ast.parse(self.text)
        self.sha = hashlib.sha256(self.text.encode()).hexdigest()[:16]

    def find(self, qualname):
        body = self.tree.body
        node = None
        for part in qualname.split("."):
            for n in body:
                if isinstance(n, (ast.FunctionDef, ast.ClassDef)) and n.name == part:
                    node = n
                    body = n.body
                    break
            else:
                raise KeyError("%s not found in %s" % (qualname, self.relpath))
        return node

    def function(self, qualname):
        fn = self.find(qualname)
        if not isinstance(fn, ast.FunctionDef):
            raise KeyError(qualname)
        strip_docstring(fn)
        return fn

    def info(self, qualname):
        fn = self.find(qualname)
        seg = "\n".join(self.text.splitlines()[fn.lineno - 1 : fn.end_lineno])
        return {
            "file": "toqito/" + self.relpath.split("toqito/", 1)[-1] if "toqito/" in self.relpath else self.relpath,
            "function": qualname,
            "lines": [fn.lineno, fn.end_lineno],
            "file_sha256": self.sha,
            "fn_sha256": hashlib.sha256(seg.encode()).hexdigest()[:16],
        }

    def mutated(self, old, new, count=1):
        """In-memory mutant of this file (planted-bug self-check); never written to disk."""
        if old not in self.text:
            raise KeyError("mutation anchor not found in %s: %r" % (self.relpath, old))
        return Source(self.relpath, self.text.replace(old, new, count))


def strip_docstring(fn):
    if fn.body and isinstance(fn.body[0], ast.Expr) and isinstance(fn.body[0].value, ast.Constant) and isinstance(fn.body[0].value.value, str):
        fn.body = fn.body[1:] or [ast.Pass()]
    return fn


def load(relpath, names, text=None):
    src = Source(relpath, text)
    return {n.split(".")[-1]: src.function(n) for n in names}, src
