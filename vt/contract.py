"""Exceptions shared by contract clauses and the executor."""


class Violation(Exception):
    """the contract's postcondition (or `returns normally`) is broken on this input"""


class Undecided(Exception):
    """the case cannot be judged (solver breakdown, non-optimal status, outside requires)"""
