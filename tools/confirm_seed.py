#!/usr/bin/env python3
"""tools/confirm_seed.py <PROP> <k> <worktree> <outdir> <test packages...>
Confirms a seeded breaking change myself (demo fails with it / passes without; the named existing tests pass with it), runs
./check <PROP> against the patched scratch worktree (VERIF_REPO), and files it under /verif/seeded/<PROP>-<k>/ with meta.json."""
import json
import os
import shutil
import subprocess
import sys
import time

prop, k, wt, outdir = sys.argv[1:5]
tests = sys.argv[5:]
src = os.path.join(outdir, k)
patch = os.path.join(src, "patch.diff")
V = "/verif"


def sh(cmd, cwd=None, env=None, timeout=3600):
    p = subprocess.run(cmd, shell=True, cwd=cwd, env=env, capture_output=True, text=True, timeout=timeout)
    return p.returncode, (p.stdout + p.stderr)


sh("git checkout -q -- .", wt)
rc_clean, out_clean = sh("/venv/bin/python %s/demo.py" % src, wt)
rc, out = sh("git apply %s" % patch, wt)
if rc != 0:
    print("patch does not apply:", out)
    sys.exit(2)
rc_mut, out_mut = sh("/venv/bin/python %s/demo.py" % src, wt)
t = time.time()
rc_t, out_t = sh("/venv/bin/python -m pytest -q -p no:cacheprovider -x -n 6 --deselect toqito/matrix_props/tests/test_kp_norm.py %s 2>&1 | tail -3" % " ".join(tests), wt)
env = dict(os.environ)
env["VERIF_REPO"] = wt
rc_c, out_c = sh("./check %s --tier quick" % prop, V, env, timeout=1800)
sh("git checkout -q -- .", wt)
lines = [l for l in out_c.splitlines() if l.startswith("VIOLATION") or l.startswith("  ") or l.startswith(prop)]
meta = {
    "property": prop,
    "seed": "%s-%s%s" % (prop, os.environ.get("SEED_PREFIX", ""), k),
    "needs_to_manifest": open(os.path.join(src, "notes.md")).read()[:3000] if os.path.exists(os.path.join(src, "notes.md")) else "",
    "confirmed": {
        "demo_exit_clean": rc_clean,
        "demo_exit_with_change": rc_mut,
        "existing_tests_run": tests,
        "existing_tests_tail": out_t.strip().splitlines()[-1:] if out_t.strip() else [],
        "existing_tests_pass_with_change": ("passed" in out_t and "failed" not in out_t and "error" not in out_t.lower()),
    },
    "check": {"cmd": "VERIF_REPO=<worktree with patch> ./check %s --tier quick" % prop, "exit": rc_c, "detected": rc_c == 1, "first_lines": lines[:8]},
}
ok = rc_clean == 0 and rc_mut != 0 and meta["confirmed"]["existing_tests_pass_with_change"]
meta["kept"] = ok
dst = os.path.join(V, "seeded", "%s-%s%s" % (prop, os.environ.get("SEED_PREFIX", ""), k))
if ok:
    os.makedirs(dst, exist_ok=True)
    shutil.copy(patch, os.path.join(dst, "patch.diff"))
    shutil.copy(os.path.join(src, "demo.py"), os.path.join(dst, "demo.py"))
    json.dump(meta, open(os.path.join(dst, "meta.json"), "w"), indent=1)
print(json.dumps({"seed": meta["seed"], "kept": ok, "demo_clean": rc_clean, "demo_mut": rc_mut, "tests": meta["confirmed"]["existing_tests_tail"], "detected": rc_c == 1, "check_exit": rc_c, "lines": lines[:4]}, indent=1)[:1500])
