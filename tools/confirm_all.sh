#!/bin/sh
# tools/confirm_all.sh <PROP> <test packages...>: confirm seeds 1..3 of a property and print one line each
P=$1; shift
# optional: SEED_DIR=<dir name under /tmp/seed, default the property id>, SEED_PREFIX=<tag put before the seed number>
D=${SEED_DIR:-$P}
for k in 1 2 3; do
  [ -f /tmp/seed/$D.out/$k/patch.diff ] || { echo "$P-$k: no patch"; continue; }
  python3 /verif/tools/confirm_seed.py $P $k /tmp/seed/$D /tmp/seed/$D.out "$@" 2>&1 | python3 -c "
import sys,json
try:
    d=json.load(sys.stdin); print(d['seed'],'kept',d['kept'],'demo',d['demo_clean'],d['demo_mut'],d['tests'],'DETECTED' if d['detected'] else 'MISSED', d['check_exit']); print('   ',[l[:220] for l in d['lines'][:3]])
except Exception as e: print('ERR',e)"
done
