#!/usr/bin/env python3
"""Regenerates the machine-made tables of DESIGN.md (between the BEGIN/END GENERATED markers): findings and seeded changes."""
import glob
import json
import os
import re

V = os.path.dirname(os.path.dirname(os.path.abspath(__file__)))
kf = json.load(open(os.path.join(V, "KNOWN_FINDINGS.json")))["findings"]
out = []
out.append("#### Findings (from KNOWN_FINDINGS.json)\n")
out.append("| id | property | status | function | what failed |")
out.append("|---|---|---|---|---|")
for f in kf:
    txt = f["text"].replace("|", "\\|")
    txt = re.sub(r"^fixed: property=\S+ \S+ ", "", txt)
    st = "fixed in `%s`" % f.get("commit") if f["status"] == "fixed" else "**known** (reported as KNOWN-FINDING)"
    out.append("| %s | %s | %s | `%s` | %s |" % (f.get("id"), f["property"], st, f["function"], txt[:420]))
out.append("")
out.append("#### Seeded breaking changes (from seeded/*/meta.json) and the checks that catch them\n")
out.append("| seed | property | what it needs to manifest (author's note, first lines) | caught by (first violation lines of `./check <ID>` on the patched tree) |")
out.append("|---|---|---|---|")
for m in sorted(glob.glob(os.path.join(V, "seeded", "*", "meta.json"))):
    d = json.load(open(m))
    note = " ".join(d.get("needs_to_manifest", "").split())[:330].replace("|", "\\|")
    lines = [l.strip() for l in d["check"].get("first_lines", []) if l.strip().startswith(("VIOLATION", "KNOWN")) is False][:2]
    caught = "; ".join(l[:170] for l in lines).replace("|", "\\|") if d["check"].get("detected") else "**MISSED** by the quick tier at the time of filing"
    out.append("| %s | %s | %s | %s |" % (d["seed"], d["property"], note, caught))
body = "\n".join(out) + "\n"
p = os.path.join(V, "DESIGN.md")
s = open(p).read()
b, e = "<!-- BEGIN GENERATED TABLES -->", "<!-- END GENERATED TABLES -->"
if b in s:
    s = s[: s.index(b) + len(b)] + "\n" + body + s[s.index(e) :]
    open(p, "w").write(s)
    print("tables regenerated: %d findings, %d seeds" % (len(kf), len(glob.glob(os.path.join(V, "seeded", "*", "meta.json")))))
else:
    print("markers not found")
