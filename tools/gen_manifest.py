#!/usr/bin/env python3-vt
"""Regenerate MANIFEST.json from the property modules' metadata (run by hand after adding/removing a check)."""
import importlib
import json
import os
import sys

HERE = os.path.dirname(os.path.dirname(os.path.abspath(__file__)))
sys.path.insert(0, HERE)
sys.dont_write_bytecode = True

props = [json.loads(l) for l in open(os.path.join(HERE, "properties.jsonl"))]
NA = json.load(open(os.path.join(HERE, "tools", "not_applicable.json")))
checks = []
na = []
engines = {
    "E1-pyvc": {"name": "E1-pyvc", "path": "vt/pyvc", "serves_properties": [], "kind_free_text": "verification-condition generator over the real AST (symbolic executor with mixed-radix numerals, callee contracts at call sites, loop invariants) discharged by z3 / cvc5 / polynomial normal form; deductive, unbounded in dimensions / lengths"},
    "E2-frame": {"name": "E2-frame", "path": "vt/frame.py", "serves_properties": [], "kind_free_text": "frame (modifies) and RNG-ownership clauses discharged by a conservative flow-sensitive alias/effect analysis of the real AST; deductive"},
    "E3-E4-rtc": {"name": "E3-E4-rtc", "path": "vt/executor.py", "serves_properties": [], "kind_free_text": "bounded stand-in: the same contracts evaluated at run time on the real functions (sympy-symbol entries per configuration, constructed ground truth, certificates); never counted as proved"},
}
CLAIMED = json.load(open(os.path.join(HERE, "tools", "claimed.json")))
for p in props:
    pid = p["id"]
    if pid not in CLAIMED:
        na.append({"property_id": pid, "reason": NA.get(pid) or "check not integrated yet (build in progress; DESIGN.md section 8)"})
        continue
    try:
        mod = importlib.import_module("props." + pid)
    except ModuleNotFoundError:
        mod = None
    if mod is None or getattr(mod, "NOT_CLAIMED", None):
        na.append({"property_id": pid, "reason": NA.get(pid) or (getattr(mod, "NOT_CLAIMED", None) if mod else None) or "check not built yet (build in progress; DESIGN.md section 8)"})
        continue
    level = getattr(mod, "LEVEL", "exploration")
    used = getattr(mod, "ENGINES", ["E3-E4-rtc"] + (["E1-pyvc"] if hasattr(mod, "prove") else []))
    alias = {"E4-rtc": "E3-E4-rtc", "E3-rtc": "E3-E4-rtc", "E1": "E1-pyvc", "E2": "E2-frame"}
    used = [alias.get(e, e) for e in used]
    used = [e for e in used if e in engines] or ["E3-E4-rtc"]
    for e in used:
        engines[e]["serves_properties"].append(pid)
    checks.append({
        "property_id": pid,
        "quick_cmd": "./check %s --tier quick" % pid,
        "thorough_cmd": "./check %s --tier thorough" % pid,
        "evidence_file": "/verif/evidence/%s.json" % pid,
        "replay_cmd_template": "./check %s --replay {path}" % pid,
        "engine": "+".join(used),
        "level_claimed": {"category": level, "text": getattr(mod, "LEVEL_TEXT", getattr(mod, "EXPLANATION", "")), "design_ref": "DESIGN.md section 5, %s" % pid},
        "level_note": getattr(mod, "LEVEL_NOTE", "; ".join(getattr(mod, "TRUSTED", []))[:1500]),
        "technique": getattr(mod, "TECHNIQUE", "run-time-checked contracts on the real functions over a bounded domain (bounded stand-in)"),
    })
m = {
    "version": 1,
    "setup_cmd": "cd /verif && ./tools/setup.sh",
    "hooks": {
        "guard": "TOQITO_VERIF",
        "enable": "no source hook is needed: contracts are sidecar files in /verif keyed by qualified function name (and loop ordinal); the guard variable is unused",
        "baseline_off_cmd": "cd /repo && /venv/bin/python -m pytest -ra -q -p no:cacheprovider --timeout=900 --continue-on-collection-errors",
        "source_commits": [],
        "add_only": True,
    },
    "engines": [e for e in engines.values() if e["serves_properties"]],
    "checks": checks,
    "notes": "Contract-based deductive verification of the real code (see DESIGN.md). Prover process: python3-vt (z3, cvc5, sympy) parses /repo source on every run; executor process: /venv/bin/python imports toqito from /repo. Exit 0 held / 1 violation (VIOLATION line) / 3 no engine produced a verdict. Known findings: KNOWN_FINDINGS.json.",
    "not_applicable": na,
}
json.dump(m, open(os.path.join(HERE, "MANIFEST.json"), "w"), indent=1)
import jsonschema

jsonschema.validate(m, json.load(open("/root/.vp/MANIFEST.schema.json")))
print("MANIFEST ok: %d checks, %d not_applicable" % (len(checks), len(na)))
