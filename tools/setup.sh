#!/bin/sh
# Nothing to build: the framework is pure Python run by the two pre-installed interpreters.
# Sanity: both interpreters and the solvers are present.
set -e
python3-vt -c "import z3, sympy, numpy; print('prover ok: z3', z3.get_version_string(), 'sympy', sympy.__version__)"
/venv/bin/python -c "import numpy, toqito; print('executor ok: toqito from', toqito.__path__[0])"
test -x /usr/bin/cvc5 && echo "cvc5 ok" || echo "cvc5 CLI missing (z3 unknowns will stay undecided)"
# the one arithmetic rule built into the E1-array generator, re-proved in Lean (core library only)
if command -v lean >/dev/null 2>&1; then (cd /verif/lean && lean MixedRadix.lean && echo "lean ok: mixed-radix rule re-checked") || echo "lean check of the mixed-radix rule FAILED (trusted base item, reported only)"; else echo "lean not on PATH: mixed-radix rule not re-checked"; fi
mkdir -p /verif/evidence /verif/replays
