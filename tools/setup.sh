#!/bin/sh
# Nothing to build: the framework is pure Python run by the two pre-installed interpreters.
# Sanity: both interpreters and the solvers are present.
set -e
python3-vt -c "import z3, sympy, numpy; print('prover ok: z3', z3.get_version_string(), 'sympy', sympy.__version__)"
/venv/bin/python -c "import numpy, toqito; print('executor ok: toqito from', toqito.__path__[0])"
test -x /usr/bin/cvc5 && echo "cvc5 ok" || echo "cvc5 CLI missing (z3 unknowns will stay undecided)"
mkdir -p /verif/evidence /verif/replays
