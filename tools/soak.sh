#!/bin/sh
# tools/soak.sh "<seeds>" [tier]: runs every claimed check for each seed; prints checks that exit non-zero or print VIOLATION
cd /verif
TIER=${2:-quick}
for seed in $1; do
  for id in $(python3 -c "import json; print(' '.join(json.load(open('tools/claimed.json'))))"); do
    out=$(VERIF_SEED=$seed ./check $id --tier $TIER 2>&1); rc=$?
    if [ $rc -ne 0 ] || echo "$out" | grep -q "^VIOLATION"; then echo "== seed=$seed $id rc=$rc"; echo "$out" | grep -E "^VIOLATION|^  |^ERROR" | cut -c1-240 | head -6; fi
    echo "$out" | tail -1 | cut -c1-200
  done
done
