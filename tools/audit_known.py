#!/usr/bin/env python3
"""Development aid: for one property, run the bounded cases (executor side) and list, for every `known` finding, the
(clause, input class) pairs its patterns match that contain at least one PASSING case -- i.e. where the pattern is broader
than the failures it stands for and could hide a new defect.   usage: /venv/bin/python tools/audit_known.py C15 [quick|thorough]"""
import collections
import importlib
import os
import sys

sys.path.insert(0, "/verif")
os.environ.setdefault("VERIF_REPO", "/repo")
sys.path.insert(0, os.environ["VERIF_REPO"])
from vt import common, executor  # noqa: E402

prop = sys.argv[1]
tier = sys.argv[2] if len(sys.argv) > 2 else "quick"
mod = importlib.import_module("props." + prop)
cases = mod.cases(tier, 0)
known = [k for k in common.load_known() if k.get("status") == "known" and k.get("property") == prop]
sel = []
for c in cases:
    fn = getattr(mod.CLAUSES[c["clause"]], "function", None) if c["clause"] in mod.CLAUSES else None
    v = dict(property=prop, function=c.get("function") or fn, clause=c["clause"], input_class=c.get("input_class", ""))
    k = common.match_known(v, known)
    if k:
        c = dict(c)
        c["_kid"] = k["id"]
        sel.append(c)
print("%d of %d cases fall under a known-finding pattern" % (len(sel), len(cases)))
res, skipped = executor.run_cases(prop, sel, budget=1500)
stat = collections.defaultdict(lambda: collections.Counter())
for r in res:
    k = common.match_known(dict(property=prop, function=r.get("function"), clause=r.get("clause"), input_class=r.get("input_class", "")), known)
    stat[(k["id"] if k else None, r.get("clause"), r.get("input_class"))][r["status"]] += 1
for key in sorted(stat, key=lambda t: tuple(str(x) for x in t)):
    s = stat[key]
    if s.get("ok"):
        print("BROAD  %s  %s | %s : %s" % (key[0], key[1], key[2], dict(s)))
    elif os.environ.get("AUDIT_ALL"):
        print("exact  %s  %s | %s : %s" % (key[0], key[1], key[2], dict(s)))
print("skipped", skipped)
