#!/usr/bin/env python3
"""tools/coverage_gaps.py <ID> [--tier quick]: run the bounded cases of a property under coverage.py (branch mode, fork-pool aware) and list,
per anchor file of the property, the lines / branch arcs of the library the cases never execute.  A development aid (not part of any check):
a branch no case reaches is a branch no run-time contract can speak about -- the list is where to add input classes.
Writes .work/coverage/<ID>.json and prints a summary.  Uses /venv's coverage; scratch data under .work/ (removed afterwards)."""
import json
import os
import shutil
import subprocess
import sys

VERIF = os.path.dirname(os.path.dirname(os.path.abspath(__file__)))
REPO = os.environ.get("VERIF_REPO", "/repo")


def main():
    prop = sys.argv[1]
    tier = sys.argv[sys.argv.index("--tier") + 1] if "--tier" in sys.argv else "quick"
    work = os.path.join(VERIF, ".work", "coverage", prop)
    shutil.rmtree(work, ignore_errors=True)
    os.makedirs(work)
    rc = os.path.join(work, "coveragerc")
    with open(rc, "w") as fh:
        fh.write("[run]\nbranch = True\nparallel = True\nsource = %s/toqito\ndata_file = %s/.coverage\nomit = */tests/*\n" % (REPO, work))
    env = dict(os.environ, PYTHONPATH=os.pathsep.join([REPO, VERIF]), COVERAGE_RCFILE=rc, OMP_NUM_THREADS="1", OPENBLAS_NUM_THREADS="1", PYTHONWARNINGS="ignore")
    # the executor's pool terminates its workers (no coverage flush): shard the cases over independent single-process runs instead
    dump = subprocess.run(["/venv/bin/python", "-c", "import sys, json, importlib; from vt.common import jdump; m = importlib.import_module('props.%s'); print(jdump(list(m.cases('%s', 0))))" % (prop, tier)], cwd=VERIF, env=env, capture_output=True, text=True)
    cases = json.loads(dump.stdout.strip().splitlines()[-1])
    nshard = 14
    procs = []
    for k in range(nshard):
        shard = cases[k::nshard]
        if not shard:
            continue
        pr = subprocess.Popen(["/venv/bin/python", "-m", "coverage", "run", "--rcfile", rc, "-m", "vt.executor", "cases", prop, "--procs", "1"], cwd=VERIF, env=env, stdin=subprocess.PIPE, stdout=subprocess.DEVNULL, stderr=subprocess.DEVNULL, text=True)
        pr.stdin.write(json.dumps(shard))
        pr.stdin.close()
        procs.append(pr)
    for pr in procs:
        pr.wait()
    print("%d cases in %d shards" % (len(cases), len(procs)))
    subprocess.run(["/venv/bin/python", "-m", "coverage", "combine", "--rcfile", rc], cwd=work, env=env, capture_output=True)
    js = os.path.join(work, "cov.json")
    subprocess.run(["/venv/bin/python", "-m", "coverage", "json", "--rcfile", rc, "-o", js], cwd=work, env=env, capture_output=True)
    data = json.load(open(js))
    anchors = set()
    for line in open(os.path.join(VERIF, "properties.jsonl")):
        d = json.loads(line)
        if d["id"] == prop:
            an = d.get("anchors", {})
            for f in (an.get("files", []) if isinstance(an, dict) else an):
                anchors.add(str(f).split(":")[0])
    out = {}
    for f, info in data["files"].items():
        rel = os.path.relpath(f, REPO) if os.path.isabs(f) else f
        if anchors and not any(rel == a or rel.startswith(a.rstrip("/") + "/") for a in anchors):
            continue
        miss = info.get("missing_lines", [])
        mb = info.get("missing_branches", [])
        if not miss and not mb:
            continue
        src = open(os.path.join(REPO, rel)).read().splitlines()
        out[rel] = {"percent": round(info["summary"]["percent_covered"], 1), "missing_lines": [(n, src[n - 1].strip()[:110]) for n in miss], "missing_branches": [(a, b) for a, b in mb if a not in miss]}
    dest = os.path.join(VERIF, ".work", "coverage", prop + ".json")
    json.dump(out, open(dest, "w"), indent=1)
    shutil.rmtree(work, ignore_errors=True)
    for rel in sorted(out):
        o = out[rel]
        print("%s  %.1f%%  missing lines %d, partial branches %d" % (rel, o["percent"], len(o["missing_lines"]), len(o["missing_branches"])))
        for n, text in o["missing_lines"][:40]:
            print("     %4d  %s" % (n, text))
        for a, b in o["missing_branches"][:20]:
            print("     branch %d -> %d never taken:  %s" % (a, b, open(os.path.join(REPO, rel)).read().splitlines()[a - 1].strip()[:100]))
    print("anchors:", sorted(anchors))


if __name__ == "__main__":
    main()
