#!/venv/bin/python
"""tools/viol_keys.py <PROP> [tier]: run the bounded cases in the executor pool and print every distinct violation key"""
import collections, importlib, os, sys
sys.path[:0] = ["/repo", "/verif"]
os.chdir("/verif")
os.environ.setdefault("PYTHONWARNINGS", "ignore")
import warnings; warnings.filterwarnings("ignore")
from vt import executor
prop = sys.argv[1]; tier = sys.argv[2] if len(sys.argv) > 2 else "quick"
mod = importlib.import_module("props." + prop)
cases = list(mod.cases(tier, int(os.environ.get("VERIF_SEED", "0"))))
res, sk = executor.run_cases(prop, cases, budget=float(os.environ.get("BUDGET", "400")))
c = collections.Counter((r["function"], r["clause"], r["input_class"]) for r in res if r["status"] == "violation")
for k, v in sorted(c.items()):
    print(v, k)
u = collections.Counter((r["clause"], r.get("detail", "")[:60]) for r in res if r["status"] == "undecided")
print("undecided:", sum(u.values()), list(u.items())[:5], "skipped:", sk, "total:", len(res))
