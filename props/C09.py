"""C09 -- extended nonlocal games, quantum hedging, optimal cloning: brute force, ordering, strong duality, closed forms."""
from __future__ import annotations

import itertools

ID = "C09"
TITLE = "Extended games, hedging, cloning: closed forms, ordering, strong duality"
LEVEL = "exploration"
BUDGET = {"quick": 80, "thorough": 900}
ENGINES = ["E1-pyvc", "E2-frame", "E3-E4-rtc"]
TECHNIQUE = "VCs from the real AST (z3): the parallel-repetition branch of ExtendedNonlocalGame.__init__ builds the product referee table (loop invariants over the question odometers, update_odometer by its proved contract); frame clauses by taint analysis; run-time-checked contracts on the real functions over a bounded domain (bounded stand-in) for every value"
LEVEL_TEXT = (
    "Bounded. Extended games: unentangled_value is compared (>= and <= separately) with a brute force over all pairs of deterministic answer functions of the largest eigenvalue "
    "of the question-averaged referee operator; every NPA bound must dominate that brute-force value (an achieved value) and the see-saw lower bound, and be dominated by the non-signalling value. "
    "Hedging and cloning: every primal/dual return value must lie in a bracket [L, U] computed here from weak-duality certificates for the defining program "
    "max/min <Q, X> : Tr_out X = I, X >= 0 -- an explicitly feasible X (re-normalised so that the partial trace is exactly I) and an explicitly feasible Y "
    "(I (x) Y - Q checked by eigenvalues, repaired by a shift); plus primal == dual, max >= min, two repetitions vs. the single-shot optimum and the closed forms cos^2(pi/8), sin^2(pi/8), cos^4(pi/8), 0, 3/4, 9/16, 2/3, 1. "
    "Tolerance 5e-4 for SDP-backed values. No value is proved for all inputs. Proved (E1-integer, reps = 2, 3 and all referee dimensions, answer and question counts): "
    "ExtendedNonlocalGame(prob, V, reps) stores prob_mat = tensor(prob, reps) and a new table whose block at questions (i, j) is tensor_k V[..., x_k, y_k] with (x_k), (y_k) the base-X / base-Y digits of i / j. "
    "Proved (E1-prog, 1 and 2 repetitions, all operators): the four cvxpy programs of QuantumHedging and the primal / dual programs of optimal_clone are the stated ones "
    "(max / min <Q, X> s.t. the stated partial trace of X equals I, X >= 0; min / max Tr Y s.t. P (I (x) Y) P^* >= / <= Q), solved once, and their optimum is what is returned."
)
RULE = (
    "Extended games: named games (BB84, CHSH, BB84 with relabelled answers) plus seeded random games over a fixed list of shapes (referee dim 2..3, answers 1..3, questions 1..3, unequal counts included), real and complex "
    "PSD predicates that are not symmetric under exchanging players or answers, non-uniform distributions; at most 2000 strategy pairs each. Hedging: Molina-Watrous operators and seeded random real/complex PSD Q on two qubits, n = 1, 2. "
    "Cloning: Wiesner, six-state, single-state, orthogonal-pair ensembles and seeded random real/complex qubit ensembles with random priors, given as column vectors, 1-D arrays or pure density matrices, reps 1..2, both primal and dual. "
    "Non-trivial = more than one strategy pair / a non-constant Q / more than one state; distinct = distinct (clause, parameters)."
)
EXPLANATION = LEVEL_TEXT
TRUSTED = [
    "numpy.linalg.eigvalsh / eigh (LAPACK) decide positive semidefiniteness of certificates and give the brute-force largest eigenvalues",
    "weak duality of  max <Q,X> : Tr_out X = I_in, X >= 0  against  min Tr Y : I_out (x) Y >= Q; the optimum for n independent repetitions of a PSD Q is the n-th power of the single-shot maximum (product of feasible primal / dual points)",
    "cvxpy (Clarabel) is used on the oracle side only to *propose* primal and dual points in a direct formulation (no subsystem permutation operators); every point is repaired to exact feasibility and re-evaluated with numpy before it is used",
    "an unentangled strategy value (largest eigenvalue for a pair of answer functions) is an achieved commuting-measurement value, so every sound NPA bound and the non-signalling value dominate it",
    "quantum_value_lower_bound does not return its strategy, so that it is an achieved value is taken from its construction; it is only compared with the upper bounds",
    "SDP-backed return values are compared with absolute tolerance 5e-4",
]
TRUSTED.append("E1-prog (program contracts): matrices and cvxpy variables are uninterpreted terms; cvxpy semantics assumed (>> / << Loewner order, == equality constraint, @ matrix product, kron / multiply / trace / real by name; Problem(objective, constraints).solve() returns the optimum, which is certified only on the bounded tier); objectives compared modulo Re Tr(Re A) = Re Tr A and Re Tr(A^* B) = <A, B>; the object's _sys / _dim are proved to be what __init__ stores for the enumerated number of repetitions (index bookkeeping evaluated concretely with numpy); _pperm is an opaque operator here (its value is checked by the bounded tier)")
TRUSTED.append("E1-integer (constructor proof): update_odometer enters through its postcondition proved in C07 (instantiated at the fixed length, instantiation checked by z3); `tensor` is an opaque term (its contract: C16); numpy array contents are tracked by shape and by the slices stored, integers are mathematical")
ASSUMPTIONS = TRUSTED

TOL_SDP = 5e-4


# =============================================================================================
# executor side
# =============================================================================================
def _herm(M):
    return (M + M.conj().T) / 2


def _finite(v, what):
    import numpy as np

    from vt.contract import Undecided

    if v is None or not np.isfinite(v):
        raise Undecided("%s: solver returned %r" % (what, v))
    return float(np.real(v))


# ------------------------------------------------------------------------------ extended nonlocal games
def _enlg_instance(p):
    import numpy as np

    name = p.get("name")
    if name in ("bb84", "bb84-relabelled"):
        e0, e1 = np.array([[1.0], [0.0]]), np.array([[0.0], [1.0]])
        ep, em = (e0 + e1) / np.sqrt(2), (e0 - e1) / np.sqrt(2)
        V = np.zeros((2, 2, 2, 2, 2, 2))
        V[:, :, 0, 0, 0, 0] = e0 @ e0.T
        V[:, :, 1, 1, 0, 0] = e1 @ e1.T
        if name == "bb84":
            V[:, :, 0, 0, 1, 1] = ep @ ep.T
            V[:, :, 1, 1, 1, 1] = em @ em.T
        else:  # for the second question pair Alice's answer is relabelled (a -> 1 - a); the game is equivalent to BB84
            V[:, :, 1, 0, 1, 1] = ep @ ep.T
            V[:, :, 0, 1, 1, 1] = em @ em.T
        return 0.5 * np.eye(2), V
    if name == "chsh":
        V = np.zeros((2, 2, 2, 2, 2, 2))
        for x, y in ((0, 0), (0, 1), (1, 0)):
            V[:, :, 0, 0, x, y] = np.array([[1, 0], [0, 0]])
            V[:, :, 1, 1, x, y] = np.array([[0, 0], [0, 1]])
        V[:, :, 0, 1, 1, 1] = 0.5 * np.array([[1, 1], [1, 1]])
        V[:, :, 1, 0, 1, 1] = 0.5 * np.array([[1, -1], [-1, 1]])
        return np.full((2, 2), 0.25), V
    R, A, B, X, Y = p["shape"]
    rng = np.random.default_rng(p.get("seed", 0))
    cplx = bool(p.get("complex"))
    prob = rng.random((X, Y)) + 0.05
    prob /= prob.sum()
    V = np.zeros((R, R, A, B, X, Y), dtype=complex if cplx else float)
    for a in range(A):
        for b in range(B):
            for x in range(X):
                for y in range(Y):
                    G = rng.standard_normal((R, R))
                    if cplx:
                        G = G + 1j * rng.standard_normal((R, R))
                    M = G @ G.conj().T
                    M = _herm(M)
                    M = M / (np.linalg.eigvalsh(M)[-1] * (1 + rng.random()))
                    V[:, :, a, b, x, y] = M
    return prob, V


def _unent_brute(prob, V):
    """max over all pairs of deterministic answer functions of lambda_max(sum_xy pi(x,y) V(f(x), g(y) | x, y))"""
    import numpy as np

    R, _, A, B, X, Y = V.shape
    best = -np.inf
    arg = None
    for f in itertools.product(range(A), repeat=X):
        for g in itertools.product(range(B), repeat=Y):
            M = np.zeros((R, R), dtype=complex)
            for x in range(X):
                for y in range(Y):
                    M += prob[x, y] * V[:, :, f[x], g[y], x, y]
            lam = float(np.linalg.eigvalsh(_herm(M))[-1])
            if lam > best:
                best, arg = lam, (f, g)
    return best, arg


def _enlg(p):
    from toqito.nonlocal_games.extended_nonlocal_game import ExtendedNonlocalGame

    prob, V = _enlg_instance(p)
    return ExtendedNonlocalGame(prob.copy(), V.copy()), prob, V


def enlg_unent_ge(p):
    """unentangled_value >= max over pairs of answer functions of the largest eigenvalue (never an under-estimate)"""
    from vt.contract import Violation

    g, prob, V = _enlg(p)
    got = _finite(g.unentangled_value(), "unentangled_value")
    exp, arg = _unent_brute(prob, V)
    if got < exp - TOL_SDP:
        raise Violation("unentangled_value = %.6f < %.6f attained by the answer functions f=%s, g=%s (shape (R,A,B,X,Y)=%s)" % (got, exp, list(arg[0]), list(arg[1]), _shape(V)))
    return {"got": got, "brute": exp}


def enlg_unent_le(p):
    """unentangled_value <= max over pairs of answer functions of the largest eigenvalue (it is an achieved value)"""
    from vt.contract import Violation

    g, prob, V = _enlg(p)
    got = _finite(g.unentangled_value(), "unentangled_value")
    exp, arg = _unent_brute(prob, V)
    if got > exp + TOL_SDP:
        raise Violation("unentangled_value = %.6f > brute-force maximum %.6f (shape (R,A,B,X,Y)=%s)" % (got, exp, _shape(V)))


def _product_game(prob, V, reps):
    """the reps-fold parallel repetition from the single-shot data: V(a1..ar, b1..br | x1..xr, y1..yr) = (x)_k V(ak, bk | xk, yk), prior the product"""
    import numpy as np

    R, _, A, B, X, Y = V.shape
    prob_r = np.zeros((X**reps, Y**reps))
    V_r = np.zeros((R**reps, R**reps, A**reps, B**reps, X**reps, Y**reps), dtype=V.dtype)
    rng = [list(itertools.product(range(n), repeat=reps)) for n in (A, B, X, Y)]
    for ix, xs in enumerate(rng[2]):
        for iy, ys in enumerate(rng[3]):
            pr = 1.0
            for k in range(reps):
                pr *= prob[xs[k], ys[k]]
            prob_r[ix, iy] = pr
            for ia, as_ in enumerate(rng[0]):
                for ib, bs in enumerate(rng[1]):
                    op = np.eye(1)
                    for k in range(reps):
                        op = np.kron(op, V[:, :, as_[k], bs[k], xs[k], ys[k]])
                    V_r[:, :, ia, ib, ix, iy] = op
    return prob_r, V_r


def enlg_reps_unent(p):
    """ExtendedNonlocalGame(prob, V, reps): unentangled value == brute-force maximum for the reps-fold product game built from the single-shot data"""
    from toqito.nonlocal_games.extended_nonlocal_game import ExtendedNonlocalGame
    from vt.contract import Violation

    prob, V = _enlg_instance(p)
    reps = p["reps"]
    try:
        g = ExtendedNonlocalGame(prob.copy(), V.copy(), reps)
    except Exception as e:
        raise Violation("ExtendedNonlocalGame(reps=%d) cannot be constructed for question counts (X, Y) = %s: %s: %s" % (reps, list(V.shape[4:]), type(e).__name__, str(e)[:120]))
    got = _finite(g.unentangled_value(), "unentangled_value")
    prob_r, V_r = _product_game(prob, V, reps)
    exp, arg = _unent_brute(prob_r, V_r)
    if abs(got - exp) > TOL_SDP:
        raise Violation("unentangled_value of the %d-fold repetition = %.6f, brute force over the answer functions of the product game = %.6f (single-shot shape (R,A,B,X,Y)=%s)" % (reps, got, exp, _shape(V)))
    return {"got": got, "brute": exp}


def _shape(V):
    R, _, A, B, X, Y = V.shape
    return [R, A, B, X, Y]


def _k(p):
    k = p.get("k", 1)
    return k


def enlg_npa_ge_unent(p):
    """commuting_measurement_value_upper_bound(k) >= brute-force unentangled value (an achieved value)"""
    from vt.contract import Violation

    g, prob, V = _enlg(p)
    got = _finite(g.commuting_measurement_value_upper_bound(k=_k(p)), "NPA")
    exp, arg = _unent_brute(prob, V)
    if got < exp - TOL_SDP:
        raise Violation("NPA level %s 'upper bound' = %.6f < %.6f, the value achieved by the unentangled strategy f=%s, g=%s (shape (R,A,B,X,Y)=%s)" % (_k(p), got, exp, list(arg[0]), list(arg[1]), _shape(V)))
    return {"npa": got, "brute": exp}


def enlg_npa_ge_qlb(p):
    """commuting_measurement_value_upper_bound(k) >= quantum_value_lower_bound (an achieved value)"""
    import numpy as np

    from vt.contract import Violation

    g, prob, V = _enlg(p)
    np.random.seed(p.get("seed", 0))
    ql = _finite(g.quantum_value_lower_bound(iters=p.get("iters", 1)), "quantum_value_lower_bound")
    got = _finite(g.commuting_measurement_value_upper_bound(k=_k(p)), "NPA")
    if got < ql - 2 * TOL_SDP:
        raise Violation("NPA level %s 'upper bound' = %.6f < quantum_value_lower_bound = %.6f (shape (R,A,B,X,Y)=%s)" % (_k(p), got, ql, _shape(V)))


def enlg_npa_le_ns(p):
    """commuting_measurement_value_upper_bound(k) <= nonsignaling_value"""
    from vt.contract import Violation

    g, prob, V = _enlg(p)
    got = _finite(g.commuting_measurement_value_upper_bound(k=_k(p)), "NPA")
    ns = _finite(g.nonsignaling_value(), "nonsignaling_value")
    if got > ns + 2 * TOL_SDP:
        raise Violation("NPA level %s bound %.6f > non-signalling value %.6f (shape (R,A,B,X,Y)=%s)" % (_k(p), got, ns, _shape(V)))


def enlg_ns_ge_unent(p):
    """nonsignaling_value >= brute-force unentangled value"""
    from vt.contract import Violation

    g, prob, V = _enlg(p)
    ns = _finite(g.nonsignaling_value(), "nonsignaling_value")
    exp, arg = _unent_brute(prob, V)
    if ns < exp - TOL_SDP:
        raise Violation("non-signalling value %.6f < %.6f achieved by an unentangled strategy (shape (R,A,B,X,Y)=%s)" % (ns, exp, _shape(V)))


def enlg_qlb_le_ns(p):
    """quantum_value_lower_bound <= nonsignaling_value"""
    import numpy as np

    from vt.contract import Violation

    g, prob, V = _enlg(p)
    np.random.seed(p.get("seed", 0))
    ql = _finite(g.quantum_value_lower_bound(iters=p.get("iters", 1)), "quantum_value_lower_bound")
    ns = _finite(g.nonsignaling_value(), "nonsignaling_value")
    if ql > ns + 2 * TOL_SDP:
        raise Violation("quantum_value_lower_bound %.6f > non-signalling value %.6f (shape (R,A,B,X,Y)=%s)" % (ql, ns, _shape(V)))


def enlg_closed(p):
    """closed forms: BB84 (also with relabelled answers): unentangled = NPA_1 = NS = cos^2(pi/8); CHSH: unentangled = NPA = 3/4"""
    import math

    from vt.contract import Violation

    g, prob, V = _enlg(p)
    name, what = p["name"], p["what"]
    c = math.cos(math.pi / 8) ** 2
    exp = {"bb84": {"unent": c, "npa": c, "ns": c}, "bb84-relabelled": {"unent": c, "npa": c, "ns": c}, "chsh": {"unent": 0.75, "npa": 0.75}}[name][what]
    if what == "unent":
        got = _finite(g.unentangled_value(), "unentangled_value")
    elif what == "npa":
        got = _finite(g.commuting_measurement_value_upper_bound(k=1), "NPA")
    else:
        got = _finite(g.nonsignaling_value(), "nonsignaling_value")
    if abs(got - exp) > TOL_SDP:
        raise Violation("%s game: %s value %.6f, closed form %.6f" % (name, what, got, exp))


# ------------------------------------------------------------------------------ certificates for  opt <Q,X> : Tr_out X = I, X >= 0
def _ptrace_out(M, d_out, d_in):
    import numpy as np

    S = np.zeros((d_in, d_in), dtype=complex)
    for k in range(d_out):
        S += M[k * d_in : (k + 1) * d_in, k * d_in : (k + 1) * d_in]
    return S


def certified_max(Q, d_out, d_in):
    """(L, U) with L <= max{ <Q,X> : Tr_out X = I_in, X >= 0 } <= U, both from explicitly feasible points (systems ordered out (x) in)"""
    import cvxpy as cp
    import numpy as np

    from vt.contract import Undecided

    Q = _herm(np.asarray(Q, dtype=complex))
    n = d_out * d_in
    assert Q.shape == (n, n)
    try:
        Y = cp.Variable((d_in, d_in), hermitian=True)
        pr = cp.Problem(cp.Minimize(cp.real(cp.trace(Y))), [cp.kron(np.eye(d_out), Y) - Q >> 0])
        pr.solve(solver="CLARABEL")
        X = cp.Variable((n, n), hermitian=True)
        S = sum(X[k * d_in : (k + 1) * d_in, k * d_in : (k + 1) * d_in] for k in range(d_out))
        pr2 = cp.Problem(cp.Maximize(cp.real(cp.trace(Q @ X))), [X >> 0, S == np.eye(d_in)])
        pr2.solve(solver="CLARABEL")
    except Exception as e:
        raise Undecided("oracle-side SDP failed: %s" % type(e).__name__)
    if Y.value is None or X.value is None:
        raise Undecided("oracle-side SDP returned no point (%s / %s)" % (pr.status, pr2.status))
    # dual certificate
    Yv = _herm(np.array(Y.value))
    delta = float(np.linalg.eigvalsh(_herm(Q - np.kron(np.eye(d_out), Yv)))[-1])
    delta = max(0.0, delta) * (1 + 1e-9) + 1e-14
    U = float(np.real(np.trace(Yv))) + d_in * delta
    # primal certificate
    w, P = np.linalg.eigh(_herm(np.array(X.value)))
    Xv = (P * np.clip(w, 0, None)) @ P.conj().T
    Sv = _herm(_ptrace_out(Xv, d_out, d_in))
    sw, sP = np.linalg.eigh(Sv)
    if sw[0] <= 1e-9:
        raise Undecided("oracle primal point has a singular marginal")
    Sih = (sP / np.sqrt(sw)) @ sP.conj().T
    K = np.kron(np.eye(d_out), Sih)
    Xf = _herm(K @ Xv @ K)
    err = float(np.abs(_ptrace_out(Xf, d_out, d_in) - np.eye(d_in)).max())
    if err > 1e-10 or np.linalg.eigvalsh(Xf)[0] < -1e-10:
        raise Undecided("oracle primal point could not be made feasible (marginal error %.2g)" % err)
    L = float(np.real(np.trace(Q @ Xf)))
    if U - L > 1e-4 * max(1.0, abs(U)):
        raise Undecided("oracle certificates do not meet: optimum in [%.8f, %.8f]" % (L, U))
    return L, U


def certified(Q, d_out, d_in, sense):
    if sense == "max":
        return certified_max(Q, d_out, d_in)
    L, U = certified_max(-Q, d_out, d_in)
    return -U, -L


# ------------------------------------------------------------------------------ hedging
def _hedge_q(p):
    """single-shot operator Q on Y (x) X (two qubits)"""
    import numpy as np

    name = p.get("name")
    if name in ("mw-q0", "mw-q1"):
        e0, e1 = np.array([[1.0], [0.0]]), np.array([[0.0], [1.0]])
        e00, e01, e10, e11 = np.kron(e0, e0), np.kron(e0, e1), np.kron(e1, e0), np.kron(e1, e1)
        al, th = 1 / np.sqrt(2), np.pi / 8
        w = al * np.cos(th) * e00 + np.sqrt(1 - al**2) * np.sin(th) * e11
        l1 = -al * np.sin(th) * e00 + np.sqrt(1 - al**2) * np.cos(th) * e11
        l2 = al * np.sin(th) * e10
        l3 = np.sqrt(1 - al**2) * np.cos(th) * e01
        if name == "mw-q1":
            return w @ w.T
        return l1 @ l1.T + l2 @ l2.T + l3 @ l3.T
    rng = np.random.default_rng(p.get("seed", 0))
    rank = p.get("rank", 4)
    G = rng.standard_normal((4, rank))
    if p.get("complex"):
        G = G + 1j * rng.standard_normal((4, rank))
    Q = _herm(G @ G.conj().T)
    return Q / np.linalg.eigvalsh(Q)[-1]


def _hedge_oracle(Q1, n, sense):
    import numpy as np

    if n == 1:
        return certified(Q1, 2, 2, sense)
    # Q (x) Q lives on Y1 X1 Y2 X2; reorder to (Y1 Y2) (x) (X1 X2) by an index transposition
    Q2 = np.kron(Q1, Q1).reshape((2,) * 8)
    Q2 = Q2.transpose(0, 2, 1, 3, 4, 6, 5, 7).reshape(16, 16)
    return certified(Q2, 4, 4, sense)


_HEDGE_METHODS = {
    "max_primal": ("max_prob_outcome_a_primal", "max"),
    "max_dual": ("max_prob_outcome_a_dual", "max"),
    "min_primal": ("min_prob_outcome_a_primal", "min"),
    "min_dual": ("min_prob_outcome_a_dual", "min"),
}


def _hedge_value(p, which):
    import numpy as np

    from toqito.nonlocal_games.quantum_hedging import QuantumHedging

    Q1 = _hedge_q(p)
    n = p.get("n", 1)
    Qn = Q1
    for _ in range(n - 1):
        Qn = np.kron(Qn, Q1)
    h = QuantumHedging(Qn.copy(), n)
    v = getattr(h, _HEDGE_METHODS[which][0])()
    return _finite(v, _HEDGE_METHODS[which][0]), Q1, n


def _mk_hedge(which, direction):
    meth, sense = _HEDGE_METHODS[which]

    def clause(p):
        from vt.contract import Violation

        got, Q1, n = _hedge_value(p, which)
        L, U = _hedge_oracle(Q1, n, sense)
        if direction == "ge" and got < L - TOL_SDP:
            raise Violation("%s (n=%d) = %.6f < %.6f, the value of an explicitly feasible X (optimum certified in [%.6f, %.6f])" % (meth, n, got, L, L, U))
        if direction == "le" and got > U + TOL_SDP:
            raise Violation("%s (n=%d) = %.6f > %.6f, the bound of an explicitly feasible dual Y (optimum certified in [%.6f, %.6f])" % (meth, n, got, U, L, U))
        return {"got": got, "L": L, "U": U}

    clause.__doc__ = "%s %s certified %s of the defining program" % (meth, ">=" if direction == "ge" else "<=", "lower bound" if direction == "ge" else "upper bound")
    clause.function = "QuantumHedging." + meth
    return clause


def _mk_hedge_pd(sense):
    def clause(p):
        from vt.contract import Violation

        a, Q1, n = _hedge_value(p, sense + "_primal")
        b, _, _ = _hedge_value(p, sense + "_dual")
        if abs(a - b) > 2 * TOL_SDP:
            raise Violation("%s_prob_outcome_a: primal %.6f and dual %.6f differ (n=%d)" % (sense, a, b, n))

    clause.__doc__ = "%s_prob_outcome_a_primal == %s_prob_outcome_a_dual (strong duality)" % (sense, sense)
    clause.function = "QuantumHedging.%s_prob_outcome_a_primal/dual" % sense
    return clause


def hedge_max_ge_min(p):
    """maximal probability >= minimal probability (primal with primal, dual with dual)"""
    from vt.contract import Violation

    form = p.get("form", "primal")
    a, Q1, n = _hedge_value(p, "max_" + form)
    b, _, _ = _hedge_value(p, "min_" + form)
    if a < b - 2 * TOL_SDP:
        raise Violation("max_prob_outcome_a_%s = %.6f < min_prob_outcome_a_%s = %.6f (n=%d)" % (form, a, form, b, n))


def hedge_reps2(p):
    """two repetitions of a PSD Q: max_2 == max_1 ** 2, 0 <= min_2 <= min_1 ** 2 (values as returned, same form)"""
    from vt.contract import Violation

    form = p.get("form", "primal")
    p1 = dict(p, n=1)
    p2 = dict(p, n=2)
    M1, _, _ = _hedge_value(p1, "max_" + form)
    M2, _, _ = _hedge_value(p2, "max_" + form)
    m1, _, _ = _hedge_value(p1, "min_" + form)
    m2, _, _ = _hedge_value(p2, "min_" + form)
    tol = TOL_SDP * (1 + 2 * abs(M1))
    if abs(M2 - M1**2) > tol:
        raise Violation("max (%s): two repetitions give %.6f, the square of the single-shot optimum %.6f is %.6f" % (form, M2, M1, M1**2))
    if m2 > m1**2 + TOL_SDP * (1 + 2 * abs(m1)):
        raise Violation("min (%s): two repetitions give %.6f > square %.6f of the single-shot optimum %.6f" % (form, m2, m1**2, m1))
    if m2 < -TOL_SDP:
        raise Violation("min (%s): two repetitions give a negative probability %.6f" % (form, m2))


def hedge_closed(p):
    """Molina-Watrous: Q0: max cos^2(pi/8) [n=1], cos^4(pi/8) [n=2]; min sin^2(pi/8) [n=1], 0 [n=2] (perfect hedging)"""
    import math

    from vt.contract import Violation

    which = p["which"]
    got, Q1, n = _hedge_value(p, which)
    c, s = math.cos(math.pi / 8) ** 2, math.sin(math.pi / 8) ** 2
    exp = {("max", 1): c, ("max", 2): c * c, ("max", 3): c**3, ("min", 1): s, ("min", 2): 0.0, ("min", 3): 0.0}[(which.split("_")[0], n)]
    if abs(got - exp) > TOL_SDP:
        raise Violation("%s on the Molina-Watrous operator Q0, n=%d: %.6f, closed form %.6f" % (_HEDGE_METHODS[which][0], n, got, exp))


# ------------------------------------------------------------------------------ cloning
def _clone_ensemble(p):
    """list of unit vectors in C^2 (as 1-D arrays) and priors"""
    import numpy as np

    name = p.get("name")
    s = 1 / np.sqrt(2)
    named = {
        "wiesner": [[1, 0], [0, 1], [s, s], [s, -s]],
        "six-state": [[1, 0], [0, 1], [s, s], [s, -s], [s, 1j * s], [s, -1j * s]],
        "single": [[0.6, 0.8]],
        "orthogonal": [[1, 0], [0, 1]],
        "y-basis": [[s, 1j * s], [s, -1j * s]],
        "bb84-half": [[1, 0], [s, s]],
    }
    if name and name.endswith("-typed"):
        # the ensemble as typed in by hand: [1, 0] and [0, 1] are integer arrays (int64), the real superpositions float64, the rest complex128
        vecs = [np.array(v) for v in named[name[: -len("-typed")]]]
        return vecs, [1.0 / len(vecs)] * len(vecs)
    if name:
        vecs = [np.array(v, dtype=complex if np.iscomplexobj(np.array(v)) else float) for v in named[name]]
        probs = [1.0 / len(vecs)] * len(vecs)
        return vecs, probs
    rng = np.random.default_rng(p.get("seed", 0))
    k = p.get("k", 3)
    vecs = []
    for _ in range(k):
        v = rng.standard_normal(2)
        if p.get("complex"):
            v = v + 1j * rng.standard_normal(2)
        vecs.append(v / np.linalg.norm(v))
    pr = rng.random(k) + 0.1
    pr = pr / pr.sum()
    return vecs, [float(x) for x in pr]


def _clone_oracle(vecs, probs, reps):
    """bracket for max sum_k p_k <psi_k psi_k| Phi(psi_k) |psi_k psi_k> over channels Phi: X -> Y (x) Z, to the power reps"""
    import numpy as np

    Q = np.zeros((8, 8), dtype=complex)
    for v, pk in zip(vecs, probs):
        v = np.asarray(v, dtype=complex)
        t = np.kron(np.kron(v, v), v.conj())  # Y (x) Z (x) X, Choi convention with the conjugate on the input space
        Q += pk * np.outer(t, t.conj())
    L, U = certified_max(Q, 4, 2)
    return max(L, 0.0) ** reps, U**reps


def _clone_call(p, strategy):
    import numpy as np

    from toqito.state_opt import optimal_clone

    vecs, probs = _clone_ensemble(p)
    form = p.get("form", "column")
    if form == "column":
        states = [v.reshape(-1, 1).copy() for v in vecs]
    elif form == "1d":
        states = [v.copy() for v in vecs]
    else:
        states = [np.outer(v, v.conj()) for v in vecs]
    reps = p.get("reps", 1)
    got = optimal_clone(states, list(probs), reps, strategy)
    return _finite(got, "optimal_clone"), vecs, probs, reps


def _tolr(reps):
    """SCS/Clarabel accuracy degrades with the size of the program: two repetitions are 64 x 64 (cloning) -- observed errors up to 6e-4"""
    return TOL_SDP if reps == 1 else 4 * TOL_SDP


def _mk_clone(strategy, direction):
    label = "primal (strategy=True)" if strategy else "dual (default)"

    def clause(p):
        from vt.contract import Violation

        got, vecs, probs, reps = _clone_call(p, strategy)
        L, U = _clone_oracle(vecs, probs, reps)
        if direction == "ge" and got < L - _tolr(reps):
            raise Violation("optimal_clone %s, reps=%d: %.6f < %.6f attained by an explicit channel (optimum certified in [%.6f, %.6f])" % (label, reps, got, L, L, U))
        if direction == "le" and got > U + _tolr(reps):
            raise Violation("optimal_clone %s, reps=%d: %.6f > %.6f certified by an explicit dual-feasible Y (optimum in [%.6f, %.6f])" % (label, reps, got, U, L, U))
        return {"got": got, "L": L, "U": U}

    clause.__doc__ = "optimal_clone %s %s certified bound of the counterfeiting program" % (label, ">=" if direction == "ge" else "<=")
    clause.function = "optimal_clone"
    return clause


def clone_pd(p):
    """optimal_clone(strategy=True) == optimal_clone(strategy=False)"""
    from vt.contract import Violation

    a, vecs, probs, reps = _clone_call(p, True)
    b, _, _, _ = _clone_call(p, False)
    if abs(a - b) > 2 * _tolr(reps):
        raise Violation("optimal_clone: primal %.6f and dual %.6f differ (reps=%d)" % (a, b, reps))


def clone_closed(p):
    """closed forms: Wiesner (3/4)^reps, six-state (2/3)^reps, a single state 1, an orthogonal pair 1"""
    from vt.contract import Violation

    got, vecs, probs, reps = _clone_call(p, bool(p.get("strategy")))
    exp = {"wiesner": 0.75, "six-state": 2.0 / 3.0, "single": 1.0, "orthogonal": 1.0, "y-basis": 1.0}[p["name"].replace("-typed", "")] ** reps
    if abs(got - exp) > _tolr(reps):
        raise Violation("optimal_clone(%s, reps=%d, strategy=%s) = %.6f, closed form %.6f" % (p["name"], reps, bool(p.get("strategy")), got, exp))


CLAUSES = {
    "enlg.unent_ge": enlg_unent_ge,
    "enlg.unent_le": enlg_unent_le,
    "enlg.npa_ge_unent": enlg_npa_ge_unent,
    "enlg.npa_ge_qlb": enlg_npa_ge_qlb,
    "enlg.npa_le_ns": enlg_npa_le_ns,
    "enlg.ns_ge_unent": enlg_ns_ge_unent,
    "enlg.qlb_le_ns": enlg_qlb_le_ns,
    "enlg.closed": enlg_closed,
    "enlg.reps_unent": enlg_reps_unent,
    "hedge.max_ge_min": hedge_max_ge_min,
    "hedge.reps2": hedge_reps2,
    "hedge.closed": hedge_closed,
    "clone.pd": clone_pd,
    "clone.closed": clone_closed,
}
_FN = {
    "enlg.unent_ge": "ExtendedNonlocalGame.unentangled_value",
    "enlg.unent_le": "ExtendedNonlocalGame.unentangled_value",
    "enlg.npa_ge_unent": "ExtendedNonlocalGame.commuting_measurement_value_upper_bound",
    "enlg.npa_ge_qlb": "ExtendedNonlocalGame.commuting_measurement_value_upper_bound",
    "enlg.npa_le_ns": "ExtendedNonlocalGame.commuting_measurement_value_upper_bound",
    "enlg.ns_ge_unent": "ExtendedNonlocalGame.nonsignaling_value",
    "enlg.qlb_le_ns": "ExtendedNonlocalGame.quantum_value_lower_bound",
    "enlg.closed": "ExtendedNonlocalGame",
    "enlg.reps_unent": "ExtendedNonlocalGame.__init__/unentangled_value",
    "hedge.max_ge_min": "QuantumHedging",
    "hedge.reps2": "QuantumHedging",
    "hedge.closed": "QuantumHedging",
    "clone.pd": "optimal_clone",
    "clone.closed": "optimal_clone",
}
for _k_, _f in CLAUSES.items():
    _f.function = _FN[_k_]
for _w in _HEDGE_METHODS:
    for _d in ("ge", "le"):
        CLAUSES["hedge.%s.%s" % (_w, _d)] = _mk_hedge(_w, _d)
for _s in ("max", "min"):
    CLAUSES["hedge.%s.pd" % _s] = _mk_hedge_pd(_s)
for _st, _nm in ((False, "dual"), (True, "primal")):
    for _d in ("ge", "le"):
        CLAUSES["clone.%s.%s" % (_nm, _d)] = _mk_clone(_st, _d)
for _f in CLAUSES.values():
    _f.limit = 90


def cases(tier, seed):
    thorough = tier == "thorough"
    out = []

    def add(clause, params, ic, nontrivial=True):
        out.append(dict(clause=clause, params=params, input_class=ic, nontrivial=nontrivial))

    # ------------------------------------------------------------------ extended nonlocal games
    for name in ("bb84", "bb84-relabelled", "chsh"):
        par = dict(name=name)
        add("enlg.unent_ge", dict(par), "enlg.unent/named/%s" % name)
        add("enlg.unent_le", dict(par), "enlg.unent/named/%s" % name)
        for k in (1, "1+ab"):
            add("enlg.npa_ge_unent", dict(par, k=k), "enlg.npa/named/%s" % name)
            add("enlg.npa_le_ns", dict(par, k=k), "enlg.npa/named/%s" % name)
        add("enlg.npa_ge_qlb", dict(par, k=1, seed=seed), "enlg.npa/named/%s" % name)
        add("enlg.ns_ge_unent", dict(par), "enlg.ns/named/%s" % name)
        add("enlg.qlb_le_ns", dict(par, seed=seed), "enlg.qlb/named/%s" % name)
        for what in ("unent", "npa", "ns"):
            if name == "chsh" and what == "ns" or name == "bb84-relabelled":
                continue  # the relabelled game is judged by the brute-force clauses; closed forms only for the documented games
            add("enlg.closed", dict(par, what=what), "enlg.closed/%s/%s" % (name, what))
    # shapes (R, A, B, X, Y); A**X * B**Y <= 2000
    shapes = [
        [2, 2, 2, 1, 1], [2, 2, 2, 2, 2], [2, 2, 2, 2, 1], [2, 2, 2, 1, 2], [2, 2, 2, 3, 2], [2, 2, 2, 2, 3],
        [3, 2, 2, 2, 2], [3, 2, 2, 1, 2], [2, 3, 3, 2, 2], [3, 3, 3, 2, 1],
        [2, 2, 3, 2, 2], [2, 3, 2, 2, 2], [2, 1, 2, 2, 2], [3, 2, 3, 1, 2], [2, 3, 2, 2, 1], [2, 2, 1, 2, 3], [3, 3, 2, 2, 2],
    ]
    # parallel repetition: the referee operators of the repeated game are built by the constructor (question / answer odometers)
    for j, sh in enumerate([[2, 2, 2, 1, 2], [2, 2, 2, 2, 1], [2, 2, 2, 2, 2], [2, 2, 1, 1, 3], [2, 1, 2, 3, 1]]):
        for s in range(3 if thorough else 1):
            qq = "X=Y" if sh[3] == sh[4] else "X!=Y"
            add("enlg.reps_unent", dict(shape=sh, seed=seed + 31 * j + s, reps=2), "enlg.reps/%s" % qq)
            if j < 3:  # complex referee operators: the repeated table must keep their imaginary parts (F-09g)
                add("enlg.reps_unent", dict(shape=sh, seed=seed + 31 * j + s, reps=2, complex=True), "enlg.reps/%s/complex" % qq)
    nseeds = 12 if thorough else 2
    for i, sh in enumerate(shapes):
        R, A, B, X, Y = sh
        q = "1x1" if X == 1 and Y == 1 else "multi-question"
        ans = "A=B" if A == B else "A!=B"
        for cplx in (False, True):
            fld = "complex" if cplx else "real"
            for s in range(nseeds):
                par = dict(shape=sh, seed=seed + 17 * i + s + (500 if cplx else 0), complex=cplx)
                nt = A**X * B**Y > 1
                add("enlg.unent_ge", dict(par), "enlg.unent/%s/%s" % (q, fld), nt)
                add("enlg.unent_le", dict(par), "enlg.unent/%s/%s" % (q, fld), nt)
                heavy = R * max(A, B) >= 9
                if heavy and not thorough and cplx:
                    continue
                add("enlg.ns_ge_unent", dict(par), "enlg.ns/%s/%s" % (ans, fld), nt)
                ks = (1, "1+ab") if (R * A * B <= 8 and X * Y <= 4) else (1,)
                for k in ks:
                    add("enlg.npa_ge_unent", dict(par, k=k), "enlg.npa/%s/%s" % (ans, fld), nt)
                    add("enlg.npa_le_ns", dict(par, k=k), "enlg.npa/%s/%s" % (ans, fld), nt)
                # the see-saw is exercised on every shape class; it is compared with NPA only where it can run at all
                # (referee dimension == number of Bob's answers), so that a failure of one is not booked on the other
                rb = "R=B" if R == B else "R!=B"
                if not heavy and (s == 0 or thorough):
                    add("enlg.qlb_le_ns", dict(par), "enlg.qlb/%s/%s" % (rb, fld), nt)
                    if R == B:
                        add("enlg.npa_ge_qlb", dict(par, k=1), "enlg.npa/%s/%s" % (ans, fld), nt)
                        if R * A * B <= 8 and X * Y <= 4:
                            # levels with same-party products: the achieved value must stay below them too (word reduction, adjoints)
                            add("enlg.npa_ge_qlb", dict(par, k="1+ab", iters=4), "enlg.npa-1+ab/%s/%s" % (ans, fld), nt)
                            if (thorough or cplx) and X * Y <= 2:
                                add("enlg.npa_ge_qlb", dict(par, k=2, iters=4), "enlg.npa-2/%s/%s" % (ans, fld), nt)

    # ------------------------------------------------------------------ hedging
    hedge_bounds = ["hedge.%s.%s" % (w, d) for w in _HEDGE_METHODS for d in ("ge", "le")]
    for name in ("mw-q0", "mw-q1"):
        for n in (1, 2):
            par = dict(name=name, n=n)
            for cl in hedge_bounds + ["hedge.max.pd", "hedge.min.pd"]:
                add(cl, dict(par), "hedge/molina-watrous/n=%d" % n)
            for form in ("primal", "dual"):
                add("hedge.max_ge_min", dict(par, form=form), "hedge/molina-watrous/n=%d" % n)
        for form in ("primal", "dual"):
            add("hedge.reps2", dict(name=name, form=form), "hedge/molina-watrous/reps-%s" % form)
    for n in (1, 2, 3):  # n = 3 is the first number of repetitions at which the interleaving permutation of the dual differs from its inverse
        for which in _HEDGE_METHODS:
            add("hedge.closed", dict(name="mw-q0", n=n, which=which), "hedge/molina-watrous/n=%d" % n)
    for name in ("mw-q0", "mw-q1"):
        add("hedge.max.pd", dict(name=name, n=3), "hedge/molina-watrous/n=3")
        add("hedge.min.pd", dict(name=name, n=3), "hedge/molina-watrous/n=3")
    nq = 40 if thorough else 5
    for cplx in (False, True):
        fld = "complex" if cplx else "real"
        for i in range(nq):
            for rank in (4, 2):
                par = dict(seed=seed + 40 * i + rank + (700 if cplx else 0), complex=cplx, rank=rank)
                for n in (1, 2):
                    if n == 2 and (i > 0 and not thorough):
                        continue
                    q = dict(par, n=n)
                    for cl in hedge_bounds + ["hedge.max.pd", "hedge.min.pd"]:
                        add(cl, dict(q), "hedge/random-%s/n=%d" % (fld, n))
                    add("hedge.max_ge_min", dict(q, form="primal"), "hedge/random-%s/n=%d" % (fld, n))
                    add("hedge.max_ge_min", dict(q, form="dual"), "hedge/random-%s/n=%d" % (fld, n))
                if i == 0 or thorough:
                    add("hedge.reps2", dict(par, form="primal"), "hedge/random-%s/reps-primal" % fld)
                    add("hedge.reps2", dict(par, form="dual"), "hedge/random-%s/reps-dual" % fld)

    # ------------------------------------------------------------------ cloning
    clone_bounds = ["clone.dual.ge", "clone.dual.le", "clone.primal.ge", "clone.primal.le"]
    for name in ("wiesner", "six-state", "single", "orthogonal", "y-basis", "bb84-half"):
        cplx = name in ("six-state", "y-basis")
        for form in ("column", "1d", "density"):
            for reps in (1, 2):
                if reps == 2 and form != "column" and not thorough:
                    continue
                ic = "clone/%s/%s/reps=%d" % ("complex" if cplx else "real", form, reps)
                par = dict(name=name, form=form, reps=reps)
                for cl in clone_bounds:
                    if reps == 2 and cl.startswith("clone.primal") and name not in ("wiesner", "six-state") and not thorough:
                        continue
                    add(cl, dict(par), ic, name != "single")
                if reps == 1 or name == "wiesner":
                    add("clone.pd", dict(par), ic, name != "single")
                if name != "bb84-half":
                    add("clone.closed", dict(par, strategy=False), ic, name != "single")
                    if reps == 1:
                        add("clone.closed", dict(par, strategy=True), ic, name != "single")
    for name in ("six-state-typed", "wiesner-typed", "orthogonal-typed"):
        for form in ("column", "1d", "density"):
            par = dict(name=name, form=form, reps=1)
            ic = "clone/mixed-dtype-list/%s/reps=1" % form
            for cl in clone_bounds:
                add(cl, dict(par), ic)
            add("clone.closed", dict(par, strategy=False), ic)
            add("clone.closed", dict(par, strategy=True), ic)
    nc = 80 if thorough else 8
    for cplx in (False, True):
        for i in range(nc):
            k = 1 + (i % 4)
            for form in ("column", "density") if i % 2 == 0 else ("column",):
                reps = 2 if (i % 4 == 1) else 1
                ic = "clone/%s/%s/reps=%d" % ("complex" if cplx else "real", form, reps)
                par = dict(seed=seed + 23 * i + (900 if cplx else 0), k=k, complex=cplx, form=form, reps=reps)
                for cl in clone_bounds:
                    if reps == 2 and cl.startswith("clone.primal") and not thorough:
                        continue
                    add(cl, dict(par), ic, k > 1)
                if reps == 1:
                    add("clone.pd", dict(par), ic, k > 1)
    # two repetitions of ensembles of three and four complex states: primal == dual == what the certificates bracket (F-09h)
    for j, k in enumerate((3, 4, 3)):
        par = dict(seed=seed + 301 + 7 * j, k=k, complex=True, form="column", reps=2)
        ic = "clone/complex/column/reps=2"
        for cl in ("clone.primal.ge", "clone.primal.le", "clone.dual.ge", "clone.pd"):
            add(cl, dict(par), ic, True)
    return out


# =============================================================================================
# frame coverage shared by all properties (E2 obligations for every public function of the anchor files + run-time frame cases)
# =============================================================================================
# the constructor's parallel-repetition branch (E1-integer, contracts/reps_ctor.py): the referee operators of the repeated game
# are the tensor products of the single-shot operators at the digits of the question indices, for all axis sizes
# =============================================================================================
def prove(tier, seed):
    from props.reps_prove import prove_reps

    replay = [dict(c, function="ExtendedNonlocalGame.__init__") for c in cases("quick", seed) if c["clause"] == "enlg.reps_unent"]
    a = prove_reps("toqito/nonlocal_games/extended_nonlocal_game.py", "ExtendedNonlocalGame.__init__", 4, replay, "c09r", tier)
    # E1-prog: the cvxpy programs of QuantumHedging (four) and optimal_clone (primal / dual) are the stated ones
    from props.sdp_prove import prove_cvx
    from vt.pyvc.termproofs import merge

    rep2 = []
    seen = {}
    for c in cases("quick", seed):
        k = c.get("clause", "")
        if not (k.startswith("hedge") or k.startswith("clone")) or seen.get(k, 0) >= 5:
            continue
        seen[k] = seen.get(k, 0) + 1
        rep2.append(dict(c, function="QuantumHedging" if k.startswith("hedge") else "optimal_clone"))
    return merge(a, prove_cvx(rep2, "c09p", tier))


# =============================================================================================
from props import frame_all as _fa  # noqa: E402
from props.frame_common import frame_generic as _fg, frame_object as _fo  # noqa: E402

CLAUSES.setdefault("frame.generic", _fg)
CLAUSES.setdefault("frame.object", _fo)
_cases_before_frames = cases
_prove_before_frames = globals().get("prove")


def cases(tier, seed):  # noqa: F811
    return _cases_before_frames(tier, seed) + _fa.frame_cases(ID, seed)


def prove(tier, seed):  # noqa: F811
    from vt.pyvc.termproofs import merge

    b = _fa.prove_frames(ID, lambda s: _fa.frame_cases(ID, s))(tier, seed)
    if _prove_before_frames is None:
        return b
    return merge(_prove_before_frames(tier, seed), b)

if LEVEL == "exploration":
    LEVEL = "other"
LEVEL_TEXT = LEVEL_TEXT + (" Additionally proved (E2, taint analysis of the real AST): every public function and method in this property's anchor files writes through "
                           "no reference reachable from its arguments (or from self), so results do not depend on call order and callers' arrays / lists are not modified; "
                           "a run-time frame clause replays the same claim on concrete arguments.")
EXPLANATION = LEVEL_TEXT
if "E2-frame" not in globals().get("ENGINES", []):
    ENGINES = list(globals().get("ENGINES", ["E3-E4-rtc"])) + ["E2-frame"]
