"""C01 -- subsystem permutation is exactly tensor-factor relabelling."""
from __future__ import annotations

import itertools

ID = "C01"
TITLE = "subsystem permutation is tensor-factor relabelling"
LEVEL = "proof"
BUDGET = {"quick": 70, "thorough": 900}
RULE = (
    "E1: one proof instance per (function, n, permutation, flags, calling form), each for ALL local dimensions and ALL entries. "
    "Bounded stand-in (E3/E4): real functions run on arange / complex / sympy-symbol arrays for every configuration with n<=4 and local "
    "dimensions in {1,2,3} (thorough: {1..4}), all permutations, both flags, vector/column/matrix, dense/sparse, all dim forms; a case is "
    "non-trivial when the permutation is not the identity or the array is not 1x1; distinct = distinct (clause, parameters)."
)
EXPLANATION = "proof tier: VCs generated from the real AST, discharged by z3/cvc5/polynomial normal form; bounded tier labelled bounded_* and never counted as discharged"
TRUSTED = [
    "mixed-radix rule: (a + s*b) div s = b and (a + s*b) mod s = a for 0 <= a < s (digit regrouping in reshape); re-proved in Lean 4 (lean/MixedRadix.lean, checked by setup_cmd)",
    "numpy primitives under assumed contracts: reshape(order=F/C), transpose(axes), a[idx,:], a[:,idx], np.array(list(range(N))), np.identity, np.argsort on concrete permutations, functools.reduce(iconcat) as one-level flatten",
    "S-int: Python/numpy integers are mathematical (no overflow)",
    "S-float-dims: np.round/np.sqrt/int()/astype(int)/x**(1/n) are exact on integral values (checked separately by the bounded clause ps.float_prelude for d^n <= 4096)",
    "scipy.sparse inputs: issparse -> toarray branch is only covered by the bounded tier",
    "z3 4.x/5.x, cvc5, sympy polynomial normalisation, CPython ast",
    "number of subsystems n and the permutation are enumerated (n<=4 quick, n<=5 thorough), not quantified",
]
ASSUMPTIONS = TRUSTED
TECHNIQUE = 'VC generation from the real AST (symbolic shapes, mixed-radix numerals) + z3/cvc5/normal-form discharge, per (n, permutation) for all dimensions and entries; counter-models replayed on the real code; bounded run-time contracts as stand-in for the float prelude and sparse inputs'
LEVEL_TEXT = 'Proof per enumerated (n <= 4/5, permutation, flags, calling form) instance: for ALL local dimensions and ALL entry values the real bodies of vec, permute_systems, swap, permutation_operator, swap_operator satisfy the relabelling contract (callers verified against callee contracts only); lemmas L1 (inverse), L2 (injective => unitary) over the contracts. Not proved: n beyond the enumeration, the float dimension prelude (dim omitted/scalar), sparse inputs, dtype preservation -- those are bounded run-time contract checks.'
ENGINES = ["E1-pyvc", "E3-E4-rtc"]
from props.index_clauses import CLAUSES  # noqa: E402,F401


def prove(tier, seed):
    from vt.pyvc import index_proofs as IP
    from vt.pyvc import selfcheck

    S = IP.Sources()
    tasks = IP.instances_C01(tier)
    records, wall = IP.run_instances(tasks, S)
    names = ["vec", "permute_systems", "swap", "permutation_operator", "swap_operator"]
    lem, lem_records = selfcheck.lemmas_C01(tier)
    records += lem_records
    records += IP.frame_records(["vec", "permute_systems", "swap", "permutation_operator", "swap_operator"])
    planted = selfcheck.planted("C01", tier, S)
    sc = selfcheck.standard(records, names)
    sc["planted_bugs_all_refuted"] = {"ok": planted["tried"] == planted["refuted"], "detail": planted}
    aux = IP.crosscheck_cases(S, seed, 30 if tier == "thorough" else 12)
    return dict(aux_cases=aux, records=records, functions=S.info(names), instances=len(tasks), planted=planted, selfchecks=sc, wall=wall)


def _dims_iter(n, vals, maxprod):
    for d in itertools.product(vals, repeat=n):
        p = 1
        for x in d:
            p *= x
        if 2 <= p <= maxprod:
            yield list(d)


def cases(tier, seed):
    import random

    rnd = random.Random(seed)
    thorough = tier == "thorough"
    out = []

    def add(clause, params, ic, nontrivial=True):
        out.append(dict(clause=clause, params=params, input_class=ic, nontrivial=nontrivial))

    vals = [1, 2, 3, 4] if thorough else [1, 2, 3]
    maxprod = 144 if thorough else 48
    for n in (1, 2, 3, 4):
        perms = list(itertools.permutations(range(n)))
        dl = list(_dims_iter(n, vals, maxprod))
        if n == 4 and not thorough:
            dl = [d for d in dl if max(d) <= 2 or rnd.random() < 0.15]
        for d in dl:
            cd = d[1:] + d[:1]
            for perm in perms:
                nontriv = list(perm) != list(range(n))
                for inv in (False, True):
                    add("ps.index", dict(kind="vector", perm=list(perm), row_only=False, inv=inv, dimform="list", rdims=d, cdims=d), "permute_systems/vector/list", nontriv)
                    if n <= 3:
                        add("ps.index", dict(kind="column", perm=list(perm), row_only=False, inv=inv, dimform="list", rdims=d, cdims=d), "permute_systems/column/list", nontriv)
                    for ro in (False, True):
                        prod_c = 1
                        for x in cd:
                            prod_c *= x
                        add("ps.index", dict(kind="matrix", perm=list(perm), row_only=ro, inv=inv, dimform="list", rdims=d, cdims=d), "permute_systems/matrix/list", nontriv)
                        if n >= 2 and prod_c >= 2:
                            add("ps.index", dict(kind="matrix", perm=list(perm), row_only=ro, inv=inv, dimform="2row", rdims=d, cdims=cd), "permute_systems/matrix/2row", nontriv)
    # symbolic entries (entry-obliviousness), sparse inputs, dtypes
    for n in (2, 3):
        for d in _dims_iter(n, [2, 3], 18):
            for perm in itertools.permutations(range(n)):
                for inv in (False, True):
                    add("ps.index", dict(kind="matrix", perm=list(perm), row_only=False, inv=inv, dimform="2row", rdims=d, cdims=d[::-1], entries="sym"), "permute_systems/matrix/2row")
                    add("ps.index", dict(kind="vector", perm=list(perm), row_only=False, inv=inv, dimform="array", rdims=d, cdims=d, entries="sym"), "permute_systems/vector/array")
                    add("ps.index", dict(kind="matrix", perm=list(perm), row_only=False, inv=inv, dimform="2row-array", rdims=d, cdims=d[::-1], entries="complex"), "permute_systems/matrix/2row-array")
                    add("ps.index", dict(kind="matrix", perm=list(perm), row_only=True, inv=inv, dimform="list", rdims=d, cdims=d, entries="float", sparse=True), "permute_systems/matrix/sparse")
                    add("ps.kron", dict(perm=list(perm), rdims=d, cdims=d[::-1], entries="complex", seed=seed), "permute_systems/kron")
                    add("ps.kron", dict(perm=list(perm), rdims=d, cdims=d, entries="complex", seed=seed, vector=True), "permute_systems/kron-vector")
                    add("ps.rowonly_operator", dict(perm=list(perm), dims=d, inv=inv, seed=seed), "permutation_operator/dense")
                    add("ps.rowonly_operator", dict(perm=list(perm), dims=d, inv=inv, seed=seed, sparse=True), "permutation_operator/sparse")
                    add("permop.index", dict(perm=list(perm), inv=inv, dims=[d[0]] * n, scalar=True), "permutation_operator/scalar")
    for perm in ([1, 0], [1, 2, 0], [2, 0, 1]):
        n = len(perm)
        for ro in (False, True):
            for ent in ("complex", "arange"):
                add("ps.index", dict(kind="matrix", perm=perm, row_only=ro, inv=False, dimform="list", rdims=[2, 3, 2][:n], cdims=[2, 3, 2][:n], entries=ent, sparse=True), "permute_systems/matrix/sparse-%s" % ("complex" if ent == "complex" else "int"))
                add("ps.index", dict(kind="matrix", perm=perm, row_only=ro, inv=True, dimform="2row", rdims=[2, 3, 2][:n], cdims=[3, 2, 2][:n], entries=ent, sparse=True), "permute_systems/matrix/sparse-%s" % ("complex" if ent == "complex" else "int"))
    add("frame.args", dict(fn="swap", sys=[1, 3], rdims=[2, 3, 2], cdims=[3, 2, 2], sys_array=False), "frame/swap")
    for perm in itertools.permutations(range(2)):
        add("ps.kron", dict(perm=list(perm), rdims=[2, 2], cdims=[2, 3], entries="sym"), "permute_systems/kron-sym")
    for perm in [(1, 2, 3, 0), (3, 0, 2, 1), (2, 3, 0, 1)]:
        add("ps.kron", dict(perm=list(perm), rdims=[2, 3, 2, 2], cdims=[3, 2, 1, 2], entries="complex", seed=seed), "permute_systems/kron")
    add("ps.index", dict(kind="matrix", perm=[1, 2, 0], row_only=False, inv=False, dimform="2row", rdims=[2, 3, 2], cdims=[3, 2, 2], defaults=True), "permute_systems/defaults")
    # scipy-sparse state vectors (N x 1 columns), two and three subsystems
    for rd_, perm_ in (([2, 3], [1, 0]), ([2, 3, 2], [1, 2, 0]), ([2, 2, 3], [2, 0, 1])):
        for kind_ in ("column",):
            for inv in (False, True):
                add("ps.index", dict(kind=kind_, perm=perm_, row_only=False, inv=inv, dimform="list", rdims=rd_, cdims=rd_, entries="float", sparse=True), "permute_systems/%s/sparse" % kind_)
    # Boolean flags written as 0 / 1 or as numpy bools
    for ff in ("int", "npbool"):
        for ro in (False, True):
            for inv in (False, True):
                add("ps.index", dict(kind="matrix", perm=[1, 2, 0], row_only=ro, inv=inv, dimform="2row", rdims=[2, 3, 2], cdims=[3, 2, 2], flagform=ff), "permute_systems/matrix/flags-%s" % ff)
            add("swap.index", dict(sys=[1, 3], row_only=ro, dimform="2row", rdims=[2, 3, 2], cdims=[3, 2, 2], flagform=ff), "swap/flags-%s" % ff)
    # swap
    for n in (2, 3, 4):
        for d in ([2, 3, 2, 3][:n], [3, 1, 2, 2][:n]):
            for s1, s2 in itertools.permutations(range(1, n + 1), 2):
                for ro in (False, True):
                    add("swap.index", dict(sys=[s1, s2], row_only=ro, dimform="list", rdims=d), "swap/list")
                    add("swap.index", dict(sys=[s1, s2], row_only=ro, dimform="2row", rdims=d, cdims=d[::-1]), "swap/2row/n=%d" % n)
                add("swap.index", dict(sys=[s1, s2], row_only=False, dimform="list", rdims=d, vector=True), "swap/vector")
    for d in (2, 3, 4):
        add("swap.index", dict(sys=[1, 2], row_only=False, dimform="scalar", rdims=[d, 3], cdims=[d, 3]), "swap/scalar")
        add("swap.index", dict(sys=[1, 2], row_only=False, dimform="omitted", rdims=[d, d], cdims=[d, d]), "swap/omitted")
        add("swapop.index", dict(dims=[d, d], scalar=True), "swap_operator/scalar")
        add("swapop.index", dict(dims=[d, d], scalar=True, sparse=True), "swap_operator/sparse")
        add("swapop.index", dict(dims=[d, 5 - d if d < 4 else 3], scalar=False), "swap_operator/list")
    # float prelude: omitted dim for all (d, n) with d^n <= 4096
    for n in (2, 3, 4, 5, 6):
        for d in range(2, 65):
            if d**n > 4096:
                break
            perm = list(range(1, n)) + [0]
            add("ps.float_prelude", dict(d=d, n=n, perm=perm), "permute_systems/dim-omitted/d=%d,n=%d" % (d, n))
    for perm in ([1, 0], [1, 2, 0]):
        n = len(perm)
        add("frame.args", dict(fn="permute_systems", perm=perm, rdims=[2, 3, 2][:n], cdims=[3, 2, 2][:n]), "frame/permute_systems")
    add("frame.args", dict(fn="swap", sys=[1, 2], rdims=[2, 3], cdims=[3, 2]), "frame/swap")
    add("frame.args", dict(fn="swap", sys=[1, 3], rdims=[2, 3, 2], cdims=[3, 2, 2]), "frame/swap")
    for dt in ("int8", "uint8", "int16", "int32", "bool"):
        add("int_dtype", dict(dtype=dt, dims=[2, 3], sys=[1], only="permute_systems"), "int_dtype/%s" % dt)
    # vec
    for shp in ([2, 3], [3, 1], [1, 4], [2, 3, 2]):
        add("vec.index", dict(shape=shp), "vec")
        add("vec.index", dict(shape=shp, entries="sym"), "vec")
    # `sys` omitted with `dim` given (three and four subsystems: the default is the first two, not the first and the last)
    for dd in ([2, 3, 2], [2, 2, 3], [2, 3, 2, 2]):
        add("swap.index", dict(sys=[1, 2], row_only=False, dimform="list", rdims=dd, sys_omitted=True), "swap/sys-omitted/n=%d" % len(dd))
    add("swap.index", dict(sys=[1, 2], row_only=False, dimform="2row", rdims=[2, 3, 2], cdims=[3, 2, 2], sys_omitted=True), "swap/sys-omitted/n=3")
    # scalar `dim` = d on (d x d) (x) (r x c) with r != c
    for d_, r_, c_ in ((2, 2, 3), (2, 3, 2), (3, 1, 2)):
        add("swap.index", dict(sys=[1, 2], row_only=False, dimform="scalar", rdims=[d_, r_], cdims=[d_, c_]), "swap/scalar-rectangular")
    # swap with `sys` and `dim` omitted: two equal subsystems; with row_only the number of columns is arbitrary (left multiplication by the swap operator)
    for d in (2, 3, 4):
        add("swap.index", dict(rdims=[d, d], sys=[1, 2], row_only=False, all_omitted=True), "swap/all-omitted")
        for nc in (3, 5, d * d):
            add("swap.index", dict(rdims=[d, d], sys=[1, 2], row_only=True, all_omitted=True, ncols=nc), "swap/all-omitted-row-only")
    return out


# ---------------------------------------------------------------------------------------------
# memory-layout variants: the same values handed over Fortran-ordered and as a non-contiguous strided view
# ---------------------------------------------------------------------------------------------
_cases_c_layout = cases
_LAYOUT_CLAUSES = {"ps.index", "vec.index", "ptrace.index", "ptranspose.index", "realign.index"}


def cases(tier, seed):  # noqa: F811
    base = _cases_c_layout(tier, seed)
    extra = []
    k = 0
    for c in base:
        prm = c.get("params", {})
        if c["clause"] in _LAYOUT_CLAUSES and prm.get("entries", "arange") != "sym" and not prm.get("sparse"):
            k += 1
            if k % (3 if tier == "thorough" else 6) == 0:
                for lay in ("F", "view"):
                    extra.append(dict(c, params=dict(prm, layout=lay), input_class=c["input_class"] + "/layout-" + lay))
    # the same permutation handed over as a tuple, an ndarray, a list of numpy integers
    k = 0
    for c in base:
        prm = c.get("params", {})
        if c["clause"] == "ps.index" and prm.get("entries", "arange") != "sym" and not prm.get("sparse"):
            k += 1
            if k % 9 == 0:
                for pf in ("tuple", "array", "npint"):
                    extra.append(dict(c, params=dict(prm, permform=pf), input_class=c["input_class"] + "/perm-as-" + pf))
    return base + extra
