"""C15 -- PPT and separability verdicts are sound.  Executor side only (bounded run-time contracts with ground truth by
construction and return-site tracing of is_separable)."""
from __future__ import annotations

ID = "C15"
TITLE = "PPT and separability verdicts are sound"
LEVEL = "exploration"
BUDGET = {"quick": 80, "thorough": 900}
ENGINES = ["E4-rtc"]
TECHNIQUE = "run-time-checked contracts on the real functions over a bounded domain (bounded stand-in)"
LEVEL_TEXT = (
    "Bounded only; nothing is proved. Ground truth by construction: (i) convex mixtures of 1..12 random product states (local dims 2..4, unequal allowed, real and "
    "complex, trace 1 or rescaled) are separable, so is_separable must return True and must not raise, has_symmetric_extension must accept them at levels 1..2; "
    "(ii) p|psi><psi| + (1-p) I/n with prescribed Schmidt coefficients has lambda_min of the partial transpose equal to (1-p)/n - p s0 s1 <= -0.01 in closed form "
    "(re-checked by an independent index-level partial transpose + eigvalsh), so is_separable must return False; (iii) on 2x2, 2x3, 3x2 random states of every rank with "
    "|lambda_min| >= 1e-5 the verdict must equal the sign of lambda_min; (iv) verdicts are compared under Haar local unitaries and under exchange of the parties; "
    "(v) is_ppt is evaluated on Hermitian matrices shifted so that lambda_min of the partial transpose equals -tol -/+ margin exactly, for both parties, four tolerances "
    "and every dim form, is_npt must be its negation; (vi) in_separable_ball on spectra placed 1% inside / outside the Gurvits-Barnum radius. Every call of "
    "is_separable is traced with sys.monitoring (LINE + PY_RETURN events on its code object only; sys.settrace fallback) and the clause returns which return "
    "statement (or raising line) produced the outcome, so return-site coverage is visible per case; the clause sep.site_coverage runs a steered battery and lists "
    "reached / unreached return statements."
)
RULE = (
    "Deterministic grid over local dims {2,3,4}^2, number of product terms {1,2,3,4,5,9,12}, real/complex, dim given as list / scalar / omitted, tolerance in {default,1e-5,1e-3,1e-1}, party in {1,2}, "
    "extension level {1,2} x ppt flag; the seed adds further random instances. SDP-backed cases (3x3 separability beyond the rank shortcuts, level-2 extensions on more than 6 dimensions) cost 5-10 s each and are "
    "sampled sparingly in the quick tier. Non-trivial = at least two product terms or an entangled / mixed state; distinct = distinct (clause, parameters)."
)
EXPLANATION = LEVEL_TEXT
TRUSTED = [
    "a convex mixture of product projectors is separable (definition); lambda_min((p|psi><psi| + (1-p)I/n)^Gamma) = (1-p)/n - p s0 s1 (closed form, cross-checked numerically in the clause)",
    "PPT is necessary and sufficient for separability when dA*dB <= 6 (Horodecki); states are only judged there when |lambda_min| >= 1e-5",
    "the independent partial transpose is rho.reshape(dA,dB,dA,dB).transpose(0,3,2,1) (index-level, no toqito code)",
    "Gurvits-Barnum: a state with Tr(rho^2) <= 1/(d-1), i.e. ||rho - I/d||_F^2 <= 1/(d(d-1)), is separable; spectra are placed 1% inside/outside that radius",
    "tolerances: predicates are judged only on inputs that satisfy / violate the definition by a margin >= 10x the numerical tolerance",
    "the return-site trace observes the interpreter's LINE/PY_RETURN events of toqito.state_props.is_separable.is_separable; no source edit, no hook in /repo",
    "SDP solver failures (non-optimal status, exceptions from inside cvxpy/scs/clarabel) are counted as undecided samples, never as violations",
]
ASSUMPTIONS = TRUSTED


# =============================================================================================
# executor side: generators
# =============================================================================================
def _haar(d, rng, real=False):
    import numpy as np

    g = rng.standard_normal((d, d)) if real else rng.standard_normal((d, d)) + 1j * rng.standard_normal((d, d))
    q, r = np.linalg.qr(g)
    return q * (np.diag(r) / np.abs(np.diag(r)))


def _sep_state(dA, dB, terms, rng, real=False):
    """convex mixture of `terms` random product projectors, exactly Hermitian"""
    import numpy as np

    n = dA * dB
    rho = np.zeros((n, n), dtype=float if real else complex)
    w = rng.random(terms) + 0.2
    w = w / w.sum()
    for t in range(terms):
        a = rng.standard_normal(dA) if real else rng.standard_normal(dA) + 1j * rng.standard_normal(dA)
        b = rng.standard_normal(dB) if real else rng.standard_normal(dB) + 1j * rng.standard_normal(dB)
        v = np.kron(a / np.linalg.norm(a), b / np.linalg.norm(b))
        rho = rho + w[t] * np.outer(v, v.conj())
    return (rho + rho.conj().T) / 2


def _npt_state(dA, dB, r, p_mix, rng, real=False):
    """p |psi><psi| + (1-p) I/n with Schmidt coefficients s (rank r >= 2); returns (rho, closed-form lambda_min of the partial transpose)"""
    import numpy as np

    s = 0.3 + rng.random(r)
    s = np.sort(s / np.linalg.norm(s))[::-1]
    U = _haar(dA, rng, real)
    V = _haar(dB, rng, real)
    v = sum(s[i] * np.kron(U[:, i], V[:, i]) for i in range(r))
    n = dA * dB
    rho = p_mix * np.outer(v, v.conj()) + (1 - p_mix) * np.eye(n) / n
    rho = (rho + rho.conj().T) / 2
    return rho, (1 - p_mix) / n - p_mix * s[0] * s[1]


def _mixed(n, rank, rng, real=False):
    import numpy as np

    g = rng.standard_normal((n, rank)) if real else rng.standard_normal((n, rank)) + 1j * rng.standard_normal((n, rank))
    rho = g @ g.conj().T
    rho = (rho + rho.conj().T) / 2
    return rho / np.trace(rho).real


def _pt_min(rho, dA, dB):
    """smallest eigenvalue of the partial transpose, by index manipulation (independent of toqito)"""
    import numpy as np

    n = dA * dB
    pt = np.asarray(rho).reshape(dA, dB, dA, dB).transpose(0, 3, 2, 1).reshape(n, n)
    return float(np.linalg.eigvalsh((pt + pt.conj().T) / 2).min())


def _swap_parties(rho, dA, dB):
    import numpy as np

    n = dA * dB
    return np.asarray(rho).reshape(dA, dB, dA, dB).transpose(1, 0, 3, 2).reshape(n, n)


def _state(p):
    """state described by params; returns (rho, truth, lambda_min) with truth in {'separable','npt',None}"""
    import numpy as np

    dA, dB = p["dims"]
    kind = p["kind"]
    rng = np.random.default_rng([p.get("seed", 0), dA, dB, {"sep": 1, "npt": 2, "mixed": 3, "ppt-noisy": 4}[kind], p.get("terms", 0) + p.get("rank", 0) + p.get("r", 0)])
    real = bool(p.get("real"))
    if kind == "sep" and p.get("sepform") == "same-factor":
        # tau (x) tau for one full-rank complex state tau: a product state that is symmetric under exchanging the parties
        # (its realignment is a complex SYMMETRIC, non-Hermitian matrix)
        def near_pure():
            v = rng.standard_normal(dA) + (0 if real else 1j * rng.standard_normal(dA))
            v = v / np.linalg.norm(v)
            return 0.9 * np.outer(v, v.conj()) + 0.1 * np.eye(dA) / dA

        k = max(1, int(p.get("terms", 1)))
        # far from the maximally mixed state (outside the separable ball), so that the verdict has to come from the later criteria
        rho = sum(np.kron(t, t) for t in (near_pure() for _ in range(k))) / k
        truth, lam = "separable", None
    elif kind == "sep" and p.get("sepform") == "isotropic":
        # (1 - q) I/d^2 + q |Phi><Phi| is separable iff q <= 1/(d + 1); outside the separable ball for q > 1/(d^2 - 1)
        d_ = dA
        phi = np.eye(d_).reshape(-1) / np.sqrt(d_)
        q_ = float(p["q"])
        rho = (1 - q_) * np.eye(d_ * d_) / (d_ * d_) + q_ * np.outer(phi, phi)
        truth, lam = "separable", None
    elif kind == "sep":
        rho = _sep_state(dA, dB, p["terms"], rng, real)
        truth, lam = "separable", None
    elif kind == "npt":
        rho, lam = _npt_state(dA, dB, p.get("r", 2), p.get("p", 0.9), rng, real)
        num = _pt_min(rho, dA, dB)
        if abs(num - lam) > 1e-9 or lam > -0.01:
            from vt.contract import Undecided

            raise Undecided("generator self-check: closed-form lambda_min %.6g, numerical %.6g" % (lam, num))
        truth = "npt"
    elif kind == "mixed":
        rho = _mixed(dA * dB, p.get("rank", dA * dB), rng, real)
        lam = _pt_min(rho, dA, dB)
        truth = None
    else:  # ppt-noisy: random state mixed with the identity until the partial transpose is positive by a margin; separability unknown
        base = _mixed(dA * dB, p.get("rank", dA * dB), rng, real)
        n = dA * dB
        l0 = _pt_min(base, dA, dB)
        q = 1.0
        if l0 < 0.01:
            q = (1.0 / n - 0.01) / (1.0 / n - l0)
        rho = q * base + (1 - q) * np.eye(n) / n
        rho = (rho + rho.conj().T) / 2
        lam = _pt_min(rho, dA, dB)
        truth = None
    scale = float(p.get("scale", 1.0))
    if scale != 1.0:
        rho = rho * scale
    return rho, truth, lam


def _dim_arg(p, dims=None):
    import numpy as np

    dA, dB = dims or p["dims"]
    f = p.get("dimform", "list")
    if f == "list":
        return ([int(dA), int(dB)],)
    if f == "array":
        return (np.array([dA, dB]),)
    if f == "scalar":
        return (int(dA),)
    if f == "list1":
        return ([int(dA)],)
    if f == "omitted":
        if dA != dB:
            raise ValueError("dim may only be omitted for equal local dimensions")
        return ()
    raise ValueError(f)


# =============================================================================================
# return-site tracing of is_separable (no source edits)
# =============================================================================================
def _site_label(fn, line):
    """line-independent name of a return / raise site: '<enclosing condition> -> <statement>' taken from the source text"""
    import inspect

    try:
        src, first = inspect.getsourcelines(fn)
    except (OSError, TypeError):
        return "line %s" % line
    i = line - first
    if i < 0 or i >= len(src):
        return "line %s" % line
    stmt = src[i].strip()
    ind = len(src[i]) - len(src[i].lstrip())
    cond = "(top level of the cascade)"
    j = i - 1
    while j >= 0:
        t = src[j]
        if t.strip() and not t.strip().startswith("#"):
            jind = len(t) - len(t.lstrip())
            if jind < ind and t.strip().split()[0].rstrip(":") in ("if", "elif", "else", "for", "while", "def"):
                if t.strip().startswith("def"):
                    break
                cond = t.strip()
                # multi-line condition "if (": append the following lines up to the closing "):"
                if cond.endswith("("):
                    k = j + 1
                    while k < i and not src[k].strip().startswith(")"):
                        cond += " " + src[k].strip()
                        k += 1
                    cond += " ):"
                break
        j -= 1
    if len(cond) > 150:
        cond = cond[:147] + "..."
    return "%s -> %s" % (cond, stmt[:90])


def _all_return_sites(fn):
    import ast
    import inspect
    import textwrap

    src, first = inspect.getsourcelines(fn)
    tree = ast.parse(textwrap.dedent("".join(src)))
    out = []
    for node in ast.walk(tree):
        if isinstance(node, (ast.Return, ast.Raise)):
            out.append((node.lineno + first - 1, "return" if isinstance(node, ast.Return) else "raise"))
    return sorted(out)


def traced(fn, *args, **kwargs):
    """call fn and observe which line of fn returned / raised.  -> (result_or_None, exception_or_None, info)"""
    import sys

    code = fn.__code__
    st = {"last": None, "ret": None}
    mon = getattr(sys, "monitoring", None)
    tool = None
    if mon is not None:
        for tid in (4, 3, getattr(mon, "PROFILER_ID", 2)):
            try:
                if mon.get_tool(tid) is None:
                    mon.use_tool_id(tid, "verif-C15-return-sites")
                    tool = tid
                    break
            except Exception:
                continue
    res, exc = None, None
    if tool is not None:
        E = mon.events

        def on_line(c, line):
            if c is code:
                st["last"] = line

        def on_ret(c, off, val):
            if c is code:
                st["ret"] = st["last"]

        mon.register_callback(tool, E.LINE, on_line)
        mon.register_callback(tool, E.PY_RETURN, on_ret)
        mon.set_local_events(tool, code, E.LINE | E.PY_RETURN)
        try:
            res = fn(*args, **kwargs)
        except Exception as e:  # noqa: BLE001
            exc = e
        finally:
            mon.set_local_events(tool, code, 0)
            mon.register_callback(tool, E.LINE, None)
            mon.register_callback(tool, E.PY_RETURN, None)
            mon.free_tool_id(tool)
        how = "sys.monitoring"
    else:

        def tracer(frame, event, arg):
            if frame.f_code is not code:
                return None

            def local(frame, event, arg):
                if event == "line":
                    st["last"] = frame.f_lineno
                elif event == "return":
                    st["ret"] = frame.f_lineno
                return local

            return local

        old = sys.gettrace()
        sys.settrace(tracer)
        try:
            res = fn(*args, **kwargs)
        except Exception as e:  # noqa: BLE001
            exc = e
        finally:
            sys.settrace(old)
        how = "sys.settrace"
    if exc is None:
        line = st["ret"]
        info = {"outcome": "return", "line": line, "site": _site_label(fn, line) if line else None, "verdict": bool(res) if res is not None else None, "observer": how}
    else:
        line = st["last"]
        info = {"outcome": "raise", "line": line, "site": _site_label(fn, line) if line else None, "exception": type(exc).__name__, "observer": how}
    return res, exc, info


def _call_sep(p, rho, dims=None, level=None):
    """is_separable with tracing; exceptions raised by the library propagate (returns-normally clause) after the site is attached"""
    from toqito.state_props.is_separable import is_separable

    args = _dim_arg(p, dims)
    kw = {}
    if level is not None:
        kw["level"] = level
    res, exc, info = traced(is_separable, rho, *args, **kw)
    if exc is not None:
        try:  # make the raise site visible in the executor's record (it prints str(exc))
            exc.args = ("%s [is_separable raised at line %s: %s]" % (exc.args[0] if exc.args else "", info.get("line"), info.get("site")),) + tuple(exc.args[1:])
        except Exception:
            pass
        raise exc
    if not isinstance(res, (bool,)) and type(res).__name__ not in ("bool_", "bool"):
        from vt.contract import Violation

        raise Violation("is_separable returned %r (%s), not a boolean; site: %s" % (res, type(res).__name__, info.get("site")))
    return bool(res), info


# =============================================================================================
# clauses: is_separable
# =============================================================================================
def sep_accepts(p):
    """a convex mixture of product states is never declared entangled (and the call returns normally)"""
    from vt.contract import Violation

    rho, truth, _ = _state(p)
    verdict, info = _call_sep(p, rho)
    if not verdict:
        raise Violation("is_separable = False on a convex mixture of %d random product states on %dx%d (%s, dim %s); verdict produced at [%s] (line %s)" % (p["terms"], p["dims"][0], p["dims"][1], "real" if p.get("real") else "complex", p.get("dimform", "list"), info["site"], info["line"]))
    return info


def sep_rejects_npt(p):
    """a state whose partial transpose has an eigenvalue <= -0.01 is never declared separable"""
    from vt.contract import Violation

    rho, truth, lam = _state(p)
    verdict, info = _call_sep(p, rho)
    if verdict:
        raise Violation("is_separable = True on a %dx%d state with lambda_min(partial transpose) = %.6f; verdict produced at [%s] (line %s)" % (p["dims"][0], p["dims"][1], lam, info["site"], info["line"]))
    info["lambda_min"] = lam
    return info


def sep_small_ppt(p):
    """on 2x2, 2x3, 3x2 the verdict equals the PPT criterion (judged when |lambda_min| >= 1e-5)"""
    from vt.contract import Undecided, Violation

    rho, truth, lam = _state(p)
    dA, dB = p["dims"]
    if dA * dB > 6:
        raise Undecided("PPT is not decisive beyond dimension 6")
    if abs(lam) < 1e-5:
        raise Undecided("lambda_min = %.3g is inside the margin" % lam)
    verdict, info = _call_sep(p, rho)
    if verdict != (lam > 0):
        raise Violation("is_separable = %s on a %dx%d rank-%s state with lambda_min(partial transpose) = %.6g; verdict produced at [%s]" % (verdict, dA, dB, p.get("rank"), lam, info["site"]))
    info["lambda_min"] = lam
    return info


def sep_lu_invariant(p):
    """the verdict does not change under rho -> (U (x) V) rho (U (x) V)^dagger"""
    import numpy as np

    from vt.contract import Violation

    rho, truth, lam = _state(p)
    dA, dB = p["dims"]
    rng = np.random.default_rng([p.get("seed", 0), dA, dB, 97])
    W = np.kron(_haar(dA, rng, bool(p.get("real"))), _haar(dB, rng, bool(p.get("real"))))
    rho2 = W @ rho @ W.conj().T
    rho2 = (rho2 + rho2.conj().T) / 2
    v1, i1 = _call_sep(p, rho)
    v2, i2 = _call_sep(p, rho2)
    if v1 != v2:
        raise Violation("is_separable changes under a local unitary: %s at [%s] before, %s at [%s] after (%dx%d, kind %s)" % (v1, i1["site"], v2, i2["site"], dA, dB, p["kind"]))
    return {"before": i1, "after": i2}


def sep_exchange_invariant(p):
    """the verdict does not change under exchanging the two parties (dim reversed accordingly)"""
    from vt.contract import Violation

    rho, truth, lam = _state(p)
    dA, dB = p["dims"]
    rho2 = _swap_parties(rho, dA, dB)
    rho2 = (rho2 + rho2.conj().T) / 2
    v1, i1 = _call_sep(p, rho)
    v2, i2 = _call_sep(p, rho2, dims=[dB, dA])
    if v1 != v2:
        raise Violation("is_separable changes when the parties are exchanged: %s at [%s] for %dx%d, %s at [%s] for %dx%d (kind %s)" % (v1, i1["site"], dA, dB, v2, i2["site"], dB, dA, p["kind"]))
    return {"before": i1, "after": i2}


def _battery():
    """steered inputs: one family per return statement of the cascade"""
    import numpy as np

    out = []
    rng = np.random.default_rng(12345)
    out.append(("one-dimensional party", np.eye(4) / 4, [1, 4]))
    out.append(("not positive semidefinite (documented ValueError)", np.diag([1.0, -0.5, 0.25, 0.25]), [2, 2]))
    out.append(("scalar dim that does not divide (documented ValueError)", np.eye(4) / 4, 3))
    out.append(("npt 2x2", _npt_state(2, 2, 2, 0.9, rng)[0], [2, 2]))
    out.append(("npt 3x3", _npt_state(3, 3, 3, 0.9, rng)[0], [3, 3]))
    out.append(("ppt 2x3", _sep_state(2, 3, 4, rng), [2, 3]))
    for t in (1, 2, 4, 5):
        out.append(("separable 3x3, %d terms" % t, _sep_state(3, 3, t, rng), [3, 3]))
    out.append(("near maximally mixed 3x3", 0.05 * _mixed(9, 9, rng) + 0.95 * np.eye(9) / 9, [3, 3]))
    out.append(("near maximally mixed 4x4", 0.05 * _mixed(16, 16, rng) + 0.95 * np.eye(16) / 16, [4, 4]))
    out.append(("identity + rank one 3x3", (np.eye(9) + 0.4 * _sep_state(3, 3, 1, rng)) / (9 + 0.4), [3, 3]))
    # PPT entangled families in 3x3: Horodecki's a-family (detected by realignment) and the alpha-family (Choi-type maps)
    for a in (0.3, 0.5):
        x = np.zeros((9, 9))
        for i in range(9):
            x[i, i] = a
        for i, j in ((0, 4), (0, 8), (4, 8)):
            x[i, j] = x[j, i] = a
        x[6, 6] = x[8, 8] = (1 + a) / 2
        x[6, 8] = x[8, 6] = np.sqrt(1 - a * a) / 2
        out.append(("Horodecki 3x3 a=%.1f" % a, x / (8 * a + 1), [3, 3]))
    phi = np.zeros(9)
    phi[[0, 4, 8]] = 1 / np.sqrt(3)
    P = np.outer(phi, phi)
    sp = np.zeros((9, 9))
    sm = np.zeros((9, 9))
    for i, j in ((0, 1), (1, 2), (2, 0)):
        sp[3 * i + j, 3 * i + j] = 1 / 3
        sm[3 * j + i, 3 * j + i] = 1 / 3
    for al in (3.2, 3.9):
        out.append(("Horodecki alpha=%.1f" % al, (2 / 7) * P + (al / 7) * sp + ((5 - al) / 7) * sm, [3, 3]))
        out.append(("Horodecki alpha=%.1f (parties exchanged)" % al, (2 / 7) * P + (al / 7) * sm + ((5 - al) / 7) * sp, [3, 3]))
    # tiles UPB bound entangled state
    e = np.eye(3)
    vs = [np.kron(e[0], (e[0] - e[1]) / np.sqrt(2)), np.kron(e[2], (e[1] - e[2]) / np.sqrt(2)), np.kron((e[0] - e[1]) / np.sqrt(2), e[2]), np.kron((e[1] - e[2]) / np.sqrt(2), e[0]), np.kron(e.sum(0) / np.sqrt(3), e.sum(0) / np.sqrt(3))]
    out.append(("tiles UPB state", (np.eye(9) - sum(np.outer(v, v) for v in vs)) / 4, [3, 3]))
    out.append(("separable 2x4", _sep_state(2, 4, 5, rng), [2, 4]))
    out.append(("separable 4x4, 5 terms", _sep_state(4, 4, 5, rng), [4, 4]))
    return out


def sep_site_coverage(p):
    """observation only: which return / raise statements of is_separable a steered battery reaches (never a violation by itself)"""
    from toqito.state_props.is_separable import is_separable

    sites = {}
    allsites = _all_return_sites(is_separable)
    rows = []
    for name, rho, dims in _battery():
        res, exc, info = traced(is_separable, rho, dims, **({"level": 1} if not p.get("sdp") else {}))
        key = info.get("line")
        sites.setdefault(key, []).append(name)
        rows.append({"input": name, "outcome": info["outcome"], "line": key, "site": info.get("site"), "verdict": info.get("verdict"), "exception": info.get("exception")})
    reached = sorted(k for k in sites if k is not None)
    unreached = [{"line": ln, "kind": kind, "site": _site_label(is_separable, ln)} for ln, kind in allsites if ln not in sites]
    return {"reached_lines": reached, "rows": rows, "unreached": unreached, "statements_total": len(allsites)}


# =============================================================================================
# clauses: is_ppt / is_npt
# =============================================================================================
def _ppt_input(p):
    """Hermitian matrix whose partial transpose has smallest eigenvalue exactly `target`"""
    import numpy as np

    dA, dB = p["dims"]
    rng = np.random.default_rng([p.get("seed", 0), dA, dB, 53])
    n = dA * dB
    rho = _mixed(n, p.get("rank", n), rng, bool(p.get("real")))
    tol = p.get("tol")
    teff = float(np.sqrt(np.finfo(float).eps)) if tol is None else float(tol)
    # an explicit tolerance of exactly 0 must be honoured (not replaced by the default): judged 1e-9 away from 0, far above eigenvalue round-off
    # (1e-15) and far below the default tolerance sqrt(eps) = 1.5e-8
    margin = max(1e-6, teff / 2) if teff > 0 else 1e-9
    target = -teff + (margin if p["side"] == "inside" else -margin)
    X = rho + (target - _pt_min(rho, dA, dB)) * np.eye(n)
    X = (X + X.conj().T) / 2
    return X, target, teff


def _ppt_args(p):
    args = _dim_arg(p)
    return (p.get("sys", 2),) + (args if args else (None,)) + (p.get("tol"),)


def ppt_accepts(p):
    """is_ppt is True when lambda_min(partial transpose) >= -tol + margin"""
    from toqito.state_props import is_ppt
    from vt.contract import Violation

    X, target, teff = _ppt_input(p)
    got = is_ppt(X, *_ppt_args(p))
    if not bool(got):
        raise Violation("is_ppt = %r with tol=%s on a %dx%d matrix whose partial transpose has lambda_min = %.3g >= -tol = %.3g (sys=%s, dim %s)" % (got, p.get("tol"), p["dims"][0], p["dims"][1], target, -teff, p.get("sys", 2), p.get("dimform", "list")))


def ppt_rejects(p):
    """is_ppt is False when lambda_min(partial transpose) <= -tol - margin"""
    from toqito.state_props import is_ppt
    from vt.contract import Violation

    X, target, teff = _ppt_input(p)
    got = is_ppt(X, *_ppt_args(p))
    if bool(got):
        raise Violation("is_ppt = %r with tol=%s on a %dx%d matrix whose partial transpose has lambda_min = %.3g < -tol = %.3g (sys=%s, dim %s)" % (got, p.get("tol"), p["dims"][0], p["dims"][1], target, -teff, p.get("sys", 2), p.get("dimform", "list")))


def npt_negation(p):
    """is_npt(args) == not is_ppt(args), and is_npt is True exactly when lambda_min < -tol (by the margin)"""
    from toqito.state_props import is_npt, is_ppt
    from vt.contract import Violation

    X, target, teff = _ppt_input(p)
    a = is_ppt(X, *_ppt_args(p))
    b = is_npt(X, *_ppt_args(p))
    if bool(b) != (not bool(a)):
        raise Violation("is_npt = %r but is_ppt = %r on the same arguments" % (b, a))
    exp = p["side"] == "outside"
    if p.get("tol") is None and bool(b) != exp:
        raise Violation("is_npt = %r (default tolerance) on a matrix whose partial transpose has lambda_min = %.3g" % (b, target))


# =============================================================================================
# clauses: in_separable_ball, has_symmetric_extension
# =============================================================================================
def _ball_input(p):
    import numpy as np

    n = p["n"]
    rng = np.random.default_rng([p.get("seed", 0), n, 59])
    t0 = np.sqrt(1.0 / (n * (n - 1)))
    fac = 0.99 if p["side"] == "inside" else 1.01
    for _ in range(200):
        u = rng.standard_normal(n)
        u -= u.mean()
        u /= np.linalg.norm(u)
        q = 1.0 / n + fac * t0 * u
        if q.min() >= 0:
            break
    else:
        u = np.ones(n)
        u[-1] = -(n - 1)
        u /= np.linalg.norm(u)
        q = 1.0 / n + fac * t0 * u  # the touching direction: one eigenvalue crosses zero outside the ball
        q = np.abs(q)
    form = p.get("form", "matrix")
    scale = float(p.get("scale", 1.0))
    dist2 = float(np.sum((q / q.sum() - 1.0 / n) ** 2))
    if form == "matrix":
        U = _haar(n, rng, bool(p.get("real")))
        X = (U * q) @ U.conj().T
        X = (X + X.conj().T) / 2
    elif form == "flat":
        X = q.copy()
    else:
        X = q.reshape(-1, 1).copy()
    return X * scale, dist2, 1.0 / (n * (n - 1))


def ball_sound(p):
    """in_separable_ball accepts only operators with ||rho/Tr rho - I/d||_F^2 <= 1/(d(d-1))"""
    from toqito.state_props import in_separable_ball
    from vt.contract import Violation

    X, dist2, rad2 = _ball_input(p)
    got = in_separable_ball(X)
    if bool(got) and dist2 > rad2 * (1 + 1e-3):
        raise Violation("in_separable_ball = %r for an operator at squared distance %.8f from I/d, the Gurvits-Barnum radius squared is %.8f (d=%d, form %s)" % (got, dist2, rad2, p["n"], p.get("form", "matrix")))


def ball_complete(p):
    """in_separable_ball accepts operators strictly inside the ball (documented: True iff contained)"""
    from toqito.state_props import in_separable_ball
    from vt.contract import Violation

    X, dist2, rad2 = _ball_input(p)
    got = in_separable_ball(X)
    if not bool(got) and dist2 < rad2 * (1 - 1e-3):
        raise Violation("in_separable_ball = %r for an operator at squared distance %.8f from I/d, inside the Gurvits-Barnum radius squared %.8f (d=%d, form %s)" % (got, dist2, rad2, p["n"], p.get("form", "matrix")))


def ball_negative(p):
    """an operator of negative trace (minus an operator inside the ball) is never accepted"""
    import numpy as np

    from toqito.state_props import in_separable_ball
    from vt.contract import Violation

    X, dist2, rad2 = _ball_input(dict(p, side="inside"))
    got = in_separable_ball(-X)
    if bool(got):
        raise Violation("in_separable_ball = %r for minus an operator inside the ball (trace %.3g < 0; d=%d, form %s)" % (got, -float(np.sum(X) if X.ndim == 1 or X.shape[-1] == 1 else np.trace(X).real), p["n"], p.get("form", "matrix")))


def ppt_nonpsd_operator(p):
    """is_ppt judges the partial transpose, not the operator: a Hermitian operator that is NOT positive semidefinite but whose partial transpose is
    (e.g. the swap operator, the partial transpose of a state) is PPT, and is_npt is its negation"""
    import numpy as np

    from toqito.state_props import is_npt, is_ppt
    from vt.contract import Violation

    dA, dB = p["dims"]
    n = dA * dB
    rng = np.random.default_rng([p.get("seed", 0), dA, dB, 61])
    Y = _mixed(n, n, rng, bool(p.get("real"))) + 0.05 * np.eye(n) / n  # positive definite: lambda_min(PT(X)) >= 0.05/n, far above every tolerance
    sys_ = int(p.get("sys", 2))
    if sys_ == 2:
        X = Y.reshape(dA, dB, dA, dB).transpose(0, 3, 2, 1).reshape(n, n)
    else:
        X = Y.reshape(dA, dB, dA, dB).transpose(2, 1, 0, 3).reshape(n, n)
    X = (X + X.conj().T) / 2
    lam = float(np.linalg.eigvalsh(X).min())
    if lam > -1e-3:
        from vt.contract import Undecided

        raise Undecided("the constructed operator is positive semidefinite itself (lambda_min %.3g)" % lam)
    got = is_ppt(X, sys_, [dA, dB])
    if not bool(got):
        raise Violation("is_ppt = %r on a %dx%d Hermitian operator with lambda_min = %.3g whose partial transpose over party %d is positive definite" % (got, dA, dB, lam, sys_))
    if bool(is_npt(X, sys_, [dA, dB])):
        raise Violation("is_npt = True on the same operator (negation of is_ppt = True)")


def symext_accepts(p):
    """has_symmetric_extension accepts every separable state (levels 1..2, with and without the PPT constraint)"""
    from toqito.state_props import has_symmetric_extension
    from vt.contract import Violation

    rho, truth, _ = _state(p)
    args = _dim_arg(p)
    dim = args[0] if args else None
    got = has_symmetric_extension(rho, p.get("level", 2), dim, bool(p.get("ppt", True)))
    if not bool(got):
        raise Violation("has_symmetric_extension(level=%d, ppt=%s) = %r on a convex mixture of %d product states on %dx%d (dim %s)" % (p.get("level", 2), p.get("ppt", True), got, p["terms"], p["dims"][0], p["dims"][1], p.get("dimform", "list")))


CLAUSES = {
    "ball.negative_trace": ball_negative,
    "ppt.nonpsd_operator": ppt_nonpsd_operator,
    "sep.accepts_separable": sep_accepts,
    "sep.rejects_npt": sep_rejects_npt,
    "sep.small_equals_ppt": sep_small_ppt,
    "sep.lu_invariant": sep_lu_invariant,
    "sep.exchange_invariant": sep_exchange_invariant,
    "sep.site_coverage": sep_site_coverage,
    "ppt.accepts_within_tol": ppt_accepts,
    "ppt.rejects_below_tol": ppt_rejects,
    "npt.negation": npt_negation,
    "ball.sound": ball_sound,
    "ball.complete": ball_complete,
    "symext.accepts_separable": symext_accepts,
}
_FN = {
    "sep.accepts_separable": "is_separable",
    "sep.rejects_npt": "is_separable",
    "sep.small_equals_ppt": "is_separable",
    "sep.lu_invariant": "is_separable",
    "sep.exchange_invariant": "is_separable",
    "sep.site_coverage": "is_separable",
    "ppt.accepts_within_tol": "is_ppt",
    "ppt.rejects_below_tol": "is_ppt",
    "npt.negation": "is_npt",
    "ball.sound": "in_separable_ball",
    "ball.complete": "in_separable_ball",
    "ball.negative_trace": "in_separable_ball",
    "ppt.nonpsd_operator": "is_ppt",
    "symext.accepts_separable": "has_symmetric_extension",
}
for _k, _f in CLAUSES.items():
    _f.function = _FN[_k]
    _f.limit = 60
sep_site_coverage.limit = 120
symext_accepts.limit = 100
sep_lu_invariant.limit = 90
sep_exchange_invariant.limit = 90

DIMS = [(a, b) for a in (2, 3, 4) for b in (2, 3, 4)]


def _rank_bucket(terms, dA, dB):
    r = min(terms, dA * dB)
    return "rank%d" % r if r <= 4 else "rank5+"


def _sep_class(dA, dB, terms):
    base = "is_separable/separable/%dx%d" % (dA, dB)
    if dA == dB and dA >= 3:
        base += "/" + _rank_bucket(terms, dA, dB)
    return base


def cases(tier, seed):
    thorough = tier == "thorough"
    out = []

    def add(clause, params, ic, nontrivial=True):
        out.append(dict(clause=clause, params=params, input_class=ic, nontrivial=nontrivial))

    def slow(dA, dB, terms):
        """3x3 separable states beyond the rank shortcuts end in the symmetric-extension SDP (5-10 s)"""
        return dA == 3 and dB == 3 and terms >= 3 and terms != 4

    # ------------------------------------------------------------------ is_separable on separable mixtures
    term_grid = (1, 2, 3, 4, 5, 9, 12)
    for dA, dB in DIMS:
        d = [dA, dB]
        for terms in term_grid:
            for real in (False, True):
                seeds = [seed] + ([seed + 1, seed + 2] if thorough else [])
                for sd_ in seeds:
                    if slow(dA, dB, terms) and not thorough and not ((terms == 3 and not real) or (terms == 9 and real) or (terms == 5 and not real) or (terms == 12 and real)):
                        continue  # each of these ends in the symmetric-extension SDP (5-10 s): four samples in the quick tier
                    q = dict(dims=d, kind="sep", terms=terms, real=real, seed=sd_, dimform="list")
                    add("sep.accepts_separable", q, _sep_class(dA, dB, terms), terms >= 2)
        # dim forms and rescaled trace on cheap instances
        for df in ["scalar"] + (["omitted"] if dA == dB else []):
            for terms in (2, 4):
                add("sep.accepts_separable", dict(dims=d, kind="sep", terms=terms, real=False, seed=seed, dimform=df), _sep_class(dA, dB, terms) + "/dim=" + df, True)
        add("sep.accepts_separable", dict(dims=d, kind="sep", terms=2, real=False, seed=seed + 5, dimform="list", scale=3.0), _sep_class(dA, dB, 2) + "/trace=3", True)
    # product states symmetric under party exchange, and separable isotropic states between the separable ball and the boundary 1/(d+1)
    for dd in (2, 3):
        for real in (False, True):
            add("sep.accepts_separable", dict(dims=[dd, dd], kind="sep", sepform="same-factor", terms=1, real=real, seed=seed, dimform="list"), "is_separable/separable/%dx%d/same-factor-product" % (dd, dd), True)
            add("sep.lu_invariant", dict(dims=[dd, dd], kind="sep", sepform="same-factor", terms=1, real=real, seed=seed, dimform="list"), "is_separable/separable/%dx%d/same-factor-product" % (dd, dd), True)
            add("sep.accepts_separable", dict(dims=[dd, dd], kind="sep", sepform="same-factor", terms=2, real=real, seed=seed + 1, dimform="list"), "is_separable/separable/%dx%d/same-factor-mixture" % (dd, dd), True)
        for q_ in ((0.2, 0.3) if dd == 2 else (0.15, 0.2, 0.24)):
            add("sep.accepts_separable", dict(dims=[dd, dd], kind="sep", sepform="isotropic", terms=0, q=q_, real=True, seed=seed, dimform="list"), "is_separable/separable/%dx%d/isotropic-below-1/(d+1)" % (dd, dd), True)
    # ------------------------------------------------------------------ NPT states are rejected
    for dA, dB in DIMS:
        d = [dA, dB]
        for r in range(2, min(dA, dB) + 1):
            for pm in (0.9, 0.6):
                for real in (False, True):
                    for df in ["list", "scalar"] + (["omitted"] if dA == dB else []):
                        if df != "list" and (real or pm != 0.9):
                            continue
                        # keep lambda_min <= -0.01: s0 s1 >= 0.09*... checked by the generator self-test
                        add("sep.rejects_npt", dict(dims=d, kind="npt", r=r, p=pm, real=real, seed=seed, dimform=df), "is_separable/npt/%dx%d" % (dA, dB), True)
        if thorough:
            for i in range(4):
                add("sep.rejects_npt", dict(dims=d, kind="npt", r=2, p=0.8, real=False, seed=seed + 10 + i, dimform="list"), "is_separable/npt/%dx%d" % (dA, dB), True)
    # ------------------------------------------------------------------ small dimensions: verdict == PPT
    for dA, dB in ((2, 2), (2, 3), (3, 2)):
        d = [dA, dB]
        n = dA * dB
        for rank in range(1, n + 1):
            for i in range(6 if thorough else 2):
                for real in (False, True):
                    add("sep.small_equals_ppt", dict(dims=d, kind="mixed", rank=rank, real=real, seed=seed + i, dimform="list"), "is_separable/mixed/%dx%d" % (dA, dB), True)
        for i in range(8 if thorough else 3):
            add("sep.small_equals_ppt", dict(dims=d, kind="ppt-noisy", rank=n, real=False, seed=seed + i, dimform="list"), "is_separable/ppt-noisy/%dx%d" % (dA, dB), True)
    # ------------------------------------------------------------------ invariance under local unitaries / party exchange
    for dA, dB in DIMS:
        d = [dA, dB]
        kinds = [dict(kind="sep", terms=2), dict(kind="npt", r=2, p=0.9), dict(kind="mixed", rank=dA * dB)]
        if dA * dB <= 6:
            kinds += [dict(kind="sep", terms=5), dict(kind="mixed", rank=2), dict(kind="ppt-noisy", rank=dA * dB)]
        if dA == 3 and dB == 3:
            kinds += [dict(kind="sep", terms=4), dict(kind="ppt-noisy", rank=9)]  # the second one costs two SDP solves
            if thorough:
                kinds += [dict(kind="sep", terms=5), dict(kind="sep", terms=3), dict(kind="ppt-noisy", rank=5)]
        for kd in kinds:
            q = dict(dims=d, real=False, seed=seed, dimform="list", **kd)
            tag = kd["kind"] + ("-%dterms" % kd["terms"] if "terms" in kd else "")
            add("sep.lu_invariant", q, "is_separable/%s/%dx%d" % (tag, dA, dB), True)
            add("sep.exchange_invariant", q, "is_separable/%s/%dx%d" % (tag, dA, dB), True)
    add("sep.site_coverage", dict(sdp=bool(thorough)), "is_separable/steered-battery", True)
    # ------------------------------------------------------------------ is_ppt / is_npt
    for dA, dB in DIMS:
        d = [dA, dB]
        for tol in (None, 1e-5, 1e-3, 1e-1, 0, 0.0):
            tl = "default" if tol is None else ("%g" % tol if tol else ("0-int" if isinstance(tol, int) else "0-float"))
            for side in ("inside", "outside"):
                for sys_ in (1, 2):
                    for df in ["list", "scalar", "list1"] + (["omitted"] if dA == dB else []):
                        if df != "list" and (sys_ == 1 or tol not in (None, 1e-3)):
                            continue
                        q = dict(dims=d, tol=tol, side=side, sys=sys_, dimform=df, seed=seed, real=(dA + dB) % 2 == 1, rank=dA * dB if side == "inside" else max(2, dA))
                        ic = "is_ppt/tol=%s/dim=%s" % (tl, df)
                        add("ppt.accepts_within_tol" if side == "inside" else "ppt.rejects_below_tol", q, ic, True)
                        if sys_ == 2:
                            add("npt.negation", q, "is_npt/tol=%s/dim=%s" % (tl, df), True)
    for dA, dB in DIMS:
        for sys_ in (1, 2):
            add("ppt.nonpsd_operator", dict(dims=[dA, dB], sys=sys_, seed=seed, real=(dA + dB) % 2 == 1), "is_ppt/non-psd-operator-with-psd-partial-transpose", True)
    # ------------------------------------------------------------------ separable ball
    for n in (4, 6, 8, 9, 12, 16):
        for side in ("inside", "outside"):
            for form in ("matrix", "flat", "column"):
                for scale in (1.0, 2.5):
                    for i in range(3 if thorough else 1):
                        q = dict(n=n, side=side, form=form, scale=scale, seed=seed + i, real=(n % 2 == 0))
                        ic = "in_separable_ball/%s" % ("eigenvalue-%s" % form if form != "matrix" else "matrix")
                        add("ball.sound" if side == "outside" else "ball.complete", q, ic, True)
                        if side == "inside" and i == 0:
                            add("ball.negative_trace", q, ic + "/negative-trace", True)
    # ------------------------------------------------------------------ symmetric extensions of separable states
    for dA, dB in DIMS:
        d = [dA, dB]
        for level in (1, 2):
            for ppt in (True, False):
                sdp = level == 2 and (dA * dB > 6 or not ppt) and not (dA == 2 and dB == 2)
                for terms in (1, 3, 6):
                    for df in ["list", "scalar"] + (["omitted"] if dA == dB else []):
                        if sdp and not thorough:
                            # SDP-backed (or crashing) branch: one or two samples per dimension pair
                            if terms != 3 or df != "list":
                                continue
                            if dA * dB > 9 and ppt is False:
                                continue
                            if dA * dB >= 12 and dA * dB != 8 and min(dA, dB) >= 3:
                                continue  # 3x4, 4x3 (20 s each) and 4x4 are left to the thorough tier
                        if df != "list" and terms != 3:
                            continue
                        q = dict(dims=d, kind="sep", terms=terms, real=False, seed=seed, dimform=df, level=level, ppt=ppt)
                        ic = "has_symmetric_extension/level=%d/ppt=%s/%dx%d" % (level, ppt, dA, dB)
                        add("symext.accepts_separable", q, ic, terms >= 2)
    return out


# =============================================================================================
# deductive part (prover side) and its replay clauses
# =============================================================================================
from props.C15_prove import EXTRA_CLAUSES as _EXTRA  # noqa: E402
from props.C15_prove import prove  # noqa: E402,F401

CLAUSES.update(_EXTRA)
LEVEL = "other"
ENGINES = ["E1-pyvc", "E3-E4-rtc"]
LEVEL_TEXT = 'Mixed. Proved (E1-term, over callee contracts): is_ppt is is_positive_semidefinite(partial_transpose(mat, [sys-1], dim), atol=tol) and is_npt its negation with the same arguments. The soundness of is_separable / has_symmetric_extension / in_separable_ball verdicts is a bounded run-time contract check with ground truth by construction and return-site coverage.'
EXPLANATION = LEVEL_TEXT
TECHNIQUE = "VCs from the real AST discharged by z3 (index contract on the amplitude matrix; formula contracts over uninterpreted library operations) + bounded run-time-checked contracts on the real functions"


# =============================================================================================
# frame coverage shared by all properties (E2 obligations for every public function of the anchor files + run-time frame cases)
# =============================================================================================
from props import frame_all as _fa  # noqa: E402
from props.frame_common import frame_generic as _fg, frame_object as _fo  # noqa: E402

CLAUSES.setdefault("frame.generic", _fg)
CLAUSES.setdefault("frame.object", _fo)
_cases_before_frames = cases
_prove_before_frames = globals().get("prove")


def cases(tier, seed):  # noqa: F811
    return _cases_before_frames(tier, seed) + _fa.frame_cases(ID, seed)


def prove(tier, seed):  # noqa: F811
    from vt.pyvc.termproofs import merge

    b = _fa.prove_frames(ID, lambda s: _fa.frame_cases(ID, s))(tier, seed)
    if _prove_before_frames is None:
        return b
    return merge(_prove_before_frames(tier, seed), b)

if LEVEL == "exploration":
    LEVEL = "other"
LEVEL_TEXT = LEVEL_TEXT + (" Additionally proved (E2, taint analysis of the real AST): every public function and method in this property's anchor files writes through "
                           "no reference reachable from its arguments (or from self), so results do not depend on call order and callers' arrays / lists are not modified; "
                           "a run-time frame clause replays the same claim on concrete arguments.")
EXPLANATION = LEVEL_TEXT
if "E2-frame" not in globals().get("ENGINES", []):
    ENGINES = list(globals().get("ENGINES", ["E3-E4-rtc"])) + ["E2-frame"]
