"""Generic run-time frame clause: a call writes through none of its arguments, and calling again with the very same argument
objects (or with fresh copies) gives the same result.  Arguments are described by JSON specs so that cases are replayable."""
from __future__ import annotations

import copy
import importlib

import numpy as np

from vt.contract import Undecided, Violation


def _rng(seed):
    return np.random.default_rng(seed)


def build(spec):
    k = spec["kind"]
    if k == "const":
        return spec["v"]
    if k == "array":
        return np.array(spec["v"])
    if k == "matrix":
        r = _rng(spec.get("seed", 0))
        shp = tuple(spec["shape"])
        m = r.standard_normal(shp)
        if spec.get("complex", True):
            m = m + 1j * r.standard_normal(shp)
        return m
    if k == "density":
        r = _rng(spec.get("seed", 0))
        d = spec["d"]
        g = r.standard_normal((d, spec.get("rank", d))) + 1j * r.standard_normal((d, spec.get("rank", d)))
        m = g @ g.conj().T
        return m / np.trace(m)
    if k == "ket":
        r = _rng(spec.get("seed", 0))
        v = r.standard_normal(spec["d"]) + 1j * r.standard_normal(spec["d"])
        v = v / np.linalg.norm(v)
        return v.reshape(-1, 1) if spec.get("column", True) else v
    if k == "kets":
        return [build(dict(kind="ket", d=spec["d"], seed=spec.get("seed", 0) + i, column=spec.get("column", True))) for i in range(spec["n"])]
    if k == "densities":
        return [build(dict(kind="density", d=spec["d"], seed=spec.get("seed", 0) + i, rank=spec.get("rank", spec["d"]))) for i in range(spec["n"])]
    if k == "probs":
        r = _rng(spec.get("seed", 0))
        p = r.random(spec["n"]) + 0.1
        return list(p / p.sum())
    if k in ("kraus_flat", "kraus_nested", "kraus_pairs", "choi"):
        r = _rng(spec.get("seed", 0))
        di, do, n = spec["d_in"], spec["d_out"], spec.get("r", 2)
        # a trace-preserving family: first columns of a Haar unitary on C^(do*n) restricted to C^di
        g = r.standard_normal((do * n, do * n)) + 1j * r.standard_normal((do * n, do * n))
        q = np.linalg.qr(g)[0][:, :di]
        ks = [q[i * do : (i + 1) * do, :] for i in range(n)]
        if k == "kraus_flat":
            return ks
        if k == "kraus_nested":
            return [[x] for x in ks]
        if k == "kraus_pairs":
            return [[x, x.copy()] for x in ks]
        J = np.zeros((di * do, di * do), dtype=complex)
        for x in ks:
            v = x.T.reshape(-1, 1)  # toqito convention: J = sum_ij E_ij (x) Phi(E_ij)
            J += v @ v.conj().T
        return J
    if k == "enlg_pred":
        # referee operators of the BB84 extended nonlocal game, V[:, :, a, b, x, y] (questions x = y; win iff a == b, operator = projector of the x-basis)
        e0, e1 = np.array([1.0, 0.0]), np.array([0.0, 1.0])
        ep, em = (e0 + e1) / np.sqrt(2), (e0 - e1) / np.sqrt(2)
        V = np.zeros((2, 2, 2, 2, 2, 2), dtype=complex if spec.get("complex") else float)
        V[:, :, 0, 0, 0, 0] = np.outer(e0, e0)
        V[:, :, 1, 1, 0, 0] = np.outer(e1, e1)
        V[:, :, 0, 0, 1, 1] = np.outer(ep, ep)
        V[:, :, 1, 1, 1, 1] = np.outer(em, em)
        return V
    raise ValueError("unknown argument kind %r" % k)


def deep_equal(a, b):
    if isinstance(a, (list, tuple)) and isinstance(b, (list, tuple)):
        return len(a) == len(b) and all(deep_equal(x, y) for x, y in zip(a, b))
    if isinstance(a, np.ndarray) or isinstance(b, np.ndarray):
        a, b = np.asarray(a), np.asarray(b)
        return a.shape == b.shape and a.dtype == b.dtype and bool(np.array_equal(a, b))
    return type(a) is type(b) and a == b


def close(a, b, tol=1e-9):
    if isinstance(a, (list, tuple)) and isinstance(b, (list, tuple)):
        return len(a) == len(b) and all(close(x, y, tol) for x, y in zip(a, b))
    if a is None or b is None:
        return a is b
    try:
        a, b = np.asarray(a), np.asarray(b)
        if a.dtype == object or b.dtype == object:
            return a.shape == b.shape
        return a.shape == b.shape and bool(np.allclose(a, b, atol=tol, rtol=0))
    except Exception:
        return True


def _freeze(x):
    """numeric snapshot of a result: numbers and arrays are copied, containers recursed, anything else (solver variables, ...) dropped"""
    if isinstance(x, (bool, int, float, complex, np.number)):
        return x
    if isinstance(x, np.ndarray):
        return x.copy() if x.dtype != object else None
    if isinstance(x, (list, tuple)):
        return [_freeze(y) for y in x]
    return None


def frame_generic(p):
    """frame clause (see module docstring); params: module, fn, args (list of specs), kwargs (dict of specs), tol"""
    mod = importlib.import_module(p["module"])
    f = getattr(mod, p["fn"])
    args = [build(s) for s in p.get("args", [])]
    kwargs = {k: build(s) for k, s in p.get("kwargs", {}).items()}
    b_args, b_kwargs = copy.deepcopy(args), copy.deepcopy(kwargs)
    r1 = f(*args, **kwargs)
    for i, (a, b) in enumerate(zip(args, b_args)):
        if not deep_equal(a, b):
            raise Violation("%s modified its positional argument #%d" % (p["fn"], i))
    for k in kwargs:
        if not deep_equal(kwargs[k], b_kwargs[k]):
            raise Violation("%s modified its argument `%s`" % (p["fn"], k))
    r1c = _freeze(r1)
    if p.get("deterministic", True):
        r2 = _freeze(f(*args, **kwargs))
        if not close(r1c, r2, p.get("tol", 1e-9)):
            raise Violation("%s: a second call with the same argument objects returned a different result" % p["fn"])
        r3 = _freeze(f(*copy.deepcopy(b_args), **copy.deepcopy(b_kwargs)))
        if not close(r1c, r3, p.get("tol", 1e-9)):
            raise Violation("%s: the result depends on earlier calls" % p["fn"])
        # the result belongs to the caller: editing it in place must not change what later calls return (a memoised / shared result would)
        inputs = [x for x in _arrays(args) + _arrays(list(kwargs.values()))]
        if _scribble(r1, inputs):
            r4 = _freeze(f(*copy.deepcopy(b_args), **copy.deepcopy(b_kwargs)))
            if not close(r1c, r4, p.get("tol", 1e-9)):
                raise Violation("%s: after the caller modified an earlier result in place, a new call returns a different result (the result aliases state kept by the library)" % p["fn"])


def _arrays(x):
    out = []
    if isinstance(x, np.ndarray):
        out.append(x)
    elif isinstance(x, (list, tuple)):
        for y in x:
            out += _arrays(y)
    elif isinstance(x, dict):
        for y in x.values():
            out += _arrays(y)
    return out


def _scribble(r, inputs):
    """overwrite every writable numeric ndarray inside the result that does not share memory with an argument; True if anything was written"""
    done = False
    for a in _arrays(r):
        if a.dtype.kind not in "biufc" or not a.flags.writeable or a.size == 0:
            continue
        if any(np.shares_memory(a, b) for b in inputs):
            continue  # a documented pass-through (e.g. to_density_matrix of a square matrix) is the caller's own array
        a[...] = a * 0 + 7
        done = True
    return done


frame_generic.function = "frame"


def e2_records(targets, replay=None):
    """prover side: E2 `modifies nothing` obligations for (relpath, qualname) targets"""
    from vt.frame import Index, frame_obligations

    ix = Index()
    out = []
    for rel, qual in targets:
        recs, S = frame_obligations(ix, rel, qual, modifies=(), label="%s modifies none of its arguments" % qual)
        for x in recs:
            x["clean"] = False
            if x["status"] != "discharged" and replay:
                x["replay"] = [c for c in replay if c["params"]["fn"] == qual.split(".")[-1]]
        out += recs
    for i, x in enumerate(out):
        x["_id"] = "e2.%d" % i
    return out


def frame_object(p):
    """frame clause for classes: computing any value leaves the object (its attributes) and the constructor arguments unchanged, and
    every method returns the same value as on a fresh object, whatever was called before.
    params: module, cls, args (specs), methods: list of [name, {kwargs}] in call order, tol"""
    mod = importlib.import_module(p["module"])
    cls = getattr(mod, p["cls"])
    args = [build(s) for s in p.get("args", [])]
    b_args = copy.deepcopy(args)
    obj = cls(*args)
    snap = copy.deepcopy({k: v for k, v in vars(obj).items()})
    tol = p.get("tol", 5e-4)
    for name, kw in p["methods"]:
        fresh = cls(*copy.deepcopy(b_args))
        try:
            ref = getattr(fresh, name)(**kw)
        except Exception as e:
            raise Undecided("reference call %s on a fresh object failed: %s" % (name, str(e)[:100]))
        got = getattr(obj, name)(**kw)
        for i, (a, b) in enumerate(zip(args, b_args)):
            if not deep_equal(a, b):
                raise Violation("%s.%s modified constructor argument #%d (the caller's array)" % (p["cls"], name, i))
        now = {k: v for k, v in vars(obj).items()}
        for k in snap:
            if k not in now or not deep_equal(now[k], snap[k]):
                raise Violation("%s.%s modified the object's attribute `%s`" % (p["cls"], name, k))
        if isinstance(got, (int, float, np.floating)) and isinstance(ref, (int, float, np.floating)):
            if not (np.isfinite(got) and np.isfinite(ref)):
                raise Undecided("non-finite value from %s" % name)
            if abs(float(got) - float(ref)) > tol and not p.get("randomized", {}).get(name):
                raise Violation("%s.%s returned %.6f after %s, but %.6f on a fresh object" % (p["cls"], name, float(got), [m for m, _ in p["methods"]], float(ref)))


frame_object.function = "frame"
