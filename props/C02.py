"""C02 -- partial trace is the index contraction over the traced subsystems."""
from __future__ import annotations

import itertools

ID = "C02"
TITLE = "partial trace is the index contraction"
LEVEL = "proof"
BUDGET = {"quick": 70, "thorough": 900}
RULE = (
    "E1: one proof instance per (n, traced set S in every listing order, sys as list/int, dim as list/ndarray), each for ALL local dimensions "
    "(>= 1) and ALL entries. Bounded stand-in (E3/E4): real partial_trace on arange / sympy-symbol / complex matrices for all dimension vectors "
    "with entries in {1,2,3} (thorough {1..4}), n<=4, N<=36 (thorough 64), every S ordering, int form, list/scalar/omitted dim, the stated corollaries, "
    "and the cvxpy-Variable path compared with the numeric path; non-trivial = N > 1 and S non-empty; distinct = distinct (clause, parameters)."
)
EXPLANATION = "proof tier: VCs from the real AST of partial_trace with permute_systems seen only through its contract; bounded tier labelled bounded_*"
TRUSTED = [
    "mixed-radix rule (digit regrouping in reshape; re-proved in lean/MixedRadix.lean), change of variables on sum-bound digits ranging over a full [0, radix)",
    "numpy primitives under assumed contracts: np.reshape(order=F), transpose(axes), a[:, :, list(range(0, T*T, T+1))] picks the diagonal of a TxT block, np.sum(axis)",
    "the remaining subsystems are listed by sorted(set difference): ascending by construction (the former reliance on set iteration order was a defect, F-02a)",
    "S-float-dims: prod_dim / prod_dim_sys, np.ones(k) * x / y, int(float) exact on integral values; scalar/omitted dim only in the bounded tier",
    "callee contract used (not body): permute_systems (proved under C01)",
    "cvxpy Variable branch (expr_as_np_array / np_array_as_expr) only in the bounded tier",
    "z3, cvc5, sympy normal form, CPython ast; n and S enumerated (n<=4 quick, n<=5 thorough)",
]
ASSUMPTIONS = TRUSTED
TECHNIQUE = 'VC generation from the real AST of partial_trace (callee permute_systems by contract) + z3/normal-form discharge, per (n, S ordering) for all dimensions and entries; bounded run-time contracts for scalar/omitted dims, corollaries and the cvxpy path'
LEVEL_TEXT = 'Proof per enumerated (n <= 4/5, traced set S in every listing order, int form) instance: for ALL local dimensions (>= 1) and ALL entries the result is the stated index contraction with the remaining subsystems in original order. Corollaries (linearity, trace, composition), scalar/omitted arguments and the cvxpy-Variable path are bounded run-time checks.'
ENGINES = ["E1-pyvc", "E3-E4-rtc"]
from props.index_clauses import CLAUSES  # noqa: E402,F401


def prove(tier, seed):
    from vt.pyvc import index_proofs as IP
    from vt.pyvc import selfcheck

    S = IP.Sources()
    tasks = IP.instances_C02(tier)
    records, wall = IP.run_instances(tasks, S)
    names = ["partial_trace"]
    records += IP.frame_records(["partial_trace"])
    planted = selfcheck.planted("C02", tier, S)
    sc = selfcheck.standard(records, names)
    sc["planted_bugs_all_refuted"] = {"ok": planted["tried"] == planted["refuted"], "detail": planted}
    aux = IP.crosscheck_cases(S, seed, 30 if tier == "thorough" else 12)
    return dict(aux_cases=aux, records=records, functions=S.info(names + ["permute_systems"]), instances=len(tasks), planted=planted, selfchecks=sc, wall=wall)


def cases(tier, seed):
    thorough = tier == "thorough"
    out = []

    def add(clause, params, ic, nontrivial=True):
        out.append(dict(clause=clause, params=params, input_class=ic, nontrivial=nontrivial))

    vals = [1, 2, 3, 4] if thorough else [1, 2, 3]
    maxN = 64 if thorough else 36
    for n in (1, 2, 3, 4):
        for d in itertools.product(vals, repeat=n):
            N = 1
            for x in d:
                N *= x
            if not (2 <= N <= maxN):
                continue
            d = list(d)
            for size in range(1, n + 1):
                for S in itertools.permutations(range(n), size):
                    if n == 4 and size >= 3 and list(S) != sorted(S) and not thorough:
                        continue
                    add("ptrace.index", dict(sys=list(S), dims=d, sysform="list", dimform="list"), "partial_trace/list")
                    if size == 1:
                        add("ptrace.index", dict(sys=list(S), dims=d, sysform="int", dimform="list"), "partial_trace/int")
                    if N <= 12 and n <= 3:
                        add("ptrace.index", dict(sys=list(S), dims=d, sysform="list", dimform="array", entries="sym"), "partial_trace/sym")
                        add("ptrace.corollaries", dict(sys=list(S), dims=d, seed=seed), "partial_trace/corollaries")
                    if N <= 16 and n <= 3 and size <= 2:
                        for var in ("real", "complex", "hermitian"):
                            add("ptrace.cvxpy", dict(sys=list(S), dims=d, var=var, seed=seed, sysform="int" if size == 1 and var == "real" else "list"), "partial_trace/cvxpy")
    # scalar and omitted dimension arguments
    for d in (1, 2, 3, 4, 5, 6):
        for e in (1, 2, 3, 4):
            if d * e < 2 or d * e > maxN:
                continue
            for S in ([0], [1], [0, 1], [1, 0]):
                add("ptrace.index", dict(sys=S, dims=[d, e], sysform="list", dimform="scalar"), "partial_trace/scalar-dim")
            add("ptrace.index", dict(sys=[1], dims=[d, e], sysform="int", dimform="scalar"), "partial_trace/scalar-dim")
            add("ptrace.index", dict(sys=[1], dims=[d, e], sysform="list", dimform="list", sys_omitted=True), "partial_trace/sys-omitted-dim-given")
            for f in (1, 2, 3):
                add("ptrace.index", dict(sys=[1], dims=[d, e, f], sysform="list", dimform="list", sys_omitted=True), "partial_trace/sys-omitted-dim-given")
                add("ptrace.index", dict(sys=[1], dims=[f, d, e, 2], sysform="list", dimform="array", sys_omitted=True), "partial_trace/sys-omitted-dim-given")
    # operators of very small / very large magnitude (the map is linear: nothing may depend on the absolute size of the entries)
    for sc in (1e-17, 1e-12, 1e12):
        for S, dd in (([0], [2, 3]), ([1], [3, 2]), ([0, 2], [2, 2, 2])):
            add("ptrace.index", dict(sys=S, dims=dd, sysform="list", dimform="list", entries="complex", scale=sc), "partial_trace/complex/magnitude-%g" % sc)
    for d in (2, 3, 4, 5, 6, 7):
        add("ptrace.index", dict(sys=[1], dims=[d, d], sysform="list", dimform="omitted", sys_omitted=True), "partial_trace/omitted")
        add("ptrace.index", dict(sys=[0], dims=[d, d], sysform="list", dimform="omitted"), "partial_trace/omitted-dim")
        add("ptrace.index", dict(sys=[1], dims=[d, d], sysform="int", dimform="omitted"), "partial_trace/omitted-dim")
    for S in ([0], [1, 0], [2]):
        add("frame.args", dict(fn="partial_trace", sys=S, rdims=[2, 3, 2], cdims=[2, 3, 2]), "frame/partial_trace")
    for dt in ("int8", "uint8", "int16", "int32", "bool"):
        for d, S in (([2, 3], [1]), ([3, 2, 2], [0, 2]), ([4, 4], [0])):
            add("int_dtype", dict(dtype=dt, dims=d, sys=S), "int_dtype/%s" % dt)
    # many subsystems (the order of the remaining subsystems must be the original one for every n)
    for n in (5, 6, 7, 8, 9, 10):
        for S in ([1, 3], [n - 1, 0], [2], list(range(1, n, 2)), list(range(n - 3)), list(range(n - 4, 1, -1))):
            add("ptrace.index", dict(sys=S, dims=[2] * n, sysform="list", dimform="list", entries="float"), "partial_trace/n=%d" % n)
    return out


# ---------------------------------------------------------------------------------------------
# memory-layout variants: the same values handed over Fortran-ordered and as a non-contiguous strided view
# ---------------------------------------------------------------------------------------------
_cases_c_layout = cases
_LAYOUT_CLAUSES = {"ps.index", "vec.index", "ptrace.index", "ptranspose.index", "realign.index"}


def cases(tier, seed):  # noqa: F811
    base = _cases_c_layout(tier, seed)
    extra = []
    k = 0
    for c in base:
        prm = c.get("params", {})
        if c["clause"] in _LAYOUT_CLAUSES and prm.get("entries", "arange") != "sym" and not prm.get("sparse"):
            k += 1
            if k % (3 if tier == "thorough" else 6) == 0:
                for lay in ("F", "view"):
                    extra.append(dict(c, params=dict(prm, layout=lay), input_class=c["input_class"] + "/layout-" + lay))
    # `sys` / `dim` handed over as lists of numpy integers
    k = 0
    for c in base:
        prm = c.get("params", {})
        if c["clause"] == "ptrace.index" and prm.get("entries", "arange") != "sym" and prm.get("sysform", "list") == "list" and prm.get("dimform", "list") == "list" and not prm.get("sys_omitted"):
            k += 1
            if k % 9 == 0:
                # (tuples / ndarrays for `sys` are rejected with a documented ValueError and a tuple `dim` is outside the documented types: not judged)
                for sf, df in (("npint", "npint"), ("npint", "list"), ("list", "npint")):
                    extra.append(dict(c, params=dict(prm, sysform=sf, dimform=df), input_class=c["input_class"] + "/sys-%s-dim-%s" % (sf, df)))
    return base + extra
