"""C10 -- state discrimination values are certified optima (bounded run-time contracts on the real functions)."""
from __future__ import annotations

ID = "C10"
TITLE = "state discrimination values are certified optima"
LEVEL = "exploration"
BUDGET = {"quick": 80, "thorough": 900}
ENGINES = ["E4-rtc"]
TECHNIQUE = "program contracts of the picos SDP builders and term contracts of the thin wrappers (VCs from the real AST, z3); frame clauses by taint analysis; run-time-checked contracts with weak-duality certificates over a bounded domain (bounded stand-in) for every value"
LEVEL_TEXT = (
    "Bounded only; nothing is proved. Every clause calls the real state_distinguishability / is_distinguishable / to_density_matrix / "
    "vectors_to_gram_matrix on ensembles built from a seed and compares with an oracle that does not re-run the function's SDP: the returned "
    "operators are checked to be a POVM attaining the reported value; the value is bracketed between an exactly feasible POVM and an exactly "
    "dual-feasible operator Y (built from sum_i p_i rho_i M_i, symmetrised, shifted by the identity until Y >= p_i rho_i holds by eigenvalues); closed "
    "forms (Helstrom, 1 for orthogonal sets, Ivanovic-Dieks-Peres and Jaeger-Shimony for two pure states, 0 for linearly dependent sets), explicit "
    "measurements (guess the likeliest state, pretty-good measurement) and metamorphic relations (common unitary, relabelling, representation, primal vs dual). "
    "Holds on the sampled ensembles up to the stated tolerances (1e-5 for cvxopt-backed picos SDPs); a solver breakdown is a sample undecided."
)
RULE = (
    "Deterministic grid over (number of states 2..5) x (dimension 2..4) x {real, complex} x {primal, dual} x every installed SDP solver picos accepts, with the "
    "representation (1-D, column, density matrix) and the prior (explicit uniform, omitted, random, skewed) cycled so that each combination with field and form occurs; "
    "mixed states of every rank class; structured families (orthogonal sets, linearly dependent sets, pairs with prescribed overlap). VERIF_SEED seeds the random "
    "instances; thorough adds more seeds per grid point. non-trivial = at least two distinct states; distinct = distinct (clause, parameters)."
)
EXPLANATION = LEVEL_TEXT
TRUSTED = [
    "numpy.linalg.eigvalsh / eigh on Hermitian matrices of size <= 5 are accurate to 1e-12 (used to check feasibility of every certificate)",
    "weak duality for the min-error discrimination SDP: Tr Y >= sum_i p_i Tr(rho_i M_i) whenever Y >= p_i rho_i for all i and {M_i} is a POVM",
    "weak duality for the unambiguous-discrimination SDP of Eldar (Gram form): p.s <= Tr(Gram Z) for feasible s and Hermitian Z >= 0 with Z_ii >= p_i",
    "closed forms: Helstrom 1/2(1+||p0 rho0 - p1 rho1||_1); Ivanovic-Dieks-Peres 1-|<psi|phi>|; Jaeger-Shimony for two pure states with unequal priors",
    "a harness-side cvxpy/Clarabel solve is used only to propose certificate candidates when the function's own output does not give a tight bracket; every candidate is "
    "made exactly feasible and verified by eigenvalues before use",
    "tolerance 1e-5 on values returned by cvxopt through picos; an exception whose innermost frames are in cvxopt / the picos solver glue is a solver breakdown (undecided)",
    "unambiguous discrimination is only claimed for pure states given as vectors (the documented domain); density-matrix input to strategy='unambiguous' is outside the contract",
]
ASSUMPTIONS = TRUSTED

FN = "state_distinguishability"


# =============================================================================================
# executor side
# =============================================================================================
def _dc():
    from props import disc_common as dc

    return dc


def _run(p, strategy="min_error", soft=True, ens=None, form=None):
    from toqito.state_opt import state_distinguishability

    dc = _dc()
    ens = ens or dc.build(p)
    kw = dict(strategy=strategy, solver=p.get("solver", "cvxopt"), primal_dual=form or p.get("form", "dual"))
    if ens["probs"] is not None:
        kw["probs"] = list(ens["probs"])
    kw.update(p.get("kwargs") or {})  # documented pass-through of picos solve options
    c = dc.call_soft if soft else dc.call
    val, meas = c(state_distinguishability, ens["states"], **kw)
    return ens, dc.fval(val), meas


# ------------------------------------------------------------------------------------------ minimum error
def me_returns_normally(p):
    """admissible ensemble (same dimension, probabilities summing to one) => returns a finite value and n operators"""
    from vt.contract import Violation

    ens, val, meas = _run(p, soft=False)
    if len(meas) != ens["n"]:
        raise Violation("returned %d operators for %d states" % (len(meas), ens["n"]))


def me_povm_valid(p):
    """the returned operators are Hermitian, PSD to tolerance and sum to the identity"""
    from vt.contract import Violation

    dc = _dc()
    ens, val, meas = _run(p)
    ms = dc.ops(meas)
    d = ens["d"]
    if any(m.shape != (d, d) for m in ms) or len(ms) != ens["n"]:
        raise Violation("returned operators have shapes %s for %d states of dimension %d" % ([m.shape for m in ms], ens["n"], d))
    neg, ah, se = dc.povm_defect(ms, d)
    if neg > dc.TOL or ah > dc.TOL or se > dc.TOL:
        raise Violation("returned operators are not a POVM: most negative eigenvalue %.3g, non-Hermitian part %.3g, |sum - I| %.3g" % (-neg, ah, se))


def me_povm_attains(p):
    """the returned measurement attains the reported value: sum_i p_i Tr(rho_i M_i) >= value - tol"""
    from vt.contract import Violation

    dc = _dc()
    ens, val, meas = _run(p)
    ms = dc.ops(meas)
    got = dc.attained(ens["rhos"], ens["pvec"], ms)
    if got < val - dc.TOL:
        alt = dc.attained(ens["rhos"], ens["pvec"], [m.conj() for m in ms])
        raise Violation("reported value %.6f, but the returned operators attain sum_i p_i Tr(rho_i M_i) = %.6f (their complex conjugates attain %.6f)" % (val, got, alt))


def _bracket(p, dc, ens, meas):
    ms = dc.ops(meas)
    return dc.bracket(ens["rhos"], ens["pvec"], [ms, [m.conj() for m in ms]], "max")


def me_value_le_opt(p):
    """no measurement does better: value <= Tr Y + tol for an explicit Y with Y >= p_i rho_i for all i (checked by eigenvalues)"""
    from vt.contract import Undecided, Violation

    dc = _dc()
    ens, val, meas = _run(p)
    lo, hi = _bracket(p, dc, ens, meas)
    if val > hi + dc.TOL:
        raise Violation("reported value %.7f exceeds the trace %.7f of a dual-feasible operator (no POVM can attain it)" % (val, hi))
    if hi - lo > 10 * dc.TOL:
        raise Undecided("certificate bracket [%.6f, %.6f] not tight" % (lo, hi))
    return {"lo": lo, "hi": hi, "val": val}


def me_value_ge_opt(p):
    """the value is not below what an explicit, exactly feasible POVM attains: value >= sum_i p_i Tr(rho_i M_i) - tol"""
    from vt.contract import Undecided, Violation

    dc = _dc()
    ens, val, meas = _run(p)
    lo, hi = _bracket(p, dc, ens, meas)
    if val < lo - dc.TOL:
        raise Violation("reported value %.7f is below the success probability %.7f of an explicit POVM (optimum lies in [%.7f, %.7f])" % (val, lo, lo, hi))
    if hi - lo > 10 * dc.TOL:
        raise Undecided("certificate bracket [%.6f, %.6f] not tight" % (lo, hi))
    return {"lo": lo, "hi": hi, "val": val}


def me_le_one(p):
    """value <= 1"""
    from vt.contract import Violation

    dc = _dc()
    ens, val, meas = _run(p)
    if val > 1 + dc.TOL:
        raise Violation("success probability %.7f > 1" % val)


def me_ge_max_prior(p):
    """value >= max_i p_i (always guessing the likeliest state)"""
    from vt.contract import Violation

    dc = _dc()
    ens, val, meas = _run(p)
    if val < max(ens["pvec"]) - dc.TOL:
        raise Violation("value %.7f < largest prior %.7f" % (val, max(ens["pvec"])))


def me_ge_pgm(p):
    """value >= success probability of the pretty-good measurement"""
    from vt.contract import Undecided, Violation

    dc = _dc()
    ens, val, meas = _run(p)
    ms = dc.pgm(ens["rhos"], ens["pvec"])
    neg, ah, se = dc.povm_defect(ms, ens["d"])
    if neg > 1e-9 or se > 1e-9:
        raise Undecided("harness-side pretty-good measurement not accurate enough (%.1e, %.1e)" % (neg, se))
    pg = dc.attained(ens["rhos"], ens["pvec"], ms)
    if val < pg - dc.TOL:
        raise Violation("value %.7f < pretty-good-measurement success %.7f" % (val, pg))


def me_helstrom_le(p):
    """two states: value <= 1/2 (1 + ||p0 rho0 - p1 rho1||_1)"""
    from vt.contract import Violation

    dc = _dc()
    ens, val, meas = _run(p)
    h = dc.helstrom(ens["rhos"], ens["pvec"])
    if val > h + dc.TOL:
        raise Violation("value %.7f > Helstrom bound %.7f" % (val, h))


def me_helstrom_ge(p):
    """two states: value >= 1/2 (1 + ||p0 rho0 - p1 rho1||_1)"""
    from vt.contract import Violation

    dc = _dc()
    ens, val, meas = _run(p)
    h = dc.helstrom(ens["rhos"], ens["pvec"])
    if val < h - dc.TOL:
        raise Violation("value %.7f < Helstrom bound %.7f" % (val, h))


def me_orthogonal_ge_one(p):
    """mutually orthogonal states (orthogonal supports) are perfectly distinguishable: value >= 1 - tol"""
    from vt.contract import Violation

    dc = _dc()
    ens, val, meas = _run(p)
    if val < 1 - dc.TOL:
        raise Violation("mutually orthogonal states, value %.7f < 1" % val)


def me_unitary_invariance(p):
    """value(U rho_i U*) == value(rho_i) for a common Haar unitary (orthogonal for real ensembles)"""
    import numpy as np

    from vt.contract import Violation

    dc = _dc()
    ens, val, meas = _run(p)
    rng = np.random.default_rng([int(p.get("seed", 0)), 99])
    u = dc.haar(ens["d"], rng, ens["field"])
    ens2 = dc.transformed(ens, u=u, field=ens["field"])
    _, val2, _ = _run(p, ens=ens2)
    if abs(val - val2) > 2 * dc.TOL:
        raise Violation("value %.7f, after a common unitary %.7f" % (val, val2))


def me_relabel_invariance(p):
    """value is invariant under a common permutation of states and priors"""
    import numpy as np

    from vt.contract import Violation

    dc = _dc()
    ens, val, meas = _run(p)
    rng = np.random.default_rng([int(p.get("seed", 0)), 98])
    perm = list(rng.permutation(ens["n"]))
    if perm == sorted(perm):
        perm = perm[1:] + perm[:1]
    ens2 = dc.transformed(ens, perm=[int(i) for i in perm], field=ens["field"])
    _, val2, _ = _run(p, ens=ens2)
    if abs(val - val2) > 2 * dc.TOL:
        raise Violation("value %.7f, after relabelling %s: %.7f" % (val, perm, val2))


def me_primal_eq_dual(p):
    """primal and dual formulations report the same value"""
    from vt.contract import Violation

    dc = _dc()
    ens, v1, _ = _run(p, form="primal")
    _, v2, _ = _run(p, ens=ens, form="dual")
    if abs(v1 - v2) > 2 * dc.TOL:
        raise Violation("primal %.7f != dual %.7f" % (v1, v2))


def me_representation_invariance(p):
    """1-D vectors, column vectors and density matrices of the same pure states give the same value"""
    from vt.contract import Violation

    dc = _dc()
    ens = dc.build(p)
    vals = {}
    for rep in ("1d", "col", "dm"):
        e2 = dc.transformed(ens, field=ens["field"], rep=rep)
        vals[rep] = _run(p, ens=e2)[1]
    if max(vals.values()) - min(vals.values()) > 2 * dc.TOL:
        raise Violation("value depends on the representation: %s" % vals)


# ------------------------------------------------------------------------------------------ unambiguous
def _gram(kets):
    import numpy as np

    return np.array([[np.vdot(a, b) for b in kets] for a in kets])


def _ua_run(p, soft=True, ens=None, form=None):
    return _run(p, strategy="unambiguous", soft=soft, ens=ens, form=form)


def ua_returns_normally(p):
    """pure states given as vectors, any prior => returns a finite value"""
    _ua_run(p, soft=False)


def ua_range(p):
    """0 <= value <= 1"""
    from vt.contract import Violation

    dc = _dc()
    ens, val, _ = _ua_run(p)
    if val < -dc.TOL or val > 1 + dc.TOL:
        raise Violation("unambiguous success probability %.7f outside [0,1]" % val)


def ua_le_min_error(p):
    """unambiguous value <= minimum-error value (bounded by the trace of an explicit dual-feasible operator of the min-error problem)"""
    from vt.contract import Violation

    dc = _dc()
    ens, val, _ = _ua_run(p)
    lo, hi = dc.bracket(ens["rhos"], ens["pvec"], [], "max")
    if val > hi + dc.TOL:
        raise Violation("unambiguous value %.7f exceeds a certified upper bound %.7f on the minimum-error optimum" % (val, hi))
    _, me, _ = _run(p, ens=ens, form="dual")
    if val > me + 2 * dc.TOL:
        raise Violation("unambiguous value %.7f > reported minimum-error value %.7f" % (val, me))


def ua_lindep_zero(p):
    """every state in the span of the others => no state can be identified unambiguously: value <= tol"""
    from vt.contract import Violation

    dc = _dc()
    ens, val, _ = _ua_run(p)
    if val > dc.TOL:
        raise Violation("linearly dependent pure states (each in the span of the others), unambiguous value %.7f > 0" % val)


def _two_pure(ens):
    import numpy as np

    c = abs(np.vdot(ens["kets"][0], ens["kets"][1]))
    p1, p2 = sorted(float(x) for x in ens["pvec"])
    if np.sqrt(p1 / p2) >= c:  # Jaeger-Shimony; equal priors: Ivanovic-Dieks-Peres 1 - c
        return 1 - 2 * np.sqrt(p1 * p2) * c
    return p2 * (1 - c * c)


def ua_two_pure_le(p):
    """two pure states: value <= 1 - |<psi|phi>| (equal priors); Jaeger-Shimony for unequal priors"""
    from vt.contract import Violation

    dc = _dc()
    ens, val, _ = _ua_run(p)
    exp = _two_pure(ens)
    if val > exp + dc.TOL:
        raise Violation("two pure states, priors %s: value %.7f > closed form %.7f" % ([round(float(x), 4) for x in ens["pvec"]], val, exp))


def ua_two_pure_ge(p):
    """two pure states: value >= 1 - |<psi|phi>| (equal priors); Jaeger-Shimony for unequal priors"""
    from vt.contract import Violation

    dc = _dc()
    ens, val, _ = _ua_run(p)
    exp = _two_pure(ens)
    if val < exp - dc.TOL:
        raise Violation("two pure states, priors %s: value %.7f < closed form %.7f" % ([round(float(x), 4) for x in ens["pvec"]], val, exp))


def ua_primal_eq_dual(p):
    """primal and dual formulations of the unambiguous problem report the same value"""
    from vt.contract import Violation

    dc = _dc()
    ens, v1, _ = _ua_run(p, form="primal")
    _, v2, _ = _ua_run(p, ens=ens, form="dual")
    if abs(v1 - v2) > 2 * dc.TOL:
        raise Violation("unambiguous primal %.7f != dual %.7f" % (v1, v2))


def _ua_bracket(dc, ens):
    """rigorous [lo, hi] for the Gram-form unambiguous SDP from harness-side candidates made exactly feasible"""
    import cvxpy as cp
    import numpy as np

    from vt.contract import Undecided

    g = dc.herm(_gram(ens["kets"]))
    n = ens["n"]
    pv = ens["pvec"]
    s = cp.Variable(n, nonneg=True)
    con = g - cp.diag(s) >> 0
    prob = cp.Problem(cp.Maximize(pv @ s), [con])
    try:
        prob.solve(solver=cp.CLARABEL)
    except Exception as e:  # noqa: BLE001
        raise Undecided("harness candidate solve failed: %s" % type(e).__name__)
    if s.value is None:
        raise Undecided("harness candidate solve returned nothing")
    s0 = np.clip(np.array(s.value, dtype=float), 0, None)
    # largest t in [0,1] with G - t diag(s0) >= 0 (t = 0 is feasible because G >= 0)
    a, b = 0.0, 1.0
    if dc.lam_min(g - np.diag(s0)) >= 0:
        a = 1.0
    else:
        for _ in range(50):
            m = (a + b) / 2
            if dc.lam_min(g - np.diag(m * s0)) >= 0:
                a = m
            else:
                b = m
    lo = float(pv @ (a * s0)) if dc.lam_min(g - np.diag(a * s0)) >= -1e-13 else 0.0
    zv = cp.Variable((n, n), hermitian=True)
    prob2 = cp.Problem(cp.Minimize(cp.real(cp.trace(g @ zv))), [zv >> 0, cp.real(cp.diag(zv)) >= pv])
    try:
        prob2.solve(solver=cp.CLARABEL)
    except Exception as e:  # noqa: BLE001
        raise Undecided("harness candidate solve failed: %s" % type(e).__name__)
    if zv.value is None:
        raise Undecided("harness candidate solve returned nothing")
    his = []
    for z0 in (np.array(zv.value, dtype=complex), np.array(zv.value, dtype=complex).conj()):
        z = dc.psd_part(z0)
        z = z + np.diag(np.clip(pv - np.diag(z).real, 0, None) * (1 + 1e-9))
        if dc.lam_min(z) < -1e-13 or np.any(np.diag(z).real < pv - 1e-15):
            raise Undecided("harness-side dual candidate could not be made feasible")
        his.append(float(np.trace(g @ z).real) + 1e-12)
    return lo, min(his)


def ua_value_le_opt(p):
    """value <= Tr(Gram Z) + tol for an explicit Hermitian Z >= 0 with Z_ii >= p_i"""
    from vt.contract import Undecided, Violation

    dc = _dc()
    ens, val, _ = _ua_run(p)
    lo, hi = _ua_bracket(dc, ens)
    if val > hi + dc.TOL:
        raise Violation("unambiguous value %.7f exceeds Tr(Gram Z) = %.7f of an explicit dual-feasible Z (optimum in [%.7f, %.7f])" % (val, hi, lo, hi))
    if hi - lo > 10 * dc.TOL:
        raise Undecided("bracket [%.6f, %.6f] not tight" % (lo, hi))


def ua_value_ge_opt(p):
    """value >= p.s - tol for an explicit feasible s (s >= 0, Gram - diag(s) >= 0)"""
    from vt.contract import Undecided, Violation

    dc = _dc()
    ens, val, _ = _ua_run(p)
    lo, hi = _ua_bracket(dc, ens)
    if val < lo - dc.TOL:
        raise Violation("unambiguous value %.7f is below p.s = %.7f of an explicit feasible point (optimum in [%.7f, %.7f])" % (val, lo, lo, hi))
    if hi - lo > 10 * dc.TOL:
        raise Undecided("bracket [%.6f, %.6f] not tight" % (lo, hi))


# ------------------------------------------------------------------------------------------ is_distinguishable
def _isd(p):
    from toqito.state_props import is_distinguishable

    dc = _dc()
    ens = dc.build(p)
    kw = {}
    if ens["probs"] is not None:
        kw["probs"] = list(ens["probs"])
    r = dc.call(is_distinguishable, ens["states"], **kw)
    return ens, r


def isd_true_on_orthogonal(p):
    """mutually orthogonal states => True"""
    from vt.contract import Violation

    ens, r = _isd(p)
    if not bool(r):
        raise Violation("is_distinguishable returned %r on mutually orthogonal states" % (r,))


def isd_false_on_overlapping(p):
    """two of the states overlap, so that every measurement errs with probability >= 1e-3 => False"""
    from vt.contract import Undecided, Violation

    dc = _dc()
    ens, r = _isd(p)
    rh, pv = ens["rhos"], ens["pvec"]
    err = 0.0
    for i in range(ens["n"]):
        for j in range(i + 1, ens["n"]):
            err = max(err, 0.5 * (pv[i] + pv[j] - dc.trace_norm_h(pv[i] * rh[i] - pv[j] * rh[j])))
    if err < 1e-3:
        raise Undecided("pairwise error bound %.2e below the margin" % err)
    if bool(r):
        raise Violation("is_distinguishable returned %r although two states overlap (every measurement errs with probability >= %.4f)" % (r, err))


# ------------------------------------------------------------------------------------------ helpers under contract
def tdm_spec(p):
    """to_density_matrix: |v><v| for 1-D, column and row vectors; a square matrix is returned unchanged"""
    import numpy as np

    from toqito.matrix_ops import to_density_matrix
    from vt.contract import Violation

    dc = _dc()
    rng = np.random.default_rng([int(p.get("seed", 0)), 5])
    d, field, shape = int(p["d"]), p["field"], p["shape"]
    if shape == "square":
        if d == 1:
            return  # a 1x1 array is also a vector of length one: not judged
        a = rng.standard_normal((d, d)) + (1j * rng.standard_normal((d, d)) if field == "complex" else 0)
        got = to_density_matrix(a)
        if got.shape != (d, d) or not np.array_equal(got, a):
            raise Violation("square input is not returned unchanged")
        return
    v = dc.rand_ket(d, rng, field)
    if field == "real":
        v = v.real
    arg = {"1d": v, "col": v.reshape(-1, 1), "row": v.reshape(1, -1)}[shape]
    got = np.asarray(to_density_matrix(arg))
    exp = np.array([[v[i] * np.conj(v[j]) for j in range(d)] for i in range(d)])
    if got.shape != (d, d) or np.abs(got - exp).max() > 1e-12:
        raise Violation("to_density_matrix(%s vector) is not |v><v| (max deviation %.3g)" % (shape, np.abs(got - exp).max() if got.shape == exp.shape else -1))


def gram_spec(p):
    """vectors_to_gram_matrix: G[i, j] = <v_i|v_j> for 1-D and column vectors"""
    import numpy as np

    from toqito.matrix_ops import vectors_to_gram_matrix
    from vt.contract import Violation

    dc = _dc()
    rng = np.random.default_rng([int(p.get("seed", 0)), 6])
    n, d, field, shape = int(p["n"]), int(p["d"]), p["field"], p["shape"]
    vs = [dc.rand_ket(d, rng, field) * rng.uniform(0.5, 2.0) for _ in range(n)]
    if field == "real":
        vs = [v.real for v in vs]
    arg = [v if shape == "1d" else v.reshape(-1, 1) for v in vs]
    got = np.asarray(vectors_to_gram_matrix(arg))
    exp = np.array([[sum(np.conj(a[k]) * b[k] for k in range(d)) for b in vs] for a in vs])
    if got.shape != (n, n) or np.abs(got - exp).max() > 1e-12:
        raise Violation("Gram matrix differs from <v_i|v_j> (shape %s, max deviation %.3g)" % (got.shape, np.abs(got - exp).max() if got.shape == exp.shape else -1))


CLAUSES = {
    "me.returns_normally": me_returns_normally,
    "me.povm_valid": me_povm_valid,
    "me.povm_attains": me_povm_attains,
    "me.value_le_opt": me_value_le_opt,
    "me.value_ge_opt": me_value_ge_opt,
    "me.le_one": me_le_one,
    "me.ge_max_prior": me_ge_max_prior,
    "me.ge_pgm": me_ge_pgm,
    "me.helstrom_le": me_helstrom_le,
    "me.helstrom_ge": me_helstrom_ge,
    "me.orthogonal_ge_one": me_orthogonal_ge_one,
    "me.unitary_invariance": me_unitary_invariance,
    "me.relabel_invariance": me_relabel_invariance,
    "me.primal_eq_dual": me_primal_eq_dual,
    "me.representation_invariance": me_representation_invariance,
    "ua.returns_normally": ua_returns_normally,
    "ua.range": ua_range,
    "ua.le_min_error": ua_le_min_error,
    "ua.lindep_zero": ua_lindep_zero,
    "ua.two_pure_le": ua_two_pure_le,
    "ua.two_pure_ge": ua_two_pure_ge,
    "ua.primal_eq_dual": ua_primal_eq_dual,
    "ua.value_le_opt": ua_value_le_opt,
    "ua.value_ge_opt": ua_value_ge_opt,
    "isd.true_on_orthogonal": isd_true_on_orthogonal,
    "isd.false_on_overlapping": isd_false_on_overlapping,
    "tdm.spec": tdm_spec,
    "gram.spec": gram_spec,
}
for _k, _f in CLAUSES.items():
    _f.function = {"me": FN, "ua": FN, "isd": "is_distinguishable", "tdm": "to_density_matrix", "gram": "vectors_to_gram_matrix"}[_k.split(".")[0]]
    _f.limit = 25

ME_GENERIC = ["me.returns_normally", "me.povm_valid", "me.povm_attains", "me.value_le_opt", "me.value_ge_opt", "me.le_one", "me.ge_max_prior", "me.ge_pgm"]
UA_GENERIC = ["ua.returns_normally", "ua.range", "ua.le_min_error", "ua.value_le_opt", "ua.value_ge_opt"]


def cases(tier, seed):
    from props.disc_common import pick, sdp_solvers

    thorough = tier == "thorough"
    seeds = [seed + 1000 * k for k in range(6 if thorough else 1)]
    solvers = sdp_solvers()
    out = []

    def add(clause, params, ic, nontrivial=True):
        out.append(dict(clause=clause, params=params, input_class=ic, nontrivial=nontrivial))

    def icl(strategy, form, field, kind, solver):
        s = "%s/%s/%s/%s" % (strategy, form, field, kind)
        return s if solver == "cvxopt" else s + "/" + solver

    reps = ["1d", "col", "dm"]
    priors = ["uniform", "omitted", "random", "skewed"]
    nd = [(n, d) for n in (2, 3, 4, 5) for d in (2, 3, 4)]
    forms = ["primal", "dual"]
    fields = ["real", "complex"]
    for solver in solvers:
        for sd in seeds:
            i = 0
            # ---- minimum error, pure states in all representations, mixed states of several ranks
            for (n, d) in nd:
                for field in fields:
                    for form in forms:
                        # the primal form on 2 or 3 states is slow in cvxopt (0.3-6 s per solve) and, for d = 4, always ends in a
                        # solver breakdown: sampled sparsely in the quick tier
                        slow = form == "primal" and n <= 3
                        clauses = ME_GENERIC if thorough or not (slow and d == 4) else ["me.returns_normally"]
                        for k in range(3):
                            i += 1
                            if slow and k > 0 and not thorough:
                                continue
                            rep = pick(reps, i, k)
                            pr = pick(priors, i, k)
                            base = dict(n=n, d=d, field=field, form=form, solver=solver, rep=rep, prior=pr, kind="pure", seed=sd + i, phases=True)
                            for cl in clauses:
                                add(cl, base, icl("min_error", form, field, "vec" if rep != "dm" else "dm", solver))
                        for k, rank in enumerate((0, 1 if d > 2 else 0, 2 if d > 2 else 0)):
                            i += 1
                            if slow and k > 0 and not thorough:
                                continue
                            base = dict(n=n, d=d, field=field, form=form, solver=solver, prior=pick(priors, i), kind="mixed", rank=rank, seed=sd + i)
                            for cl in (clauses if thorough or not slow else clauses[:1] + clauses[2:5]):
                                add(cl, base, icl("min_error", form, field, "dm", solver))
            # ---- one ensemble, several vector layouts (1-D, column and row kets mixed)
            if sd == seeds[0]:
                for field in fields:
                    for n, d in ((2, 2), (3, 2), (3, 3), (4, 3)):
                        i += 1
                        base = dict(n=n, d=d, field=field, form="dual", solver=solver, rep="mixed-layout", prior=pick(["uniform", "random"], i), kind="pure", seed=sd + i, phases=True)
                        for cl in ME_GENERIC:
                            add(cl, base, icl("min_error", "dual", field, "mixed-vector-layouts", solver))
            # ---- density matrices stored Fortran-ordered
            if sd == seeds[0]:
                for field in fields:
                    for n, d in ((2, 2), (3, 3)):
                        i += 1
                        base = dict(n=n, d=d, field=field, form="dual", solver=solver, rep="dm-F", prior=pick(["uniform", "random"], i), kind="pure", seed=sd + i, phases=True)
                        for cl in ME_GENERIC:
                            add(cl, base, icl("min_error", "dual", field, "fortran-ordered-dm", solver))
            # ---- (1, d) row vectors (accepted by to_density_matrix like columns)
            if sd == seeds[0]:
                for field in fields:
                    for n, d in ((2, 2), (3, 2), (3, 3)):
                        i += 1
                        base = dict(n=n, d=d, field=field, form="dual", solver=solver, rep="row", prior=pick(["uniform", "random"], i), kind="pure", seed=sd + i, phases=True)
                        for cl in ME_GENERIC:
                            add(cl, base, icl("min_error", "dual", field, "row-vectors", solver))
            # ---- one list, three numpy dtypes (an integer basis ket first, then a real, then complex states), as a user would type it in
            for form in forms:
                for n, d in ((2, 2), (3, 2), (3, 3), (4, 3)):
                    for rep in reps:
                        i += 1
                        base = dict(n=n, d=d, field="complex", form=form, solver=solver, rep=rep, prior=pick(["uniform", "random"], i), kind="mixed-dtype", seed=sd + i)
                        for cl in ME_GENERIC + ["me.relabel_invariance"]:
                            add(cl, base, icl("min_error", form, "complex", "mixed-dtype-list", solver))
            # ---- a state that is never prepared (exact zero prior, not in the last position): value and *labelled* operators still certified
            for field in fields:
                for form in forms:
                    for n, d in ((3, 2), (3, 3), (4, 3)):
                        for pk in ("zero-first", "zero-middle"):
                            i += 1
                            base = dict(n=n, d=d, field=field, form=form, solver=solver, rep=pick(reps, i), prior=pk, kind="pure", seed=sd + i, phases=True)
                            for cl in ME_GENERIC:
                                add(cl, base, icl("min_error", form, field, "zero-prior", solver))
            # ---- two states: Helstrom (pure pairs with prescribed overlap, mixed pairs)
            for field in fields:
                for form in forms:
                    for d in (2, 3, 4):
                        for j, ov in enumerate((0.0, 0.2, 0.6, 0.9, 0.999)):
                            i += 1
                            if form == "primal" and not thorough and (d == 4 or j % 2 == 0):
                                continue  # primal on two states: slow, breaks down inside cvxopt for d = 4
                            base = dict(kind="pair", overlap=ov, d=d, field=field, form=form, solver=solver, rep=pick(reps, i), prior=pick(priors, i, j), seed=sd + i)
                            add("me.helstrom_le", base, icl("min_error", form, field, "pair", solver))
                            add("me.helstrom_ge", base, icl("min_error", form, field, "pair", solver))
                        for rank in (0, 1):
                            i += 1
                            if form == "primal" and not thorough and (d == 4 or rank == 1):
                                continue
                            base = dict(kind="mixed", n=2, d=d, rank=rank, field=field, form=form, solver=solver, prior=pick(priors, i), seed=sd + i)
                            add("me.helstrom_le", base, icl("min_error", form, field, "mixed-pair", solver))
                            add("me.helstrom_ge", base, icl("min_error", form, field, "mixed-pair", solver))
            # ---- orthogonal sets
            for field in fields:
                for form in forms:
                    for d in (2, 3, 4):
                        for n in range(2, d + 1):
                            i += 1
                            if form == "primal" and not thorough and d == 4 and n <= 3:
                                continue
                            base = dict(kind="orthogonal", n=n, d=d, field=field, form=form, solver=solver, rep=pick(reps, i), prior=pick(priors, i), seed=sd + i)
                            add("me.orthogonal_ge_one", base, icl("min_error", form, field, "orthogonal", solver))
                            add("me.le_one", base, icl("min_error", form, field, "orthogonal", solver))
                            add("me.povm_attains", base, icl("min_error", form, field, "orthogonal", solver))
                            if d >= 3 and n < d:
                                base = dict(kind="orthogonal-mixed", n=n, d=d, field=field, form=form, solver=solver, prior=pick(priors, i, 1), seed=sd + i)
                                add("me.orthogonal_ge_one", base, icl("min_error", form, field, "orthogonal-mixed", solver))
            # ---- metamorphic relations
            for (n, d) in nd:
                for field in fields:
                    for form in forms:
                        i += 1
                        if form == "primal" and not thorough and n <= 3 and (n, d) != (2, 3):
                            continue
                        kind = pick(["pure", "pure", "mixed"], i)
                        base = dict(n=n, d=d, field=field, form=form, solver=solver, rep=pick(reps, i), prior=pick(priors, i), kind=kind, seed=sd + i, phases=True)
                        add("me.unitary_invariance", base, icl("min_error", form, field, "any", solver))
                        add("me.relabel_invariance", base, icl("min_error", form, field, "any", solver))
                    i += 1
                    base = dict(n=n, d=d, field=field, solver=solver, rep=pick(reps, i), prior=pick(priors, i), kind=pick(["pure", "pure", "mixed"], i), seed=sd + i, phases=True)
                    if thorough or n >= 4 or (n, d) == (2, 3):
                        add("me.primal_eq_dual", base, icl("min_error", "both", field, "any", solver))
                    base = dict(n=n, d=d, field=field, form=pick(forms, i), solver=solver, prior=pick(priors, i), kind="pure", seed=sd + i, phases=True)
                    add("me.representation_invariance", base, icl("min_error", pick(forms, i), field, "vec", solver))
            # ---- unambiguous (pure states, vectors)
            for (n, d) in nd:
                for field in fields:
                    for form in forms:
                        i += 1
                        rep = pick(reps[:2], i)
                        lin = n > d
                        base = dict(n=n, d=d, field=field, form=form, solver=solver, rep=rep, prior=pick(priors, i), kind="pure", seed=sd + i, phases=True)
                        for cl in UA_GENERIC:
                            add(cl, base, icl("unambiguous", form, field, "lindep" if lin else "independent", solver))
                        i += 1
                        base = dict(n=n, d=d, field=field, form=form, solver=solver, rep=pick(reps[:2], i), prior=pick(priors, i), kind="lindep", seed=sd + i, phases=True)
                        add("ua.lindep_zero", base, icl("unambiguous", form, field, "lindep", solver))
                        add("ua.returns_normally", base, icl("unambiguous", form, field, "lindep", solver))
                    i += 1
                    base = dict(n=n, d=d, field=field, solver=solver, rep=pick(reps[:2], i), prior=pick(priors, i), kind="pure", seed=sd + i, phases=True)
                    add("ua.primal_eq_dual", base, icl("unambiguous", "both", field, "lindep" if n > d else "independent", solver))
            for field in fields:
                for form in forms:
                    for d in (2, 3, 4):
                        for j, ov in enumerate((0.0, 0.1, 0.5, 0.7071067811865476, 0.95)):
                            for pr in ("uniform", "omitted", "random", "skewed"):
                                i += 1
                                base = dict(kind="pair", overlap=ov, d=d, field=field, form=form, solver=solver, rep=pick(reps[:2], i), prior=pr, seed=sd + i)
                                kind = "pair-equiprobable" if pr in ("uniform", "omitted") else "pair-unequal-priors"
                                add("ua.two_pure_le", base, icl("unambiguous", form, field, kind, solver))
                                add("ua.two_pure_ge", base, icl("unambiguous", form, field, kind, solver))
    # ---- is_distinguishable (default solver, dual form inside)
    for sd in seeds:
        i = 0
        for field in fields:
            for d in (2, 3, 4):
                for n in range(2, d + 1):
                    i += 1
                    add("isd.true_on_orthogonal", dict(kind="orthogonal", n=n, d=d, field=field, rep=pick(reps, i), prior=pick(priors, i), seed=sd + i), "is_distinguishable/orthogonal/" + field)
                for n in (2, 3, 4):
                    i += 1
                    add("isd.false_on_overlapping", dict(kind="pure", n=n, d=d, field=field, rep=pick(reps, i), prior=pick(priors, i), seed=sd + i), "is_distinguishable/overlapping/" + field)
                for ov in (0.1, 0.5):
                    i += 1
                    add("isd.false_on_overlapping", dict(kind="pair", overlap=ov, d=d, field=field, rep=pick(reps, i), prior=pick(priors, i), seed=sd + i), "is_distinguishable/overlapping/" + field)
            add("isd.true_on_orthogonal", dict(kind="named:bell", field=field, rep=pick(reps, i), prior="omitted", rotate=(field == "complex"), seed=sd), "is_distinguishable/orthogonal/" + field)
            if sd == seeds[0]:
                for rp in ("row", "mixed-layout"):  # row kets, and one ensemble mixing 1-D / column / row kets
                    for d in (2, 3):
                        i += 1
                        add("isd.true_on_orthogonal", dict(kind="orthogonal", n=d, d=d, field=field, rep=rp, prior=pick(priors, i), seed=sd + i), "is_distinguishable/orthogonal-%s/%s" % (rp, field))
                        add("isd.false_on_overlapping", dict(kind="pure", n=d, d=d, field=field, rep=rp, prior=pick(priors, i), seed=sd + i), "is_distinguishable/overlapping-%s/%s" % (rp, field))
                add("isd.true_on_orthogonal", dict(kind="orthogonal", n=3, d=3, field=field, rep="1d", prior="zero-middle", seed=sd + 5), "is_distinguishable/orthogonal-zero-prior/" + field)
        # ---- helper functions under contract
        for field in fields:
            for d in (1, 2, 3, 4):
                for shape in ("1d", "col", "row", "square"):
                    add("tdm.spec", dict(d=d, field=field, shape=shape, seed=sd), "to_density_matrix/" + shape, d > 1)
                for n in (1, 2, 3, 5):
                    for shape in ("1d", "col"):
                        add("gram.spec", dict(n=n, d=d, field=field, shape=shape, seed=sd), "vectors_to_gram_matrix/" + shape + "/" + field, n > 1 and d > 1)
    return out


# =============================================================================================
# deductive part (E1-term): the thin wrappers are the stated functions of the SDP value
# =============================================================================================
from props.disc_prove import prove_for as _prove_for  # noqa: E402

prove = _prove_for(ID)
LEVEL_TEXT = LEVEL_TEXT + (" Proved (E1-term, callees by parameter name): is_distinguishable(states, probs) == isclose(dual min-error value for the same states and priors, 1). The SDP values themselves are bounded checks.")
LEVEL_TEXT = LEVEL_TEXT + (" Proved (E1-prog, 2 and 3 states, all dimensions and priors): each of the four builders of state_distinguishability hands the solver exactly the stated program (min-error primal: max sum_i p_i <rho_i, M_i> s.t. M_i >= 0, sum M_i = I; dual: min Tr Y s.t. Y >= p_i rho_i with the measurement read from the duals in that order; unambiguous primal / dual over the Gram matrix), solves it once with the caller's solver and returns its optimum; the entry point dispatches by (strategy, primal_dual) with probs or the uniform prior and dim = calculate_vector_matrix_dimension(vectors[0]).")
TRUSTED.append("E1-prog (program contracts): matrices and picos variables are uninterpreted terms; picos semantics assumed: A >> B / A << B are the Loewner-order constraints, A | B the Hilbert-Schmidt inner product, * the matrix product, picos.sum / trace / I / diag / partial_transpose what their names say, .real / np.real of a real affine expression the identity; linearity facts used as z3 axioms: <sA,B> = <A,sB> = s<A,B>, (sA)B = s(AB), Tr(sA) = s Tr(A), Tr(AB) = <A,B> for Hermitian A (to_density_matrix(.) and its real multiples and sums); the solver returns the optimum of the program it is handed (certified only on the bounded tier); number of states enumerated (2, 3; 4 thorough)")
EXPLANATION = LEVEL_TEXT
if "E1-pyvc" not in ENGINES:
    ENGINES = ["E1-pyvc"] + list(ENGINES)

# =============================================================================================
# frame coverage shared by all properties (E2 obligations for every public function of the anchor files + run-time frame cases)
# =============================================================================================
from props import frame_all as _fa  # noqa: E402
from props.frame_common import frame_generic as _fg, frame_object as _fo  # noqa: E402

CLAUSES.setdefault("frame.generic", _fg)
CLAUSES.setdefault("frame.object", _fo)
_cases_before_frames = cases
_prove_before_frames = globals().get("prove")


def cases(tier, seed):  # noqa: F811
    return _cases_before_frames(tier, seed) + _fa.frame_cases(ID, seed)


def prove(tier, seed):  # noqa: F811
    from vt.pyvc.termproofs import merge

    b = _fa.prove_frames(ID, lambda s: _fa.frame_cases(ID, s))(tier, seed)
    if _prove_before_frames is None:
        return b
    return merge(_prove_before_frames(tier, seed), b)

if LEVEL == "exploration":
    LEVEL = "other"
LEVEL_TEXT = LEVEL_TEXT + (" Additionally proved (E2, taint analysis of the real AST): every public function and method in this property's anchor files writes through "
                           "no reference reachable from its arguments (or from self), so results do not depend on call order and callers' arrays / lists are not modified; "
                           "a run-time frame clause replays the same claim on concrete arguments.")
EXPLANATION = LEVEL_TEXT
if "E2-frame" not in globals().get("ENGINES", []):
    ENGINES = list(globals().get("ENGINES", ["E3-E4-rtc"])) + ["E2-frame"]
