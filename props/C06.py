"""C06 -- channel predicates decide by definition; built-in channels are what they claim."""
from __future__ import annotations

import itertools
import zlib

ID = "C06"
TITLE = "channel predicates decide by definition; built-in channels are what they claim"
LEVEL = "exploration"
BUDGET = {"quick": 80, "thorough": 900}
ENGINES = ["E3-E4-rtc"]
TECHNIQUE = (
    "run-time-checked contracts on the real functions over a bounded domain (bounded stand-in): every predicate is asked about maps whose property is known by "
    "construction and re-derived by an independent reference computation with a margin, in every representation form; every built-in constructor is compared with its closed formula"
)
LEVEL_TEXT = (
    "Bounded, numeric. Nothing is proved: every predicate is an eigenvalue / rank / allclose test on floats. For maps built with ground truth (Stinespring isometries, Haar unitaries, "
    "mixed-unitary maps, adjoints of channels, scaled and shifted perturbations by a margin >= 1e-2, differences of channels, non-Hermiticity-preserving pairs, non-positivity certificates, "
    "redundant Kraus lists) in flat / nested / paired / Choi form, (d_in, d_out) in {2,3}^2 and (1,2), (2,1) (4 and (1,1) in the thorough tier), real and complex, the verdict of each of the nine predicates must equal the verdict "
    "derived from the definition on the reference Choi matrix, whenever that verdict holds by a margin >= 10x the predicate's tolerance. Built-in channels: action on random operators against the closed "
    "formula through the reference reading, apply_channel, direct application and Kraus->Choi; textbook properties; rejection 1e-3 outside documented parameter ranges."
)
RULE = (
    "deterministic grid: construction x (d_in, d_out) x rank x representation form x predicate x {real, complex}, plus seeded instances; the direction of each clause (accepts / rejects) is fixed at case-generation "
    "time from the reference verdict and re-checked inside the clause (a case whose margin is not met is 'undecided', never a violation). Built-in channels: parameter grids incl. end points and +-1e-3 outside, "
    "dimensions 1..4, random complex operators. non-trivial = dimensions not all 1; distinct = distinct (clause, parameters)."
)
EXPLANATION = LEVEL_TEXT
TRUSTED = [
    "ground truth is derived from the reference Choi matrix (props/chan_util.ref_choi) with numpy eigvalsh / svd; a verdict is only used when it holds by a margin (defect <= 1e-10 for 'holds', >= 1e-2 for 'fails'; rank gaps 1e-3 / 1e-11)",
    "unitary channel <=> completely positive, trace preserving, Choi rank 1, equal dimensions; extremal <=> {K_i^dagger K_j} linearly independent for a minimal (linearly independent) Kraus family (Watrous Thm 2.31), evaluated on the eigen-decomposition of the reference Choi matrix",
    "non-positivity is certified by a product vector x (x) y with <x(x)y| J |x(x)y> <= -1e-2 (or by non-Hermiticity-preservation); positivity of non-CP maps is never asserted",
    "predicates are called with their default tolerances (rtol 1e-5, atol 1e-8); matrix_rank with its default tolerance",
    "textbook formulas of the built-in channels are taken from the docstrings in /repo/toqito/channels (Kraus operators / Choi matrices given there) and written out as closed forms of the output entries",
    "a Choi matrix of a map with unequal dimensions is only passed to predicates that take a dim argument (is_trace_preserving, is_unital) or document the case (is_unitary)",
    "pauli_channel returns numpy.matrix; reference comparisons use np.asarray of it (the return type itself is checked in the clause pauli_channel.predicates)",
]
ASSUMPTIONS = TRUSTED

HOLD = 1e-10
FAIL = 1e-2


# =============================================================================================
# executor side: constructions with ground truth
# =============================================================================================
def _crc(s):
    return zlib.crc32(s.encode())


def _unvec(v, din, dout):
    """inverse of the Choi vectorisation: v[i*dout + a] = K[a, i]"""
    import numpy as np

    return np.asarray(v).reshape(din, dout).T.copy()


def _pairs_from_choi(J, din, dout):
    """left/right Kraus pairs of an arbitrary Choi matrix from numpy's SVD (construction side only)"""
    import numpy as np

    u, s, vh = np.linalg.svd(J)
    A, B = [], []
    for k in range(len(s)):
        if s[k] > 1e-13 * max(1.0, s[0]):
            A.append(np.sqrt(s[k]) * _unvec(u[:, k], din, dout))
            B.append(np.sqrt(s[k]) * _unvec(vh[k].conj(), din, dout))
    return A, B


CP_CONS = ("stinespring", "unitary", "isometry", "mixed-unitary", "unital-cp", "cp-generic", "tp-scaled", "unital-scaled", "redundant-unitary", "redundant-split", "zero-padded")
NONCP_CONS = ("cptp-minus", "non-hp", "hp-perturbed", "diag-imag", "cp-shifted", "witness", "transpose", "phase-pair", "similarity", "scaled-unitary-pair")


def _construct(p):
    """(A, B) numeric left/right families of the named construction; A is B for completely positive families"""
    import numpy as np

    from props import chan_util as U

    cons, din, dout, r = p["cons"], int(p["din"]), int(p["dout"]), int(p["r"])
    field = p.get("field", "complex")
    rng = np.random.default_rng([p.get("seed", 0), _crc(cons), din, dout, r])
    if cons == "stinespring":
        K = U.stinespring(rng, din, dout, r, field)
        return K, K
    if cons == "unitary":
        K = [U.haar(rng, din, field)]
        return K, K
    if cons == "isometry":
        K = U.stinespring(rng, din, dout, 1, field)
        return K, K
    if cons == "mixed-unitary":
        w = rng.random(r) + 0.2
        w /= w.sum()
        K = [np.sqrt(w[i]) * U.haar(rng, din, field) for i in range(r)]
        return K, K
    if cons == "unital-cp":
        K = [k.conj().T for k in U.stinespring(rng, dout, din, r, field)]
        return K, K
    if cons == "cp-generic":
        K = [U.rnd(rng, (dout, din), field) / np.sqrt(din) for _ in range(r)]
        return K, K
    if cons == "tp-scaled":
        K = [1.02 * k for k in U.stinespring(rng, din, dout, r, field)]
        return K, K
    if cons == "unital-scaled":
        K = [0.97 * k.conj().T for k in U.stinespring(rng, dout, din, r, field)]
        return K, K
    if cons == "redundant-unitary":
        u = U.haar(rng, din, field)
        w = 0.3
        K = [np.sqrt(w) * u, np.sqrt(1 - w) * u]
        return K, K
    if cons == "redundant-split":
        K = []
        for k in U.stinespring(rng, din, dout, r, field):
            K += [k / np.sqrt(2), k / np.sqrt(2)]
        return K, K
    if cons == "zero-padded":
        K = U.stinespring(rng, din, dout, r, field) + [np.zeros((dout, din))]
        return K, K
    if cons == "cptp-minus":
        K = U.stinespring(rng, din, dout, r, field)
        L = U.stinespring(rng, din, dout, 1 if dout >= din else int(np.ceil(din / dout)), field)
        c = 3.0
        A = [np.sqrt(1 + c) * k for k in K] + [np.sqrt(c) * l for l in L]
        B = [np.sqrt(1 + c) * k for k in K] + [-np.sqrt(c) * l for l in L]
        return A, B
    if cons == "non-hp":
        A = [U.rnd(rng, (dout, din), field) / np.sqrt(din) for _ in range(r)]
        B = [U.rnd(rng, (dout, din), field) / np.sqrt(din) for _ in range(r)]
        return A, B
    K = U.stinespring(rng, din, dout, r, field) if cons != "transpose" and dout * r >= din else None
    if cons == "hp-perturbed":
        J = U.ref_choi(K, K)
        H = U.herm(U.rnd(rng, J.shape, "real" if field == "real" else "complex"))
        H = H / np.max(np.abs(H))
        # real field: a real non-symmetric perturbation (not Hermitian either)
        Jp = J + (0.05 * (np.triu(H.real, 1)) if field == "real" else 0.05j * H)
        return _pairs_from_choi(Jp, din, dout)
    if cons == "diag-imag":
        # the Choi matrix of a channel plus a traceless imaginary DIAGONAL: Hermitian everywhere except on the diagonal (a Hermiticity test
        # that only compares the off-diagonal entries does not see it); traceless so that trace preservation is not what gives it away
        J = U.ref_choi(K, K)
        n = J.shape[0]
        w = np.linspace(-1.0, 1.0, n) if n > 1 else np.array([1.0])
        w = w - w.mean() if n > 1 else w
        return _pairs_from_choi(J + 0.3j * np.diag(w), din, dout)
    if cons == "cp-shifted":
        J = U.herm(U.ref_choi(K, K))
        lam = float(np.linalg.eigvalsh(J)[0])
        Jp = J - (lam + 0.05) * np.eye(J.shape[0])
        ev, v = np.linalg.eigh(Jp)
        A = [np.sqrt(abs(e)) * _unvec(v[:, k], din, dout) for k, e in enumerate(ev) if abs(e) > 1e-13]
        B = [np.sign(e) * np.sqrt(abs(e)) * _unvec(v[:, k], din, dout) for k, e in enumerate(ev) if abs(e) > 1e-13]
        return A, B
    if cons == "witness":
        J = U.herm(U.ref_choi(K, K))
        a = U.rnd(rng, (din,), field)
        b = U.rnd(rng, (dout,), field)
        ab = np.kron(a / np.linalg.norm(a), b / np.linalg.norm(b))
        c = float(np.real(ab.conj() @ J @ ab)) + 0.1
        Jp = J - c * np.outer(ab, ab.conj())
        ev, v = np.linalg.eigh(U.herm(Jp))
        A = [np.sqrt(abs(e)) * _unvec(v[:, k], din, dout) for k, e in enumerate(ev) if abs(e) > 1e-13]
        B = [np.sign(e) * np.sqrt(abs(e)) * _unvec(v[:, k], din, dout) for k, e in enumerate(ev) if abs(e) > 1e-13]
        return A, B
    if cons == "transpose":
        A, B = [], []
        for i in range(din):
            for j in range(din):
                E = np.zeros((din, din))
                E[i, j] = 1
                A.append(E)
                B.append(E.T.copy())
        return A, B
    if cons == "phase-pair":
        u = U.haar(rng, din, field)
        return [u], [-u]
    if cons == "scaled-unitary-pair":
        # the unitary channel X -> U X U^dagger written as a left / right pair (c U, U / conj(c)) with c != 1: the same map, another description
        u = U.haar(rng, din, field)
        c = 1.5 * (np.exp(0.3j) if field == "complex" else 1.0)
        return [c * u], [u / np.conj(c)]
    if cons == "similarity":
        # X -> A X B^dagger with B^dagger A = I and A != B: Choi rank one, trace preserving, equal square dimensions -- and not a unitary channel
        # (not even Hermiticity preserving): A = U S, B = U S^{-dagger} for a non-unitary invertible S
        u = U.haar(rng, din, field)
        sdiag = np.array([1.5 ** ((-1) ** k) * (1.0 + 0.2 * k) for k in range(din)])
        S = np.diag(sdiag).astype(complex if field == "complex" else float)
        if field == "complex":
            S = S @ np.diag(np.exp(1j * np.linspace(0.3, 1.1, din)))
        return [u @ S], [u @ np.linalg.inv(S).conj().T]
    raise ValueError(cons)


def _product_witness(J, din, dout, seed=0):
    """smallest value of <x (x) y| J |x (x) y> found by alternating eigenvector minimisation (any value found is a certificate)"""
    import numpy as np

    rng = np.random.default_rng(seed)
    J4 = J.reshape(din, dout, din, dout)
    best = np.inf
    for _ in range(6):
        y = rng.standard_normal(dout) + 1j * rng.standard_normal(dout)
        y /= np.linalg.norm(y)
        for _ in range(25):
            Mx = np.einsum("iajb,a,b->ij", J4, y.conj(), y)
            w, v = np.linalg.eigh((Mx + Mx.conj().T) / 2)
            x = v[:, 0]
            My = np.einsum("iajb,i,j->ab", J4, x.conj(), x)
            w, v = np.linalg.eigh((My + My.conj().T) / 2)
            y = v[:, 0]
        xy = np.kron(x, y)
        best = min(best, float(np.real(xy.conj() @ J @ xy)))
    return best


def _truth(A, B, din, dout):
    """verdicts derived from the definitions on the reference Choi matrix; None = not decided by a margin"""
    import numpy as np

    from props import chan_util as U

    J = np.asarray(U.ref_choi(A, B), dtype=complex)
    scale = max(1.0, float(np.max(np.abs(J))))

    def verdict(defect):
        if defect <= HOLD * scale:
            return True
        if defect >= FAIL * scale:
            return False
        return None

    t = {}
    t["hp"] = verdict(float(np.max(np.abs(J - J.conj().T))))
    lam = float(np.linalg.eigvalsh(U.herm(J))[0])
    if t["hp"] is True:
        t["cp"] = True if lam >= -HOLD * scale else (False if lam <= -FAIL * scale else None)
    elif t["hp"] is False:
        t["cp"] = False
    else:
        t["cp"] = None
    J4 = J.reshape(din, dout, din, dout)
    t["tp"] = verdict(float(np.max(np.abs(np.einsum("iaja->ij", J4) - np.eye(din)))))
    t["unital"] = verdict(float(np.max(np.abs(np.asarray(U.ref_apply(A, B, np.eye(din)), dtype=complex) - np.eye(dout)))))
    sv = np.linalg.svd(J, compute_uv=False)
    big = sv > 1e-3 * sv[0]
    mid = (sv > 1e-11 * sv[0]) & ~big
    t["rank"] = None if mid.any() else int(big.sum())
    t["channel"] = None if (t["cp"] is None or t["tp"] is None) else bool(t["cp"] and t["tp"])
    if din != dout or t["cp"] is False or t["tp"] is False or (t["rank"] is not None and t["rank"] >= 2):
        t["unitary"] = False
    elif t["cp"] and t["tp"] and t["rank"] == 1:
        t["unitary"] = True
    else:
        t["unitary"] = None
    # positivity: CP => positive; non-HP => not positive; HP non-CP: only a certificate decides
    if t["cp"] is True:
        t["positive"] = True
    elif t["hp"] is False:
        t["positive"] = False
    elif t["hp"] is True and t["cp"] is False and _product_witness(U.herm(J), din, dout) <= -FAIL * scale:
        t["positive"] = False
    else:
        t["positive"] = None
    # extremality (channels only), on a minimal Kraus family from the eigen-decomposition of J
    t["extremal"] = None
    if t["channel"] is True and t["rank"] is not None:
        ev, v = np.linalg.eigh(U.herm(J))
        K = [np.sqrt(e) * _unvec(v[:, k], din, dout) for k, e in enumerate(ev) if e > 1e-3 * ev[-1]]
        if len(K) == t["rank"]:
            G = np.column_stack([(a.conj().T @ b).reshape(-1) for a in K for b in K])
            s = np.linalg.svd(G, compute_uv=False)
            if len(K) ** 2 > din * din:
                t["extremal"] = False
            elif s[-1] >= 1e-3 * s[0]:
                t["extremal"] = True
            elif s[-1] <= 1e-11 * s[0]:
                t["extremal"] = False
    return t, J


def _represent(A, B, form):
    import numpy as np

    from props import chan_util as U

    if form == "choi":
        return np.asarray(U.ref_choi(A, B), dtype=complex)
    return U.as_form(A, B, form)


PRED_KEY = {
    "is_completely_positive": "cp",
    "is_herm_preserving": "hp",
    "is_trace_preserving": "tp",
    "is_unital": "unital",
    "is_unitary": "unitary",
    "is_quantum_channel": "channel",
    "is_positive": "positive",
    "is_extremal": "extremal",
}


def _call_pred(pred, phi, p, din, dout, realcast):
    import numpy as np

    import toqito.channel_props as cp

    if realcast and isinstance(phi, np.ndarray):
        phi = phi.real.copy()
    fn = getattr(cp, pred)
    is_choi = isinstance(phi, np.ndarray)
    dimform = p.get("dimform", "auto")
    if pred in ("is_trace_preserving", "is_unital") and is_choi:
        if din != dout or dimform == "list":
            return fn(phi, dim=[din, dout])
        if dimform == "int" and pred == "is_unital":
            return fn(phi, dim=int(din))
    return fn(phi)


def _pred_clause(direction):
    def clause(p):
        import numpy as np

        from vt.contract import Undecided, Violation

        pred, form = p["pred"], p["form"]
        din, dout = int(p["din"]), int(p["dout"])
        A, B = _construct(p)
        t, J = _truth(A, B, din, dout)
        truth = t[PRED_KEY[pred]]
        if truth is None or truth != (direction == "accepts"):
            raise Undecided("reference verdict for %s is %r: the margin required for a '%s' case is not met" % (pred, truth, direction))
        phi = _represent(A, B, form)
        realcast = p.get("field") == "real" and form == "choi" and float(np.max(np.abs(J.imag))) == 0.0
        got = _call_pred(pred, phi, p, din, dout, realcast)
        if not isinstance(got, (bool, np.bool_)):
            raise Violation("%s returned %r (%s), a boolean verdict is documented" % (pred, got, type(got).__name__))
        if bool(got) != truth:
            raise Violation("%s(%s form of '%s', M_%d -> M_%d, %d operators) = %s; by definition %s (reference: hp=%s cp=%s tp=%s unital=%s rank=%s)" % (pred, form, p["cons"], din, dout, len(A), bool(got), truth, t["hp"], t["cp"], t["tp"], t["unital"], t["rank"]))

    return clause


def _rank_clause(direction):
    def clause(p):
        import numpy as np

        from toqito.channel_props import choi_rank
        from vt.contract import Undecided, Violation

        din, dout = int(p["din"]), int(p["dout"])
        A, B = _construct(p)
        t, J = _truth(A, B, din, dout)
        if t["rank"] is None:
            raise Undecided("rank of the reference Choi matrix is not decided by a margin")
        phi = _represent(A, B, p["form"])
        got = choi_rank(phi)
        if not isinstance(got, (int, np.integer)):
            raise Violation("choi_rank returned %r (%s)" % (got, type(got).__name__))
        if direction == "ge" and got < t["rank"]:
            raise Violation("choi_rank(%s form of '%s') = %d < rank %d of the Choi matrix" % (p["form"], p["cons"], got, t["rank"]))
        if direction == "le" and got > t["rank"]:
            raise Violation("choi_rank(%s form of '%s') = %d > rank %d of the Choi matrix" % (p["form"], p["cons"], got, t["rank"]))

    return clause


CLAUSES = {}
for _pred in PRED_KEY:
    for _d in ("accepts", "rejects"):
        _c = _pred_clause(_d)
        _c.function = _pred
        _c.__doc__ = "%s returns %s on maps for which the definition %s by a margin" % (_pred, _d == "accepts", "holds" if _d == "accepts" else "fails")
        CLAUSES["%s.%s" % (_pred, _d)] = _c
for _d in ("ge", "le"):
    _c = _rank_clause(_d)
    _c.function = "choi_rank"
    CLAUSES["choi_rank.%s" % _d] = _c


# =============================================================================================
# built-in channels
# =============================================================================================
def _rand_ops(seed, d, n=3):
    import numpy as np

    from props import chan_util as U

    rng = np.random.default_rng([seed, d, 77])
    ops = [U.rnd(rng, (d, d), "complex") for _ in range(n - 1)]
    ops.append(U.density(rng, d))
    return ops


def _check_choi_channel(name, J, d, formula, seed):
    """the Choi matrix J acts by `formula` (reference reading and real apply_channel)"""
    import numpy as np

    from props import chan_util as U
    from toqito.channel_ops import apply_channel
    from vt.contract import Violation

    J = np.asarray(J)
    if J.shape != (d * d, d * d):
        raise Violation("%s: Choi matrix of shape %s for dimension %d" % (name, J.shape, d))
    for X in _rand_ops(seed, d):
        exp = formula(X)
        U.close(U.ref_choi_apply(J, X, d, d, d, d), exp, "%s: action read off the returned Choi matrix" % name, U.TOL_IDX)
        U.close(apply_channel(X, J), exp, "%s: apply_channel(X, returned Choi matrix)" % name, U.TOL_IDX)


def _ref_props(J, d):
    import numpy as np

    from props import chan_util as U

    J = np.asarray(J, dtype=complex)
    J4 = J.reshape(d, d, d, d)
    return dict(
        herm=float(np.max(np.abs(J - J.conj().T))),
        lam=float(np.linalg.eigvalsh(U.herm(J))[0]),
        tp=float(np.max(np.abs(np.einsum("iaja->ij", J4) - np.eye(d)))),
        unital=float(np.max(np.abs(np.einsum("iaib->ab", J4) - np.eye(d)))),
    )


def depolarizing_formula(p):
    """depolarizing(d, p): X -> (1 - p) Tr(X) I/d + p X; Hermiticity preserving, trace preserving, unital; CP exactly for -1/(d^2-1) <= p <= 1"""
    import numpy as np

    from toqito.channels import depolarizing
    from vt.contract import Violation

    d = int(p["d"])
    if p.get("default"):
        J, q = depolarizing(d), 0.0
    else:
        q = float(p["p"])
        J = depolarizing(d, q)
    _check_choi_channel("depolarizing(%d, %g)" % (d, q), J, d, lambda X: (1 - q) * np.trace(X) * np.eye(d) / d + q * X, p.get("seed", 0))
    pr = _ref_props(J, d)
    if pr["herm"] > 1e-12 or pr["tp"] > 1e-9 or pr["unital"] > 1e-9:
        raise Violation("depolarizing(%d, %g): Hermiticity / trace-preservation / unitality defects %s" % (d, q, pr))
    lam_exp = min(([(1 - q) / d] if d > 1 else []) + [(1 - q) / d + q * d])  # (1-q)/d has multiplicity d^2 - 1
    if abs(pr["lam"] - lam_exp) > 1e-9:
        raise Violation("depolarizing(%d, %g): smallest Choi eigenvalue %.6g, closed form %.6g" % (d, q, pr["lam"], lam_exp))


def dephasing_formula(p):
    """dephasing(d, p): X -> (1 - p) diag(X) + p X; trace preserving, unital; Choi spectrum {1 - p + p d, 1 - p (d - 1 times), 0 (d^2 - d times)}"""
    import numpy as np

    from toqito.channels import dephasing
    from vt.contract import Violation

    d = int(p["d"])
    if p.get("default"):
        J, q = dephasing(d), 0.0
    else:
        q = float(p["p"])
        J = dephasing(d, q)
    _check_choi_channel("dephasing(%d, %g)" % (d, q), J, d, lambda X: (1 - q) * np.diag(np.diag(X)) + q * X, p.get("seed", 0))
    pr = _ref_props(J, d)
    if pr["herm"] > 1e-12 or pr["tp"] > 1e-9 or pr["unital"] > 1e-9:
        raise Violation("dephasing(%d, %g): Hermiticity / trace-preservation / unitality defects %s" % (d, q, pr))
    lam_exp = min([1 - q + q * d] + ([1 - q, 0.0] if d > 1 else []))  # 1-q has multiplicity d - 1, 0 multiplicity d^2 - d
    if abs(pr["lam"] - lam_exp) > 1e-9:
        raise Violation("dephasing(%d, %g): smallest Choi eigenvalue %.6g, closed form %.6g" % (d, q, pr["lam"], lam_exp))


def reduction_formula(p):
    """reduction(d, k): X -> k Tr(X) I - X; Choi eigenvalues k (d^2-1 times) and k - d; k = 1: positive on random PSD inputs"""
    import numpy as np

    from props import chan_util as U
    from toqito.channels import reduction
    from vt.contract import Violation

    d = int(p["d"])
    if p.get("default"):
        J, k = reduction(d), 1
    else:
        k = int(p["k"])
        J = reduction(d, k)
    if not isinstance(J, np.ndarray):
        raise Violation("reduction returned %s" % type(J).__name__)
    _check_choi_channel("reduction(%d, %d)" % (d, k), J, d, lambda X: k * np.trace(X) * np.eye(d) - X, p.get("seed", 0))
    ev = np.sort(np.linalg.eigvalsh(U.herm(np.asarray(J, dtype=complex))))
    exp = np.sort(np.array([k - d] + [k] * (d * d - 1), dtype=float))
    U.close(ev, exp, "reduction(%d, %d): Choi spectrum" % (d, k), 1e-9)
    rng = np.random.default_rng(p.get("seed", 0))
    for _ in range(3):
        rho = U.density(rng, d, rank=int(rng.integers(1, d + 1)))
        out = U.herm(np.asarray(U.ref_choi_apply(J, rho, d, d, d, d), dtype=complex))
        if np.linalg.eigvalsh(out)[0] < -1e-9:
            raise Violation("reduction(%d, %d) maps a density matrix to an operator with eigenvalue %.3g" % (d, k, np.linalg.eigvalsh(out)[0]))


def choi_formula(p):
    """choi(a, b, c): X -> diag((a+1)x00 + b x11 + c x22, c x00 + (a+1)x11 + b x22, b x00 + c x11 + (a+1)x22) - X; choi() is Choi's map, choi(0,1,1) == reduction(3)"""
    import numpy as np

    from props import chan_util as U
    from toqito.channels import choi, reduction

    if p.get("default"):
        a, b, c = 1, 1, 0
        J = choi()
    else:
        a, b, c = p["abc"]
        J = choi(a, b, c)

    def formula(X):
        x = np.diag(X)
        return np.diag([(a + 1) * x[0] + b * x[1] + c * x[2], c * x[0] + (a + 1) * x[1] + b * x[2], b * x[0] + c * x[1] + (a + 1) * x[2]]) - X

    _check_choi_channel("choi(%s, %s, %s)" % (a, b, c), J, 3, formula, p.get("seed", 0))
    if (a, b, c) == (0, 1, 1):
        U.close(J, reduction(3), "choi(0, 1, 1) against reduction(3) (documented)", 1e-12)
    if (a, b, c) == (1, 1, 0):
        # Choi's map as printed in the docstring: diag(x00 + x11, x11 + x22, x22 + x00) - offdiag(X)
        def choi_map(X):
            out = -np.array(X, dtype=complex)
            out[0, 0] = X[0, 0] + X[1, 1]
            out[1, 1] = X[1, 1] + X[2, 2]
            out[2, 2] = X[2, 2] + X[0, 0]
            return out

        for X in _rand_ops(p.get("seed", 0) + 1, 3):
            U.close(U.ref_choi_apply(J, X, 3, 3, 3, 3), choi_map(X), "choi(): Choi's positive map", 1e-12)


def _kraus_channel_checks(name, K, direct, formula, seed, tp=True):
    """Kraus list K, direct application `direct(X)`, closed `formula(X)`: all agree, also through apply_channel and kraus_to_choi"""
    import numpy as np

    from props import chan_util as U
    from toqito.channel_ops import apply_channel, kraus_to_choi
    from vt.contract import Violation

    if not (isinstance(K, list) and all(isinstance(k, np.ndarray) for k in K)):
        raise Violation("%s: Kraus operators are not returned as a list of arrays" % name)
    d = K[0].shape[0]
    J = kraus_to_choi(K)
    for X in _rand_ops(seed, d):
        exp = formula(X)
        U.close(U.ref_apply(K, K, X), exp, "%s: sum K X K^dagger with the returned Kraus operators" % name, U.TOL_IDX)
        if direct is not None:
            U.close(direct(X), exp, "%s: direct application (input_mat given)" % name, U.TOL_IDX)
        U.close(apply_channel(X, K), exp, "%s: apply_channel(X, Kraus list)" % name, U.TOL_IDX)
        U.close(U.ref_choi_apply(J, X, d, d, d, d), exp, "%s: action of kraus_to_choi(Kraus list)" % name, U.TOL_IDX)
    if tp:
        U.close(sum(k.conj().T @ k for k in K), np.eye(d), "%s: completeness sum K^dagger K" % name, 1e-9)


def amplitude_damping_formula(p):
    """generalised amplitude damping: p * AD_gamma + (1 - p) * (X o AD_gamma o X), documented Kraus operators, CPTP, unital iff gamma (2p - 1) = 0"""
    import numpy as np

    from props import chan_util as U
    from toqito.channels import amplitude_damping
    from vt.contract import Violation

    g = float(p["gamma"])
    if p.get("default_prob"):
        q = 1.0
        K = amplitude_damping(gamma=g)
        direct = lambda X: amplitude_damping(X, gamma=g)  # noqa: E731
    else:
        q = float(p["prob"])
        K = amplitude_damping(gamma=g, prob=q)
        direct = lambda X: amplitude_damping(X, gamma=g, prob=q)  # noqa: E731
    s = np.sqrt(1 - g)

    def formula(X):
        ad = np.array([[X[0, 0] + g * X[1, 1], s * X[0, 1]], [s * X[1, 0], (1 - g) * X[1, 1]]])
        adx = np.array([[(1 - g) * X[0, 0], s * X[0, 1]], [s * X[1, 0], X[1, 1] + g * X[0, 0]]])
        return q * ad + (1 - q) * adx

    _kraus_channel_checks("amplitude_damping(gamma=%g, prob=%g)" % (g, q), K, direct, formula, p.get("seed", 0))
    doc = [np.sqrt(q) * np.array([[1, 0], [0, s]]), np.sqrt(q) * np.array([[0, np.sqrt(g)], [0, 0]]), np.sqrt(1 - q) * np.array([[s, 0], [0, 1]]), np.sqrt(1 - q) * np.array([[0, 0], [np.sqrt(g), 0]])]
    if len(K) != 4:
        raise Violation("amplitude_damping returned %d Kraus operators, four are documented" % len(K))
    for k, dk in zip(K, doc):
        U.close(k, dk, "amplitude_damping: documented Kraus operator", 1e-12)
    un = float(np.max(np.abs(U.ref_apply(K, K, np.eye(2)) - np.eye(2))))
    if abs(un - abs(g * (2 * q - 1))) > 1e-9:
        raise Violation("amplitude_damping(gamma=%g, prob=%g): unitality defect %.3g, closed form %.3g" % (g, q, un, abs(g * (2 * q - 1))))


def phase_damping_formula(p):
    """phase damping: off-diagonal entries scaled by sqrt(1 - gamma), diagonal kept; CPTP and unital"""
    import numpy as np

    from props import chan_util as U
    from toqito.channels import phase_damping

    g = float(p["gamma"])
    K = phase_damping(gamma=g) if not p.get("default") else phase_damping()
    if p.get("default"):
        g = 0.0
    s = np.sqrt(1 - g)
    _kraus_channel_checks("phase_damping(gamma=%g)" % g, K, (lambda X: phase_damping(X, gamma=g)), lambda X: np.array([[X[0, 0], s * X[0, 1]], [s * X[1, 0], X[1, 1]]]), p.get("seed", 0))
    U.close(U.ref_apply(K, K, np.eye(2)), np.eye(2), "phase_damping: unital", 1e-9)
    U.close(K[0], np.diag([1, s]), "phase_damping: documented K0", 1e-12)
    U.close(K[1], np.diag([0, np.sqrt(g)]), "phase_damping: documented K1", 1e-12)


def bitflip_formula(p):
    """bitflip: X -> (1 - p) X + p sx X sx; CPTP and unital"""
    import numpy as np

    from props import chan_util as U
    from toqito.channels import bitflip

    q = float(p["prob"])
    K = bitflip(prob=q) if not p.get("default") else bitflip()
    if p.get("default"):
        q = 0.0
    sx = np.array([[0, 1], [1, 0]])
    _kraus_channel_checks("bitflip(prob=%g)" % q, K, (lambda X: bitflip(X, prob=q)), lambda X: (1 - q) * X + q * sx @ X @ sx, p.get("seed", 0))
    U.close(U.ref_apply(K, K, np.eye(2)), np.eye(2), "bitflip: unital", 1e-9)


def _paulis(q):
    import numpy as np

    one = [np.eye(2), np.array([[0, 1], [1, 0]]), np.array([[0, -1j], [1j, 0]]), np.array([[1, 0], [0, -1]])]
    out = []
    for idx in itertools.product(range(4), repeat=q):
        m = np.eye(1)
        for i in idx:
            m = np.kron(m, one[i])
        out.append(m)
    return out


def pauli_formula(p):
    """pauli_channel(prob): rho -> sum_i p_i P_i rho P_i with P_i in lexicographic order; Choi matrix, Kraus operators and output agree in every return form"""
    import numpy as np

    from props import chan_util as U
    from toqito.channels import pauli_channel
    from vt.contract import Violation

    q = int(p["q"])
    d = 2**q
    rng = np.random.default_rng([p.get("seed", 0), q])
    w = rng.random(4**q) + 0.05
    if p.get("zeros"):
        w[rng.integers(0, 4**q, size=max(1, 4**q // 3))] = 0.0
    w /= w.sum()
    P = _paulis(q)

    def formula(X):
        return sum(w[i] * P[i] @ X @ P[i].conj().T for i in range(4**q))

    arg = w if p.get("argform", "array") == "array" else [float(x) for x in w]
    X0 = _rand_ops(p.get("seed", 0), d)[0]
    Phi = pauli_channel(arg)
    r2 = pauli_channel(arg, input_mat=X0)
    r3 = pauli_channel(arg, return_kraus_ops=True)
    r4 = pauli_channel(arg, return_kraus_ops=True, input_mat=X0)
    if not (isinstance(r2, tuple) and len(r2) == 2 and isinstance(r3, tuple) and len(r3) == 2 and isinstance(r4, tuple) and len(r4) == 3):
        raise Violation("pauli_channel: documented return forms (Phi), (Phi, out), (Phi, kraus), (Phi, out, kraus) not respected")
    J = np.asarray(Phi)
    if hasattr(Phi, "toarray"):
        J = Phi.toarray()
    for other in (r2[0], r3[0], r4[0]):
        o = other.toarray() if hasattr(other, "toarray") else np.asarray(other)
        U.close(o, J, "pauli_channel: Choi matrix independent of the return form", 1e-12)
    if J.shape != (d * d, d * d):
        raise Violation("pauli_channel: Choi matrix of shape %s for %d qubits" % (J.shape, q))
    for X in _rand_ops(p.get("seed", 0), d):
        U.close(U.ref_choi_apply(J, X, d, d, d, d), formula(X), "pauli_channel: action read off the returned Choi matrix", U.TOL_IDX)
    U.close(np.asarray(r2[1]), formula(X0), "pauli_channel: output for input_mat", U.TOL_IDX)
    U.close(np.asarray(r4[1]), formula(X0), "pauli_channel: output for input_mat (with Kraus operators)", U.TOL_IDX)
    for K in (r3[1], r4[2]):
        if len(K) != 4**q:
            raise Violation("pauli_channel: %d Kraus operators for %d qubits" % (len(K), q))
        for i in range(4**q):
            U.close(np.asarray(K[i]), np.sqrt(w[i]) * P[i], "pauli_channel: Kraus operator %d is sqrt(p_i) P_i (lexicographic order)" % i, 1e-12)
    pr = _ref_props(J, d)
    if pr["herm"] > 1e-12 or pr["lam"] < -1e-9 or pr["tp"] > 1e-9 or pr["unital"] > 1e-9:
        raise Violation("pauli_channel: the Choi matrix is not that of a unital channel: %s" % pr)


def pauli_random(p):
    """pauli_channel(q) with an integer: a random q-qubit Pauli channel (valid channel, Kraus operators proportional to Paulis, consistent with the Choi matrix)"""
    import numpy as np

    from props import chan_util as U
    from toqito.channels import pauli_channel
    from vt.contract import Violation

    q = int(p["q"])
    d = 2**q
    np.random.seed(p.get("seed", 0))
    Phi, K = pauli_channel(q, return_kraus_ops=True)
    J = Phi.toarray() if hasattr(Phi, "toarray") else np.asarray(Phi)
    if J.shape != (d * d, d * d) or len(K) != 4**q:
        raise Violation("pauli_channel(%d): shapes %s, %d Kraus operators" % (q, J.shape, len(K)))
    pr = _ref_props(J, d)
    if pr["herm"] > 1e-12 or pr["lam"] < -1e-9 or pr["tp"] > 1e-9 or pr["unital"] > 1e-9:
        raise Violation("pauli_channel(%d): not a unital channel: %s" % (q, pr))
    U.close(U.ref_choi(K, K), J, "pauli_channel(%d): Choi matrix against the returned Kraus operators" % q, 1e-9)
    P = _paulis(q)
    w = []
    for i in range(4**q):
        c = np.vdot(P[i], K[i]) / d
        U.close(K[i], c * P[i], "pauli_channel(%d): Kraus operator %d proportional to P_i" % (q, i), 1e-9)
        w.append(abs(c) ** 2)
    if abs(sum(w) - 1) > 1e-9:
        raise Violation("pauli_channel(%d): weights sum to %.9f" % (q, sum(w)))


def builtin_rejects(p):
    """parameters outside the documented range raise ValueError"""
    import numpy as np

    from toqito import channels as C
    from vt.contract import Violation

    name, val = p["name"], p["value"]
    try:
        if name == "amplitude_damping.gamma":
            C.amplitude_damping(gamma=val) if not p.get("with_input") else C.amplitude_damping(np.eye(2) / 2, gamma=val)
        elif name == "amplitude_damping.prob":
            C.amplitude_damping(gamma=0.3, prob=val) if not p.get("with_input") else C.amplitude_damping(np.eye(2) / 2, gamma=0.3, prob=val)
        elif name == "phase_damping.gamma":
            C.phase_damping(gamma=val) if not p.get("with_input") else C.phase_damping(np.eye(2) / 2, gamma=val)
        elif name == "bitflip.prob":
            C.bitflip(prob=val) if not p.get("with_input") else C.bitflip(np.eye(2) / 2, prob=val)
        elif name == "pauli_channel.prob":
            C.pauli_channel(np.array(val) if p.get("argform") == "array" else list(val))
        else:
            raise KeyError(name)
    except ValueError:
        return
    raise Violation("%s = %s accepted; the documented range excludes it (ValueError expected)" % (name, val))


def builtin_accepts(p):
    """end points of the documented ranges are admissible"""
    from toqito import channels as C

    name, val = p["name"], p["value"]
    if name == "amplitude_damping.gamma":
        C.amplitude_damping(gamma=val)
    elif name == "amplitude_damping.prob":
        C.amplitude_damping(gamma=0.3, prob=val)
    elif name == "phase_damping.gamma":
        C.phase_damping(gamma=val)
    elif name == "bitflip.prob":
        C.bitflip(prob=val)


def builtin_predicates(p):
    """the library's own predicates give the textbook verdicts on what the constructors return (margins >= 1e-2)"""
    import numpy as np

    import toqito.channel_props as cp
    from toqito import channels as C
    from vt.contract import Violation

    name = p["name"]
    exp = dict(p["expect"])
    if name == "depolarizing":
        phi = C.depolarizing(int(p["d"]), float(p["p"]))
    elif name == "dephasing":
        phi = C.dephasing(int(p["d"]), float(p["p"]))
    elif name == "reduction":
        phi = C.reduction(int(p["d"]), int(p["k"]))
    elif name == "choi":
        phi = C.choi(*p["abc"])
    elif name == "amplitude_damping":
        phi = C.amplitude_damping(gamma=float(p["gamma"]), prob=float(p["prob"]))
    elif name == "phase_damping":
        phi = C.phase_damping(gamma=float(p["gamma"]))
    elif name == "bitflip":
        phi = C.bitflip(prob=float(p["prob"]))
    elif name == "pauli_channel":
        rng = np.random.default_rng([p.get("seed", 0), int(p["q"])])
        w = rng.random(4 ** int(p["q"])) + 0.05
        w /= w.sum()
        phi = C.pauli_channel(w)
    else:
        raise KeyError(name)
    bad = []
    for pred, want in exp.items():
        got = getattr(cp, pred)(phi)
        if pred == "choi_rank":
            if int(got) != int(want):
                bad.append("%s = %s, textbook %s" % (pred, got, want))
        elif bool(got) != bool(want):
            bad.append("%s = %s, textbook %s" % (pred, got, want))
    if bad:
        raise Violation("%s %s: %s" % (name, {k: v for k, v in p.items() if k not in ("expect", "name")}, "; ".join(bad)))


_BUILTIN = {
    "depolarizing.formula": (depolarizing_formula, "depolarizing"),
    "dephasing.formula": (dephasing_formula, "dephasing"),
    "reduction.formula": (reduction_formula, "reduction"),
    "choi.formula": (choi_formula, "choi"),
    "amplitude_damping.formula": (amplitude_damping_formula, "amplitude_damping"),
    "phase_damping.formula": (phase_damping_formula, "phase_damping"),
    "bitflip.formula": (bitflip_formula, "bitflip"),
    "pauli_channel.formula": (pauli_formula, "pauli_channel"),
    "pauli_channel.random": (pauli_random, "pauli_channel"),
    "builtin.rejects": (builtin_rejects, "built-in channel"),
    "builtin.accepts": (builtin_accepts, "built-in channel"),
    "builtin.predicates": (builtin_predicates, "built-in channel"),
}
for _k, (_f, _n) in _BUILTIN.items():
    _f.function = _n
    CLAUSES[_k] = _f
for _f in CLAUSES.values():
    _f.limit = 60


# =============================================================================================
# cases
# =============================================================================================
def _forms(cons, r_eff):
    if cons in CP_CONS:
        return ["flat", "col", "pairs", "choi"] + (["row"] if r_eff > 2 else [])
    return ["pairs", "choi"]


def _applicable(pred, form, din, dout):
    if form == "choi" and din != dout and pred in ("is_quantum_channel", "is_extremal"):
        return False  # no dim argument: a Choi matrix with unequal dimensions is not an admissible input
    return True


def cases(tier, seed):
    thorough = tier == "thorough"
    out = []

    def add(clause, params, ic, nontrivial=True, function=None):
        c = dict(clause=clause, params=params, input_class=ic, nontrivial=nontrivial)
        if function:
            c["function"] = function
        out.append(c)

    dims = [(2, 2), (3, 3), (2, 3), (3, 2), (1, 2), (2, 1)] + ([(4, 4), (2, 4), (4, 2), (1, 1)] if thorough else [])
    nseeds = 3 if thorough else 1
    plan = []
    for din, dout in dims:
        for cons in CP_CONS + NONCP_CONS:
            if cons in ("unitary", "mixed-unitary", "redundant-unitary", "transpose", "phase-pair", "similarity", "scaled-unitary-pair") and din != dout:
                continue
            if cons == "isometry" and not dout > din:
                continue
            if cons in ("unitary", "isometry", "redundant-unitary", "transpose", "phase-pair", "similarity", "scaled-unitary-pair"):
                ranks = [1]
            elif cons == "mixed-unitary":
                ranks = [2, 3, din * din] if din > 1 else [2]
            elif cons in ("unital-cp", "unital-scaled"):
                ranks = [r for r in (1, 2, 3) if din * r >= dout]
            elif cons in ("hp-perturbed", "diag-imag", "cp-shifted", "witness"):
                ranks = [r for r in (1, 2) if dout * r >= din][:1] + [din * dout]
            elif cons == "cptp-minus":
                ranks = [r for r in (1, 2) if dout * r >= din and r < din * dout][:2]
            elif cons in ("cp-generic", "non-hp"):
                ranks = [1, 2, 3]
            else:
                ranks = [r for r in (1, 2, 3, din * dout) if dout * r >= din]
            for r in sorted(set(ranks)):
                for field in ("real", "complex"):
                    for s in range(nseeds):
                        plan.append(dict(cons=cons, din=din, dout=dout, r=r, field=field, seed=seed + s))
    for base in plan:
        din, dout = base["din"], base["dout"]
        try:
            A, B = _construct(base)
            t, _ = _truth(A, B, din, dout)
        except Exception:  # a construction that cannot be built for these dimensions is simply not a case
            continue
        dk = "equal" if din == dout else ("din<dout" if din < dout else "din>dout")
        nt = not (din == dout == 1)
        # a Kraus list with more operators than the Choi rank (proportional, repeated or zero operators; forced in dimension 1)
        red = "-redundant" if (base["cons"] in ("redundant-unitary", "redundant-split", "zero-padded") or (base["cons"] in CP_CONS and t["rank"] is not None and len(A) > t["rank"])) else ""
        for form in _forms(base["cons"], len(A)):
            for pred, key in PRED_KEY.items():
                if t[key] is None or not _applicable(pred, form, din, dout):
                    continue
                direction = "accepts" if t[key] else "rejects"
                variants = [dict()]
                if form == "choi" and din == dout and pred in ("is_trace_preserving", "is_unital") and base["field"] == "complex":
                    variants = [dict(), dict(dimform="list")] + ([dict(dimform="int")] if pred == "is_unital" else [])
                for v in variants:
                    # redundancy of the Kraus list is part of the input class only where the verdict could depend on it
                    tag = red if (form != "choi" and pred in ("is_extremal", "is_unitary")) else ""
                    ic = "%s/%s%s/%s/%s" % (pred, form, tag, dk, base["cons"]) + ("/dim-given" if v else "")
                    add("%s.%s" % (pred, direction), dict(base, pred=pred, form=form, **v), ic, nt)
            if t["rank"] is not None:
                add("choi_rank.ge", dict(base, form=form), "choi_rank/%s/%s/%s" % (form, dk, base["cons"]), nt)
                add("choi_rank.le", dict(base, form=form), "choi_rank/%s/%s/%s" % (form, dk, base["cons"]), nt)

    # ---------------- built-in channels --------------------------------------------------------------------------
    pgrid = [0.0, 0.1, 0.25, 0.5, 0.9, 1.0]
    import random

    rnd = random.Random(seed)
    pextra = [round(rnd.random(), 3) for _ in range(6 if thorough else 2)]
    for d in (1, 2, 3, 4) + ((5,) if thorough else ()):
        add("depolarizing.formula", dict(d=d, default=True, seed=seed), "depolarizing/default", d > 1)
        add("dephasing.formula", dict(d=d, default=True, seed=seed), "dephasing/default", d > 1)
        add("reduction.formula", dict(d=d, default=True, seed=seed), "reduction/default", d > 1)
        for q in pgrid + pextra + [-1.0 / (d * d - 1) if d > 1 else -0.5, 1.2, -0.3]:
            add("depolarizing.formula", dict(d=d, p=q, seed=seed), "depolarizing/p-grid", d > 1)
            add("dephasing.formula", dict(d=d, p=q, seed=seed), "dephasing/p-grid", d > 1)
        for k in range(1, d + 3):
            add("reduction.formula", dict(d=d, k=k, seed=seed), "reduction/k-grid", d > 1)
    add("choi.formula", dict(default=True, seed=seed), "choi/default")
    for abc in ([1, 1, 0], [0, 1, 1], [0, 0, 0], [1, 0, 1], [2, 0, 1], [1, 2, 3], [0, 1, 0], [3, 1, 1]) + (([0.5, 0.25, 2.0], [-1, 1, 1]) if thorough else ()):
        add("choi.formula", dict(abc=list(abc), seed=seed), "choi/abc-grid")
    ggrid = [0.0, 0.1, 0.3, 0.5, 0.9, 1.0] + pextra
    for g in ggrid:
        add("amplitude_damping.formula", dict(gamma=g, default_prob=True, seed=seed), "amplitude_damping/default-prob")
        for q in (0.0, 0.25, 0.5, 1.0) + tuple(pextra[:1]):
            add("amplitude_damping.formula", dict(gamma=g, prob=q, seed=seed), "amplitude_damping/grid")
        add("phase_damping.formula", dict(gamma=g, seed=seed), "phase_damping/grid")
        add("bitflip.formula", dict(prob=g, seed=seed), "bitflip/grid")
    add("phase_damping.formula", dict(gamma=0.0, default=True, seed=seed), "phase_damping/default")
    add("bitflip.formula", dict(prob=0.0, default=True, seed=seed), "bitflip/default")
    for q in (1, 2, 3):  # q = 3 is the first size at which a wrong tensor-factor order of the Pauli strings is visible
        for s in range(3 if q < 3 else 1):
            add("pauli_channel.formula", dict(q=q, seed=seed + s, argform="array"), "pauli_channel/prob-vector")
            add("pauli_channel.formula", dict(q=q, seed=seed + s, argform="list"), "pauli_channel/prob-list")
            add("pauli_channel.formula", dict(q=q, seed=seed + s, argform="array", zeros=True), "pauli_channel/prob-vector-with-zeros")
            add("pauli_channel.random", dict(q=q, seed=seed + s), "pauli_channel/random")
    # parameter ranges: end points admissible, +-1e-3 outside rejected
    for name in ("amplitude_damping.gamma", "amplitude_damping.prob", "phase_damping.gamma", "bitflip.prob"):
        fn = name.split(".")[0]
        for v in (0.0, 1.0):
            add("builtin.accepts", dict(name=name, value=v), "%s/end-point" % name, function=fn)
        for v in (-1e-3, 1.0 + 1e-3, -0.5, 2.0):
            add("builtin.rejects", dict(name=name, value=v), "%s/outside" % name, function=fn)
            add("builtin.rejects", dict(name=name, value=v, with_input=True), "%s/outside" % name, function=fn)
    for vec in ([0.5, 0.6, -0.1, 0.0], [0.3, 0.3, 0.3, 0.101], [0.25, 0.25, 0.25, 0.249], [-1e-3, 0.5, 0.5, 1e-3]):
        for af in ("array", "list"):
            add("builtin.rejects", dict(name="pauli_channel.prob", value=vec, argform=af), "pauli_channel/invalid-probabilities", function="pauli_channel")
    for vec in ([0.5, 0.5], [0.2] * 5, [0.125] * 8, [1.0 / 15] * 15):
        add("builtin.rejects", dict(name="pauli_channel.prob", value=vec, argform="array"), "pauli_channel/invalid-length", function="pauli_channel")
    # the library's predicates on the constructors' return values
    T, F = True, False
    for d in (2, 3) + ((4,) if thorough else ()):
        for q in (0.0, 0.3, 0.9):
            add("builtin.predicates", dict(name="depolarizing", d=d, p=q, expect=dict(is_quantum_channel=T, is_completely_positive=T, is_trace_preserving=T, is_unital=T, is_herm_preserving=T, is_positive=T, is_unitary=F, choi_rank=d * d, is_extremal=F)), "depolarizing/predicates", function="depolarizing")
            add("builtin.predicates", dict(name="dephasing", d=d, p=q, expect=dict(is_quantum_channel=T, is_completely_positive=T, is_trace_preserving=T, is_unital=T, is_herm_preserving=T, is_positive=T, is_unitary=F, choi_rank=d, is_extremal=F)), "dephasing/predicates", function="dephasing")
        add("builtin.predicates", dict(name="depolarizing", d=d, p=1.0, expect=dict(is_quantum_channel=T, is_unital=T, is_unitary=T, choi_rank=1, is_extremal=T)), "depolarizing/predicates/identity-channel", function="depolarizing")
        add("builtin.predicates", dict(name="dephasing", d=d, p=1.0, expect=dict(is_quantum_channel=T, is_unital=T, is_unitary=T, choi_rank=1, is_extremal=T)), "dephasing/predicates/identity-channel", function="dephasing")
        add("builtin.predicates", dict(name="depolarizing", d=d, p=1.2, expect=dict(is_quantum_channel=F, is_completely_positive=F, is_trace_preserving=T, is_unital=T, is_herm_preserving=T, is_unitary=F)), "depolarizing/predicates/not-cp", function="depolarizing")
        for k in range(1, d + 2):
            if k == d:
                continue  # smallest Choi eigenvalue exactly 0: no margin
            cpk = k > d
            tpk = k * d == 2  # Tr R(X) = (k d - 1) Tr X and R(I) = (k d - 1) I
            add("builtin.predicates", dict(name="reduction", d=d, k=k, expect=dict(is_completely_positive=cpk, is_herm_preserving=T, is_trace_preserving=tpk, is_unital=tpk, is_quantum_channel=F, is_unitary=F, choi_rank=d * d, **(dict(is_positive=T) if cpk else {}))), "reduction/predicates", function="reduction")
    add("builtin.predicates", dict(name="choi", abc=[1, 1, 0], expect=dict(is_completely_positive=F, is_herm_preserving=T, is_trace_preserving=F, is_unital=F, is_quantum_channel=F, is_unitary=F)), "choi/predicates", function="choi")
    add("builtin.predicates", dict(name="choi", abc=[0, 1, 0], expect=dict(is_completely_positive=F, is_herm_preserving=T, is_trace_preserving=T, is_unital=T, is_quantum_channel=F)), "choi/predicates", function="choi")
    for g in (0.3, 0.7):
        add("builtin.predicates", dict(name="amplitude_damping", gamma=g, prob=1.0, expect=dict(is_quantum_channel=T, is_completely_positive=T, is_unital=F, is_herm_preserving=T, is_positive=T, is_unitary=F, choi_rank=2)), "amplitude_damping/predicates", function="amplitude_damping")
        add("builtin.predicates", dict(name="amplitude_damping", gamma=g, prob=1.0, expect=dict(is_trace_preserving=T)), "amplitude_damping/predicates/is_trace_preserving", function="is_trace_preserving")
        add("builtin.predicates", dict(name="amplitude_damping", gamma=g, prob=1.0, expect=dict(is_extremal=T)), "amplitude_damping/predicates/is_extremal", function="is_extremal")
        add("builtin.predicates", dict(name="amplitude_damping", gamma=g, prob=0.5, expect=dict(is_quantum_channel=T, is_unital=T, is_unitary=F, choi_rank=4, is_extremal=F)), "amplitude_damping/predicates", function="amplitude_damping")
        add("builtin.predicates", dict(name="phase_damping", gamma=g, expect=dict(is_quantum_channel=T, is_completely_positive=T, is_unital=T, is_unitary=F, choi_rank=2, is_extremal=F)), "phase_damping/predicates", function="phase_damping")
        add("builtin.predicates", dict(name="bitflip", prob=g, expect=dict(is_quantum_channel=T, is_completely_positive=T, is_unital=T, is_unitary=F, choi_rank=2, is_extremal=F)), "bitflip/predicates", function="bitflip")
    add("builtin.predicates", dict(name="phase_damping", gamma=0.0, expect=dict(is_quantum_channel=T, is_unital=T, choi_rank=1)), "phase_damping/predicates/identity-channel", function="phase_damping")
    add("builtin.predicates", dict(name="bitflip", prob=1.0, expect=dict(is_quantum_channel=T, is_unital=T, choi_rank=1)), "bitflip/predicates/unitary-channel", function="bitflip")
    for q in (1, 2):
        add("builtin.predicates", dict(name="pauli_channel", q=q, seed=seed, expect=dict(is_completely_positive=T, is_herm_preserving=T, is_positive=T, choi_rank=4**q)), "pauli_channel/predicates/choi-return-type", function="pauli_channel")
        add("builtin.predicates", dict(name="pauli_channel", q=q, seed=seed, expect=dict(is_quantum_channel=T)), "pauli_channel/predicates/choi-return-type/is_quantum_channel", function="pauli_channel")
        add("builtin.predicates", dict(name="pauli_channel", q=q, seed=seed, expect=dict(is_trace_preserving=T)), "pauli_channel/predicates/choi-return-type/is_trace_preserving", function="pauli_channel")
        add("builtin.predicates", dict(name="pauli_channel", q=q, seed=seed, expect=dict(is_unital=T)), "pauli_channel/predicates/choi-return-type/is_unital", function="pauli_channel")
        add("builtin.predicates", dict(name="pauli_channel", q=q, seed=seed, expect=dict(is_unitary=F)), "pauli_channel/predicates/choi-return-type/is_unitary", function="pauli_channel")
    return out


# =============================================================================================
# deductive part (prover side), its replay clause, and the tolerance-semantics cases (main agent)
# =============================================================================================
from props.C06_prove import EXTRA_CLAUSES as _EXTRA  # noqa: E402
from props.C06_prove import extra_cases as _extra_cases  # noqa: E402
from props.C06_prove import prove  # noqa: E402,F401

CLAUSES.update(_EXTRA)
_cases_bounded = cases


def cases(tier, seed):  # noqa: F811
    return _cases_bounded(tier, seed) + _extra_cases(tier, seed)


LEVEL = "other"
ENGINES = ["E1-pyvc", "E3-E4-rtc"]
LEVEL_TEXT = ("Mixed. Proved (E1-term, Choi-matrix branch, over callee contracts): is_positive, is_herm_preserving, is_completely_positive, is_trace_preserving and "
              "is_quantum_channel reduce to the stated matrix predicates with rtol / atol / sys / dim reaching the same-named parameters of their callees. Every verdict against "
              "constructed ground truth, the remaining built-in channel formulas and the tolerance semantics are bounded run-time contract checks. Also proved (E1-array/bilinear, "
              "all dimensions d and all parameter values p): depolarizing, dephasing and reduction return their textbook Choi matrices, and - composed with apply_channel's "
              "postcondition - act as X -> (1-p) Tr(X) I/d + p X, X -> (1-p) diag(X) + p X, X -> k Tr(X) I - X.")
EXPLANATION = LEVEL_TEXT
from props.C06_bilinear import ASSUMED as _BIL_ASSUMED  # noqa: E402

ASSUMPTIONS = list(ASSUMPTIONS) + list(_BIL_ASSUMED)
TECHNIQUE = "formula contracts over callee contracts (E1-term, z3) for the predicate plumbing + bounded run-time-checked contracts with ground truth by construction"


# =============================================================================================
# frame coverage shared by all properties (E2 obligations for every public function of the anchor files + run-time frame cases)
# =============================================================================================
from props import frame_all as _fa  # noqa: E402
from props.frame_common import frame_generic as _fg, frame_object as _fo  # noqa: E402

CLAUSES.setdefault("frame.generic", _fg)
CLAUSES.setdefault("frame.object", _fo)
_cases_before_frames = cases
_prove_before_frames = globals().get("prove")


def cases(tier, seed):  # noqa: F811
    return _cases_before_frames(tier, seed) + _fa.frame_cases(ID, seed)


def prove(tier, seed):  # noqa: F811
    from vt.pyvc.termproofs import merge

    b = _fa.prove_frames(ID, lambda s: _fa.frame_cases(ID, s))(tier, seed)
    if _prove_before_frames is None:
        return b
    return merge(_prove_before_frames(tier, seed), b)

if LEVEL == "exploration":
    LEVEL = "other"
LEVEL_TEXT = LEVEL_TEXT + (" Additionally proved (E2, taint analysis of the real AST): every public function and method in this property's anchor files writes through "
                           "no reference reachable from its arguments (or from self), so results do not depend on call order and callers' arrays / lists are not modified; "
                           "a run-time frame clause replays the same claim on concrete arguments.")
EXPLANATION = LEVEL_TEXT
if "E2-frame" not in globals().get("ENGINES", []):
    ENGINES = list(globals().get("ENGINES", ["E3-E4-rtc"])) + ["E2-frame"]
