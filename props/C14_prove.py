"""Deductive part of C14 (E1-array): the matrix whose rank / singular values give the Schmidt rank / decomposition of a
bipartite vector must be the amplitude matrix M[a, b] = v[a*d_B + b] (or its transpose), for ALL local dimensions d_A, d_B.
np.linalg.matrix_rank / np.linalg.svd are dependency contracts: rank and singular values are those of their argument and
are invariant under transposition."""


def _instances():
    import numpy as np
    import sympy as sp

    from contracts import index_layer as IL
    from vt import extract
    from vt.pyvc import index_proofs as IP
    from vt.pyvc import sym
    from vt.pyvc.driver import fine_index
    from vt.pyvc.interp import AbsArr, Ctx, Interp, Raised, Unsupported, explore_paths
    from vt.pyvc.prove import entries_equal, exprs_equal
    from vt.pyvc.sym import SymArray, Unaligned

    def run(fn_name, relpath, callee, form, src_override=None):
        # the claim is a disjunction (amplitude matrix OR its transpose); it is proved by case split on d_A == d_B
        return run_case(fn_name, relpath, callee, form, src_override, equal=False) + run_case(fn_name, relpath, callee, form, src_override, equal=True)

    def run_case(fn_name, relpath, callee, form, src_override, equal):
        src = src_override or extract.Source(relpath)
        fn = src.function(fn_name)
        records = []
        label = "%s vector form=%s, all %s" % (fn_name, form, "d_A == d_B" if equal else "d_A != d_B")

        def run_one(forced):
            sym.reset_world()
            dA, dB = IP.atoms("d", 2)
            if equal:
                dB = dA
            N = dA * dB
            v = IP.X_of((N,) if form == "flat" else (N, sp.Integer(1)), "v")
            ctx = Ctx([sp.Ge(dA, 1), sp.Ge(dB, 1), sp.Ge(N, 2)] + ([] if equal else [sp.Ne(dA, dB)]), forced)
            seen = []

            def lapack(interp, args, kw):
                seen.append(args[0])
                if callee == "np.linalg.svd":
                    return (AbsArr(None), AbsArr(None), AbsArr(None))
                return sp.Symbol("rank", integer=True, nonnegative=True)

            it = Interp({fn_name: fn}, {callee: lapack}, ctx)
            outcome = "ok"
            try:
                it.call_function(fn_name, [v, [dA, dB]], {})
            except Raised as r:
                ctx.obligations.append(dict(kind="raise-unreachable", text="no path reaches `%s`" % r.text, status="refuted", backend="z3"))
            except (Unsupported, Unaligned) as u:
                if not seen:
                    ctx.obligations.append(dict(kind="scaffold-subset", text="body left the verified subset before the LAPACK call: %s" % u, status="undecided", backend="-"))
            except Exception as u:
                if not seen:
                    ctx.obligations.append(dict(kind="scaffold-subset", text="engine error %s: %s" % (type(u).__name__, str(u)[:150]), status="undecided", backend="-"))
            if seen:
                X = seen[0]
                amp = SymArray((dA, dB), lambda idx: v.get((sym.Num(sym.as_num(idx[1], dB).terms + sym.as_num(idx[0], dA).terms),) + ((sp.Integer(0),) if form == "column" else ())))
                done = False
                last = None
                for orient in ("amplitude", "transpose"):
                    try:
                        if not isinstance(X, SymArray) or X.ndim != 2:
                            last = dict(status="refuted", backend="structural", model=None, detail="argument of %s is not a matrix" % callee, ms=0.0)
                            break
                        spec = amp if orient == "amplitude" else amp.T
                        ok_shape = all(exprs_equal(ctx, X.shape[i], spec.shape[i])["status"] == "discharged" for i in range(2))
                        if not ok_shape:
                            last = dict(status="refuted", backend="z3", model=None, detail="shape %s is neither (d_A, d_B) nor (d_B, d_A)" % (X.shape,), ms=0.0)
                            continue
                        sym.world().free.clear()
                        sym.world().subst.clear()
                        I, _ = fine_index([spec.shape[0]], "k")
                        J, _ = fine_index([spec.shape[1]], "l")
                        res = entries_equal(ctx, X.get((I, J)), spec.get((I, J)), minimise=[dA, dB])
                        res.pop("side", None)
                        last = res
                        if res["status"] == "discharged":
                            done = True
                            break
                    except (Unaligned, Unsupported) as u:
                        last = dict(status="undecided", backend="-", model=None, detail="unaligned: %s" % u, ms=0.0)
                ctx.obligations.append(dict(kind="call-site-pre", text="the matrix handed to %s is the amplitude matrix M[a,b] = v[a*d_B + b] or its transpose" % callee, **last))
            return ctx, outcome

        try:
            paths = explore_paths(run_one)
        except Unsupported as u:
            return [dict(function=fn_name, instance=label, kind="scaffold-subset", text=str(u), status="undecided", backend="-", claim=False, ms=0.0, model=None)]
        for ctx, _ in paths:
            for ob in ctx.obligations:
                ob = dict(ob)
                ob.update(function=fn_name, instance=label, claim=ob["kind"] in ("call-site-pre", "raise-unreachable"))
                ob.setdefault("ms", 0.0)
                ob.setdefault("model", None)
                if ob["status"] != "discharged":
                    ob["replay"] = [dict(clause="schmidt.amplitude_matrix", function=fn_name, input_class="%s/vector/%s" % (fn_name, "x".join(map(str, d))), params=dict(fn=fn_name, dims=d, form=form)) for d in ([2, 3], [3, 2], [2, 4], [3, 4])]
                records.append(ob)
        return records

    return run


def prove(tier, seed):
    from vt.pyvc.termproofs import merge, prove_terms

    a = prove_index(tier, seed)
    b = prove_terms(["purity", "l1_norm_coherence", "negativity", "log_negativity", "concurrence"], [("purity", "np.linalg.matrix_power(rho, 2)", "np.linalg.matrix_power(rho, 3)"), ("concurrence", "np.abs(np.sqrt(eig_vals))", "np.abs(eig_vals)"), ("l1_norm_coherence", "- np.trace(rho)", "- 1"), ("negativity", 'ord="nuc") - 1) / 2', 'ord="nuc") - 1)'), ("log_negativity", "partial_transpose(rho, [1], dim)", "partial_transpose(rho, [0, 1], dim)")], "thorough", "c14t", replay_clause="term.formula14")
    return merge(a, b)


def prove_index(tier, seed):
    from vt import extract

    run = _instances()
    targets = [("schmidt_rank", "toqito/state_props/schmidt_rank.py", "np.linalg.matrix_rank"), ("schmidt_decomposition", "toqito/state_ops/schmidt_decomposition.py", "np.linalg.svd")]
    records = []
    for fn, rel, callee in targets:
        for form in ("flat", "column"):
            records += run(fn, rel, callee, form)
    planted = {"tried": 0, "refuted": 0, "survivors": [], "anchors_missing": [], "detail": []}
    for fn, rel, callee, old, new in [("schmidt_decomposition", "toqito/state_ops/schmidt_decomposition.py", "np.linalg.svd", 'rho.reshape(dim[::-1].astype(int), order="F")', "rho.reshape(dim[::-1].astype(int))")]:
        src = extract.Source(rel)
        try:
            m = src.mutated(old, new)
        except KeyError:
            planted["anchors_missing"].append(fn + ": " + old)
            continue
        bad = [x for x in run(fn, rel, callee, "flat", m) if x["status"] != "discharged"]
        planted["tried"] += 1
        if bad:
            planted["refuted"] += 1
            planted["detail"].append({"mutant": "%s: %s -> %s" % (fn, old, new), "not_discharged": len(bad), "first": bad[0]["text"][:100]})
        else:
            planted["survivors"].append(fn + ": " + old)
    for i, x in enumerate(records):
        x["_id"] = "c14.%d" % i
        x["clean"] = True
    per = {fn: sum(1 for x in records if x.get("claim") and x["function"] == fn) for fn, _, _ in targets}
    sc = {"nonzero_claim_obligations": {"ok": all(v > 0 for v in per.values()), "detail": per}, "planted_bugs_all_refuted": {"ok": planted["tried"] == planted["refuted"], "detail": planted}}
    return dict(records=records, functions=[extract.Source(rel).info(fn) for fn, rel, _ in targets], instances=4, planted=planted, selfchecks=sc)


def schmidt_amplitude_matrix(p):
    """bounded replay clause: Schmidt rank / coefficients of vectors with prescribed Schmidt data on unequal dimensions"""
    import numpy as np

    from vt.contract import Violation

    dA, dB = p["dims"]
    rng = np.random.default_rng(p.get("seed", 0))
    for r in range(1, min(dA, dB) + 1):
        UA = np.linalg.qr(rng.standard_normal((dA, dA)) + 1j * rng.standard_normal((dA, dA)))[0]
        UB = np.linalg.qr(rng.standard_normal((dB, dB)) + 1j * rng.standard_normal((dB, dB)))[0]
        s = np.sort(rng.random(r) + 0.2)[::-1]
        s = s / np.linalg.norm(s)
        v = sum(s[i] * np.kron(UA[:, i], UB[:, i]) for i in range(r))
        vec = v if p.get("form") == "flat" else v.reshape(-1, 1)
        if p["fn"] == "schmidt_rank":
            from toqito.state_props import schmidt_rank

            got = schmidt_rank(vec, [dA, dB])
            if int(got) != r:
                raise Violation("schmidt_rank = %s for a %dx%d vector built with %d Schmidt coefficients" % (got, dA, dB, r))
        else:
            from toqito.state_ops import schmidt_decomposition

            sv, a, b = schmidt_decomposition(vec, [dA, dB])
            if len(sv) != r or not np.allclose(np.sort(np.ravel(sv))[::-1], s, atol=1e-8):
                raise Violation("schmidt_decomposition coefficients %s, constructed %s" % (np.ravel(sv), s))


schmidt_amplitude_matrix.function = "schmidt_rank"


def term_formula14(p):
    """bounded replay of the term contracts of purity / l1_norm_coherence"""
    import numpy as np

    from vt.contract import Violation

    rng = np.random.default_rng(p.get("seed", 0))
    for d in (2, 3, 4):
        g = rng.standard_normal((d, d)) + 1j * rng.standard_normal((d, d))
        rho = g @ g.conj().T
        rho /= np.trace(rho)
        if p["fn"] in ("negativity", "log_negativity"):
            import toqito.state_props as sprops

            if d == 3:
                continue
            da = 2
            db = 2 if d == 2 else 3
            n = da * db
            g2 = rng.standard_normal((n, n)) + 1j * rng.standard_normal((n, n))
            r2 = g2 @ g2.conj().T
            r2 /= np.trace(r2)
            pt = r2.reshape(da, db, da, db).transpose(0, 3, 2, 1).reshape(n, n)
            tn = float(np.sum(np.linalg.svd(pt, compute_uv=False)))
            got = getattr(sprops, p["fn"])(r2, [da, db])
            exp = (tn - 1) / 2 if p["fn"] == "negativity" else float(np.log2(tn))
        elif p["fn"] == "concurrence":
            from toqito.state_props import concurrence

            if d != 4:
                continue
            y = np.array([[0, -1j], [1j, 0]])
            yy = np.kron(y, y)
            lam = np.sort(np.abs(np.sqrt(np.linalg.eigvals(rho @ yy @ rho.conj() @ yy).astype(complex))))[::-1]
            got, exp = concurrence(rho), float(max(0.0, lam[0] - lam[1] - lam[2] - lam[3]))
            # a pure state with Schmidt coefficients (c, s): concurrence 2 c s
            th = 0.3 + 0.1 * p.get("seed", 0) % 1.0
            v = np.array([np.cos(th), 0, 0, np.sin(th)], dtype=complex)
            c2 = concurrence(np.outer(v, v.conj()))
            if abs(c2 - 2 * np.cos(th) * np.sin(th)) > 1e-8:
                raise Violation("concurrence of cos t |00> + sin t |11> = %s, closed form 2 cos t sin t = %s" % (c2, 2 * np.cos(th) * np.sin(th)))
        elif p["fn"] == "purity":
            from toqito.state_props import purity

            got, exp = purity(rho), float(np.real(np.trace(rho @ rho)))
        else:
            from toqito.state_props import l1_norm_coherence

            got, exp = l1_norm_coherence(rho), float(np.sum(np.abs(rho)) - np.sum(np.abs(np.diag(rho))))
        if abs(complex(got) - exp) > 1e-8:
            raise Violation("%s = %s, definition gives %s" % (p["fn"], got, exp))


term_formula14.function = "state_props"
EXTRA_CLAUSES = {"schmidt.amplitude_matrix": schmidt_amplitude_matrix, "term.formula14": term_formula14}
