"""Deductive part of C20 (E1-term over callee contracts): diamond_distance is the cb trace norm of the Choi difference and the cb spectral norm is the
cb trace norm of the dual map."""


def term_formula20(p):
    import numpy as np

    from toqito.channel_metrics import completely_bounded_spectral_norm, completely_bounded_trace_norm, diamond_distance
    from toqito.channel_ops import dual_channel, kraus_to_choi
    from vt.contract import Undecided, Violation

    rng = np.random.default_rng(p.get("seed", 0))

    def unitary():
        g = rng.standard_normal((2, 2)) + 1j * rng.standard_normal((2, 2))
        return np.linalg.qr(g)[0]

    for _ in range(3):
        J1, J2 = kraus_to_choi([unitary()]), kraus_to_choi([unitary()])
        try:
            a, b = diamond_distance(J1, J2), completely_bounded_trace_norm(J1 - J2)
            H = J1 - 0.5 * J2
            c, d = completely_bounded_spectral_norm(H), completely_bounded_trace_norm(dual_channel(H))
        except (ArithmeticError, ZeroDivisionError) as e:
            raise Undecided("solver breakdown: %s" % e)
        if abs(a - b) > 2e-5 * max(1, abs(b)):
            raise Violation("diamond_distance = %.6f, cb trace norm of the difference = %.6f" % (a, b))
        if abs(c - d) > 2e-5 * max(1, abs(d)):
            raise Violation("cb spectral norm = %.6f, cb trace norm of the dual = %.6f" % (c, d))


term_formula20.function = "channel_metrics"
EXTRA_CLAUSES = {"term.formula20": term_formula20}


def prove(tier, seed):
    from vt.pyvc.termproofs import prove_terms

    muts = [("diamond_distance", "completely_bounded_trace_norm(choi_1 - choi_2)", "completely_bounded_trace_norm(choi_1 - choi_2) / 2"), ("completely_bounded_spectral_norm", "completely_bounded_trace_norm(dual_channel(phi))", "completely_bounded_trace_norm(phi)")]
    a = prove_terms(["diamond_distance", "completely_bounded_spectral_norm"], muts, tier, "c20", replay_clause="term.formula20")
    # E1-prog: the SDP branch of completely_bounded_trace_norm (Watrous' program, value = optimum / 2) and channel_fidelity's program
    import importlib

    from props.sdp_prove import prove_metrics
    from vt.pyvc.termproofs import merge

    mod = importlib.import_module("props.C20")
    gen = getattr(mod, "_cases_before_frames", None) or mod.cases
    rep = []
    seen = {}
    for c in gen("quick", seed):
        k = c.get("clause", "")
        if not (k.startswith("cbtn.") or k.startswith("cf.")) or seen.get(k, 0) >= 6:
            continue
        seen[k] = seen.get(k, 0) + 1
        rep.append(dict(c, function="completely_bounded_trace_norm" if k.startswith("cbtn.") else "channel_fidelity"))
    return merge(a, prove_metrics(rep, "c20p", tier))
