"""E1-array with the bilinear extension (vt/pyvc/bilinear.py): the channel operations of C04 / C05 proved against index-level
specifications for ALL dimensions -- the real source of apply_channel, partial_channel, kraus_to_choi, natural_representation,
channel_dim (Kraus forms), max_entangled and dual_channel is executed symbolically; callees are seen through their contracts
(apply_channel / partial_channel / permute_systems / swap / vec / tensor), each contract being proved for its own function.

What is enumerated (not quantified): the number of Kraus operators (1..3), the representation form, the number of tensor factors (1..3) and
the target position.  What is universally quantified: every dimension (row / column, input / output, before / after blocks) and every entry.

Lemmas over the contracts (no code is run; they connect the per-function postconditions to the wording of the property):
  L-rep     apply(X, choi(A, B)) == sum_i A_i X B_i^dagger           (Choi form and Kraus form of the same map act alike)
  L-nat     natrep(K) @ vec_row(X) == vec_row(sum_i K_i X K_i^dagger)
  L-adj     <Y, Phi(X)> == <Phi*(Y), X>   for Kraus pairs and for Choi matrices (Phi* as returned by dual_channel's contract)
  L-dd      dual(dual(J)) == J
"""
from __future__ import annotations

M = "toqito.channel_ops"
REL = {
    "apply_channel": "toqito/channel_ops/apply_channel.py",
    "partial_channel": "toqito/channel_ops/partial_channel.py",
    "kraus_to_choi": "toqito/channel_ops/kraus_to_choi.py",
    "natural_representation": "toqito/channel_ops/natural_representation.py",
    "channel_dim": "toqito/helper/channel_dim.py",
    "max_entangled": "toqito/states/max_entangled.py",
    "dual_channel": "toqito/channel_ops/dual_channel.py",
    "complementary_channel": "toqito/channel_ops/complementary_channel.py",
}
ASSUMED = [
    "complementary_channel: the guard np.allclose(sum_i K_i^dagger K_i, I) is taken to be True (it is the function's documented precondition; the float comparison itself is outside the index calculus) -- the rejection side is a bounded clause (comp.rejects)",
    "numpy semantics assumed by the bilinear calculus: np.kron, @, np.concatenate, np.vstack, np.identity / np.eye, np.sum(list, axis=0), .conj(), .T act entrywise as their textbook index formulas (cross-checked against numpy on concrete shapes by the model self-check)",
    "entries are elements of a commutative ring with conjugation (exact arithmetic): floating-point rounding of the sums is not modelled",
    "the number of Kraus operators (1..3), the representation form and the number of tensor factors (1..3) are enumerated, not quantified",
]


def _sources(over=None):
    from vt import extract

    out = {k: extract.Source(v) for k, v in REL.items()}
    out.update(over or {})
    return out


def _atoms():
    from vt.pyvc import index_proofs as IP

    return IP.atoms("d", 8)


def _kraus(form, nk, A_shape, B_shape):
    from vt.pyvc import index_proofs as IP

    As = [IP.X_of(A_shape, "A%d" % i) for i in range(nk)]
    Bs = [IP.X_of(B_shape, "B%d" % i) for i in range(nk)]
    phi = {"flat": As, "col": [[a] for a in As], "row": [As], "pairs": [[a, b] for a, b in zip(As, Bs)]}[form]
    return phi, As, (Bs if form == "pairs" else As)


def _lr(form, phi):
    if form == "pairs":
        return [p[0] for p in phi], [p[1] for p in phi]
    L = phi if form == "flat" else [k for g in phi for k in g]
    return L, L


KFORMS_QUICK = (("flat", 1), ("flat", 2), ("flat", 3), ("col", 2), ("row", 3), ("pairs", 1), ("pairs", 2), ("pairs", 3))
KFORMS_THOROUGH = KFORMS_QUICK + (("flat", 4), ("flat", 5), ("col", 4), ("row", 5), ("pairs", 4), ("pairs", 5))
KFORMS = KFORMS_QUICK


def set_tier(tier):
    """the thorough tier enumerates Kraus families of up to 5 operators"""
    global KFORMS
    KFORMS = KFORMS_THOROUGH if tier == "thorough" else KFORMS_QUICK


# ---------------------------------------------------------------------------------------------
# instances
# ---------------------------------------------------------------------------------------------
def inst_apply(S):
    import sympy as sp

    from contracts import index_layer as IL
    from vt.pyvc import index_proofs as IP
    from vt.pyvc.driver import verify_instance

    r1, mr, r2, c1, mc, c2, pr, pc = _atoms()
    fn = {"apply_channel": S["apply_channel"].function("apply_channel")}
    out = []
    for rect in (True, False):
        mcc, pcc = (mc, pc) if rect else (mr, pr)

        def mk(mcc=mcc, pcc=pcc):
            return [IP.X_of((mr, mcc), "X"), IP.X_of((mr * pr, mcc * pcc), "J")], {}, [sp.Ge(mr * pr, 2), sp.Ge(mcc * pcc, 2)]

        out.append(("apply_channel", "apply_channel(X, Choi matrix), %s operator spaces, all dimensions for which the Choi matrix has at least 2 rows and 2 columns (a one-column Choi matrix is mis-read: F-04e)" % ("rectangular" if rect else "square"), fn, {"vec": IL.summary_vec, "swap": IL.summary_swap}, mk, (lambda a, k, pcc=pcc: IL.spec_apply_choi(a[0], a[1], pr, pcc)), (lambda a, k, pcc=pcc: [[pr], [pcc]])))
    for form, nk in KFORMS:
        sq = form != "pairs"
        mcc, pcc = (mr, pr) if sq else (mc, pc)

        def mk2(form=form, nk=nk, mcc=mcc, pcc=pcc):
            phi, _, _ = _kraus(form, nk, (pr, mr), (pcc, mcc))
            return [IP.X_of((mr, mcc), "X"), phi], {}, []

        out.append(("apply_channel", "apply_channel(X, Kraus %s, %d operator%s), all dimensions" % (form, nk, "s" if nk > 1 else ""), fn, {}, mk2, (lambda a, k, form=form: IL.spec_apply_kraus(a[0], *_lr(form, a[1]))), (lambda a, k, pcc=pcc: [[pr], [pcc]])))
    return [(f, lab, fns, con, mk_, sp_, ax, [mr, mc, pr, pc]) for f, lab, fns, con, mk_, sp_, ax in out]


def _layout(n, sysn, rect):
    import sympy as sp

    r1, mr, r2, c1, mc, c2, pr, pc = _atoms()
    before, after = sysn > 1, sysn < n
    R = [r1] * before + [mr] + [r2] * after
    C = [c1] * before + [mc] + [c2] * after
    if n == 3 and sysn == 1:
        R, C = [mr, r1, r2], [mc, c1, c2]
    if n == 3 and sysn == 3:
        R, C = [r1, r2, mr], [c1, c2, mc]
    if not rect:
        C = list(R)
    mcc, pcc = (mc, pc) if rect else (mr, pr)

    def blocks(D, m):
        i = D.index(m)
        b = a = sp.Integer(1)
        for x in D[:i]:
            b *= x
        for x in D[i + 1 :]:
            a *= x
        return (b, m, a)

    return R, C, mcc, pcc, blocks(R, mr), blocks(C, mcc)


LAYOUTS = ((1, 1), (2, 1), (2, 2), (3, 1), (3, 2), (3, 3))


def inst_partial(S):
    import sympy as sp

    from contracts import index_layer as IL
    from vt.pyvc import index_proofs as IP
    from vt.pyvc.driver import verify_instance

    r1, mr, r2, c1, mc, c2, pr, pc = _atoms()
    fns = {"partial_channel": S["partial_channel"].function("partial_channel"), "max_entangled": S["max_entangled"].function("max_entangled")}
    out = []
    for form, nk, rect in (("flat", 2, False), ("col", 2, False), ("row", 3, False), ("pairs", 2, True), ("pairs", 1, False), ("choi", 0, True), ("choi", 0, False)):
        for n, sysn in LAYOUTS:
            R, C, mcc, pcc, br, bc = _layout(n, sysn, rect)

            def mk(form=form, nk=nk, R=R, C=C, mcc=mcc, pcc=pcc, sysn=sysn, rect=rect):
                rho = IP.X_of((sp.prod(R), sp.prod(C)), "rho")
                if form == "choi":
                    phi = IP.X_of((mr * pr, mcc * pcc), "J")
                    hyp = [sp.Ge(mr * pr, 2), sp.Ge(mcc * pcc, 2)]
                else:
                    phi, _, _ = _kraus(form, nk, (pr, mr), (pcc, mcc))
                    hyp = []
                return [rho, phi, sysn, ([list(R), list(C)] if rect else list(R))], {}, hyp

            def spec(a, k, form=form, br=br, bc=bc):
                if form == "choi":
                    return IL.spec_partial_choi(a[0], a[1], br, bc)
                return IL.spec_partial_kraus(a[0], *_lr(form, a[1]), br, bc)

            def axes(a, k, R=R, C=C, mcc=mcc, pcc=pcc):
                return [[pr if x is mr else x for x in R], [(pcc if x is mcc else x) for x in C]]

            lab = "partial_channel(rho, %s, sys=%d of %d, dim %s), all dimensions%s" % ("Choi matrix" if form == "choi" else "Kraus %s x%d" % (form, nk), sysn, n, "two-row" if rect else "list", " for which the Choi matrix has at least 2 rows and 2 columns" if form == "choi" else "")
            out.append(("partial_channel", lab, fns, {"apply_channel": IL.summary_apply_channel, "permute_systems": IL.summary_permute_systems}, mk, spec, axes, [r1, mr, r2, c1, mc, c2, pr, pc]))
    return out


def inst_k2c(S):
    from contracts import index_layer as IL

    r1, mr, r2, c1, mc, c2, pr, pc = _atoms()
    fns = {"kraus_to_choi": S["kraus_to_choi"].function("kraus_to_choi"), "channel_dim": S["channel_dim"].function("channel_dim"), "_expand_dim": S["channel_dim"].function("_expand_dim"), "max_entangled": S["max_entangled"].function("max_entangled")}
    out = []
    for form, nk in KFORMS:
        for sysn in (2, 1):
            pcc, mcc = (pc, mc) if form == "pairs" else (pr, mr)

            def mk(form=form, nk=nk, sysn=sysn, pcc=pcc, mcc=mcc):
                phi, _, _ = _kraus(form, nk, (pr, mr), (pcc, mcc))
                return [phi] + ([sysn] if sysn != 2 else []), {}, []

            out.append(("kraus_to_choi", "kraus_to_choi(Kraus %s x%d, sys=%d), all dimensions" % (form, nk, sysn), fns, {"partial_channel": IL.summary_partial_channel}, mk, (lambda a, k, form=form, sysn=sysn: IL.spec_kraus_to_choi(*_lr(form, a[0]), sysn)), (lambda a, k, sysn=sysn, pcc=pcc, mcc=mcc: [[mr, pr], [mcc, pcc]] if sysn == 2 else [[pr, mr], [pcc, mcc]]), [mr, mc, pr, pc]))
    return out


def inst_natrep(S):
    from contracts import index_layer as IL
    from vt.pyvc import index_proofs as IP

    r1, mr, r2, c1, mc, c2, pr, pc = _atoms()
    fns = {"natural_representation": S["natural_representation"].function("natural_representation")}
    out = []
    for nk in (1, 2, 3):
        out.append(("natural_representation", "natural_representation(%d Kraus operator%s), all dimensions" % (nk, "s" if nk > 1 else ""), fns, {"tensor": IL.summary_tensor2}, (lambda nk=nk: ([[IP.X_of((pr, mr), "K%d" % i) for i in range(nk)]], {}, [])), (lambda a, k: IL.spec_natural_representation(a[0])), (lambda a, k: [[pr, pr], [mr, mr]]), [mr, pr]))
    return out


def inst_dual_kraus(S):
    from contracts import index_layer as IL

    r1, mr, r2, c1, mc, c2, pr, pc = _atoms()
    fns = {"dual_channel": S["dual_channel"].function("dual_channel")}
    out = []
    for form, nk in (("flat", 1), ("flat", 3), ("pairs", 1), ("pairs", 2), ("col", 2), ("row", 3)):
        pcc, mcc = (pc, mc) if form == "pairs" else (pr, mr)

        def mk(form=form, nk=nk, pcc=pcc, mcc=mcc):
            phi, _, _ = _kraus(form, nk, (pr, mr), (pcc, mcc))
            return [phi], {}, []

        def spec(a, k):
            def dag(x):
                return [dag(y) for y in x] if isinstance(x, list) else x.conj().T

            return dag(a[0])

        def axes(a, k, pcc=pcc, mcc=mcc, form=form):
            def ax(x, second=False):
                if isinstance(x, list):
                    return [ax(y, second=(form == "pairs" and i == 1)) for i, y in enumerate(x)]
                return [[mcc], [pcc]] if second else [[mr], [pr]]

            return ax(a[0])

        out.append(("dual_channel", "dual_channel(Kraus %s x%d): every operator replaced by its conjugate transpose, nesting kept; all dimensions" % (form, nk), fns, {}, mk, spec, axes, [mr, mc, pr, pc]))
    return out


def _allclose_assumed(interp, args, kw):
    from contracts import index_layer as IL

    IL.pre(interp, "np.allclose(sum K^dagger K, I) holds: assumed (documented precondition of complementary_channel)", True)
    return True


def spec_complementary(ks, d):
    """complementary_channel(K): a list of d operators, C_row[i, c] == K_i[row, c]"""
    import sympy as sp

    from vt.pyvc import bilinear as BL
    from vt.pyvc import sym

    def elem(j):
        jn = sym.Num([(j, d)]) if not isinstance(j, sym.Num) else j
        return BL.stack_rows([sym.SymArray((d,), (lambda K: (lambda idx: K.get((jn, idx[0]))))(K)) for K in ks])

    return ("symlist", d, elem, [[sp.Integer(len(ks))], [d]])


def inst_comp(S):
    from vt.pyvc import index_proofs as IP

    r1, mr, r2, c1, mc, c2, pr, pc = _atoms()
    fns = {"complementary_channel": S["complementary_channel"].function("complementary_channel")}
    out = []
    for nk in (1, 2, 3):
        out.append(("complementary_channel", "complementary_channel(%d Kraus operator%s): operator `row` stacks row `row` of every K_i; all dimensions" % (nk, "s" if nk > 1 else ""), fns, {"np.allclose": _allclose_assumed}, (lambda nk=nk: ([[IP.X_of((mr, mr), "K%d" % i) for i in range(nk)]], {}, [])), (lambda a, k: spec_complementary(a[0], mr)), (lambda a, k: None), [mr]))
    return out


GROUPS = {"complementary_channel": inst_comp, "apply_channel": inst_apply, "partial_channel": inst_partial, "kraus_to_choi": inst_k2c, "natural_representation": inst_natrep, "dual_channel": inst_dual_kraus}


def _run(job):
    from vt.pyvc.driver import verify_instance

    f, lab, fns, con, mk, spec, axes, atoms = job
    recs, ms = verify_instance(f, lab, fns, con, mk, spec, axes, atoms=atoms)
    for x in recs:
        x["clean"] = False  # a bilinear refutation is a candidate: it is reported only with an input replayed on the real code
        x["engine"] = "E1-array/bilinear"
    return recs


def records(groups, over=None, pool=True):
    """all obligation records of the named groups; `over` replaces sources (planted mutants)"""
    import multiprocessing as mp

    S = _sources(over)
    jobs = []
    for g in groups:
        jobs += GROUPS[g](S)
    if pool and len(jobs) > 4:
        ctxm = mp.get_context("fork")
        global _JOBS
        _JOBS = jobs
        with ctxm.Pool(min(16, len(jobs))) as p:
            res = p.map(_run_idx, range(len(jobs)), chunksize=1)
    else:
        res = [_run(j) for j in jobs]
    out = [x for r in res for x in r]
    for i, x in enumerate(out):
        x["_id"] = "bil.%s.%d" % (x["function"], i)
    return out


_JOBS = []


def _run_idx(i):
    return _run(_JOBS[i])


# ---------------------------------------------------------------------------------------------
# lemmas over the contracts
# ---------------------------------------------------------------------------------------------
def lemmas(which):
    import sympy as sp

    from contracts import index_layer as IL
    from vt.pyvc import bilinear as BL
    from vt.pyvc import index_proofs as IP
    from vt.pyvc import sym
    from vt.pyvc.driver import fine_index
    from vt.pyvc.interp import Ctx
    from vt.pyvc.prove import entries_equal

    r1, mr, r2, c1, mc, c2, pr, pc = _atoms()
    out = []

    def check(name, text, build, axes):
        sym.reset_world()
        ctx = Ctx([], ())
        try:
            lhs, rhs = build()
            idx = [fine_index(rad, "kxyz"[i])[0] for i, rad in enumerate(axes)]
            g, e = lhs.get(tuple(idx)), rhs.get(tuple(idx))
            if isinstance(g, BL.Poly) or isinstance(e, BL.Poly) or isinstance(g, sym.SumEntry):
                res = BL.polys_equal(ctx, g, e)
            else:
                res = entries_equal(ctx, g, e)
                res.pop("side", None)
        except Exception as ex:  # an engine error is never a verdict
            res = dict(status="undecided", backend="-", model=None, detail="%s: %s" % (type(ex).__name__, str(ex)[:200]), ms=0.0)
        out.append(dict(function="(lemma over contracts)", instance=name, kind="lemma", text=text, claim=True, clean=False, engine="E1-array/bilinear", path=0, **res))

    def inner(Y, Z):
        """<Y, Z> = sum_{p,j} conj(Y[p,j]) Z[p,j] as a 1x1 array"""

        def g(idx):
            W = sym.world()
            p, j = W.fresh_digit("p", Y.shape[0]), W.fresh_digit("j", Y.shape[1])
            pn, jn = sym.Num([(p, Y.shape[0])]), sym.Num([(j, Y.shape[1])])
            body = BL.p_mul(BL.p_conj(Y.get((pn, jn))), Z.get((pn, jn)))
            return BL.Poly([BL.Term(t.coef, t.factors, t.deltas, list(t.bound) + [(p, Y.shape[0]), (j, Y.shape[1])]) for t in body.terms])

        return sym.SymArray((sp.Integer(1), sp.Integer(1)), g, "poly")

    def pairs(nk):
        return [IP.X_of((pr, mr), "A%d" % i) for i in range(nk)], [IP.X_of((pc, mc), "B%d" % i) for i in range(nk)]

    if which == "C04":
        for nk in (1, 2, 3):
            for sysn in (2, 1):
                if sysn == 1:
                    continue  # apply_channel reads a Choi matrix in the sys=2 convention only
                def b(nk=nk):
                    A, B = pairs(nk)
                    X = IP.X_of((mr, mc), "X")
                    return IL.spec_apply_choi(X, IL.spec_kraus_to_choi(A, B, 2), pr, pc), IL.spec_apply_kraus(X, A, B)

                check("L-rep nk=%d" % nk, "apply(X, choi(A, B)) == sum_i A_i X B_i^dagger for all dimensions (postconditions of kraus_to_choi and apply_channel composed)", b, [[pr], [pc]])

            def b2(nk=nk):
                K = [IP.X_of((pr, mr), "K%d" % i) for i in range(nk)]
                X = IP.X_of((mr, mr), "X")
                lhs = BL.matmul(IL.spec_natural_representation(K), X.reshape((mr * mr, sp.Integer(1)), "C"))
                rhs = IL.spec_apply_kraus(X, K, K).reshape((pr * pr, sp.Integer(1)), "C")
                return lhs, rhs

            check("L-nat nk=%d" % nk, "natrep(K) @ vec_row(X) == vec_row(sum_i K_i X K_i^dagger) for all dimensions", b2, [[pr, pr], []])
    else:
        for nk in (1, 2, 3):

            def b(nk=nk):
                A, B = pairs(nk)
                X, Y = IP.X_of((mr, mc), "X"), IP.X_of((pr, pc), "Y")
                dA, dB = [a.conj().T for a in A], [b_.conj().T for b_ in B]
                return inner(Y, IL.spec_apply_kraus(X, A, B)), inner(IL.spec_apply_kraus(Y, dA, dB), X)

            check("L-adj Kraus nk=%d" % nk, "<Y, Phi(X)> == <Phi*(Y), X> with Phi* the operator-wise conjugate transpose (dual_channel's Kraus postcondition), all dimensions", b, [[], []])

        def b3():
            J = IP.X_of((mr * pr, mc * pc), "J")
            X, Y = IP.X_of((mr, mc), "X"), IP.X_of((pr, pc), "Y")
            Jd = IL.spec_dual_choi(J, [mr, mc], [pr, pc])
            return inner(Y, IL.spec_apply_choi(X, J, pr, pc)), inner(IL.spec_apply_choi(Y, Jd, mr, mc), X)

        check("L-adj Choi", "<Y, Phi_J(X)> == <Phi_{dual(J)}(Y), X> with dual(J) as in dual_channel's Choi postcondition, all dimensions", b3, [[], []])

        def b4():
            J = IP.X_of((mr * pr, mc * pc), "J")
            return IL.spec_dual_choi(IL.spec_dual_choi(J, [mr, mc], [pr, pc]), [pr, pc], [mr, mc]), J

        check("L-dd Choi", "dual(dual(J)) == J entrywise, all dimensions", b4, [[mr, pr], [mc, pc]])

        for nk in (1, 2, 3):

            def b5(nk=nk):
                K = [IP.X_of((mr, mr), "K%d" % i) for i in range(nk)]
                rho = IP.X_of((mr, mr), "rho")
                _, d, elem, _ = spec_complementary(K, mr)

                def lhs(idx):  # (sum_row C_row rho C_row^dagger)[i, j]  -- apply_channel's Kraus postcondition summed over the symbolic list
                    W = sym.world()
                    row, r, c = W.fresh_digit("w", d), W.fresh_digit("r", d), W.fresh_digit("c", d)
                    C = elem(row)
                    rn, cn = sym.Num([(r, d)]), sym.Num([(c, d)])
                    body = BL.p_mul(BL.p_mul(C.get((idx[0], rn)), rho.get((rn, cn))), BL.p_conj(C.get((idx[1], cn))))
                    return BL.Poly([BL.Term(t.coef, t.factors, t.deltas, list(t.bound) + [(row, d), (r, d), (c, d)]) for t in body.terms])

                def rhs(idx):  # Tr(K_i rho K_j^dagger)
                    W = sym.world()
                    out_ = None
                    for i0 in range(nk):
                        for j0 in range(nk):
                            a, r, c = W.fresh_digit("a", d), W.fresh_digit("r", d), W.fresh_digit("c", d)
                            an, rn, cn = sym.Num([(a, d)]), sym.Num([(r, d)]), sym.Num([(c, d)])
                            body = BL.p_mul(BL.p_mul(K[i0].get((an, rn)), rho.get((rn, cn))), BL.p_conj(K[j0].get((an, cn))))
                            if nk > 1:
                                sel = BL.Poly([BL.Term(1, [], [(sym.as_num(idx[0], sp.Integer(nk)), sym.Num([(sp.Integer(i0), sp.Integer(nk))])), (sym.as_num(idx[1], sp.Integer(nk)), sym.Num([(sp.Integer(j0), sp.Integer(nk))]))])])
                                body = BL.p_mul(sel, body)
                            t = BL.Poly([BL.Term(t.coef, t.factors, t.deltas, list(t.bound) + [(a, d), (r, d), (c, d)]) for t in body.terms])
                            out_ = t if out_ is None else BL.p_add(out_, t)
                    return out_

                return sym.SymArray((sp.Integer(nk), sp.Integer(nk)), lhs, "poly"), sym.SymArray((sp.Integer(nk), sp.Integer(nk)), rhs, "poly")

            check("L-comp nk=%d" % nk, "entry (i, j) of sum_row C_row rho C_row^dagger equals Tr(K_i rho K_j^dagger) (complementary_channel's postcondition in apply_channel's), all dimensions", b5, [[sp.Integer(nk)], [sp.Integer(nk)]])
    for i, x in enumerate(out):
        x["_id"] = "bil.lemma.%s.%d" % (which, i)
    return out


# ---------------------------------------------------------------------------------------------
# planted mutants (in-memory source edits): every one must leave some obligation undischarged
# ---------------------------------------------------------------------------------------------
MUTANTS = {
    "C04": [
        ("apply_channel", 'order="F",\n        )\n        return a_mat @ b_mat', 'order="C",\n        )\n        return a_mat @ b_mat', ["apply_channel"]),
        ("apply_channel", "vec(mat).T[0]", "vec(mat.T).T[0]", ["apply_channel"]),
        ("apply_channel", "phi_1_list = [k_mat[1].conj().T for", "phi_1_list = [k_mat[1].T for", ["apply_channel"]),
        ("apply_channel", "np.kron(np.identity(len(phi_0_list)), mat)", "np.kron(mat, np.identity(len(phi_0_list)))", ["apply_channel"]),
        ("apply_channel", "[[mat_size[1], phi_size[1]], [mat_size[0], phi_size[0]]]", "[[phi_size[1], mat_size[1]], [phi_size[0], mat_size[0]]]", ["apply_channel"]),
        ("partial_channel", "np.kron(np.identity(prod_dim_c1), m[1])", "np.kron(np.identity(prod_dim_r1), m[1])", ["partial_channel"]),
        ("partial_channel", "prod_dim_r2 = int(np.prod(dim[0, sys:]))", "prod_dim_r2 = int(np.prod(dim[0, sys - 1 :]))", ["partial_channel"]),
        ("partial_channel", "[0, 2, 4, 1, 3, 5]", "[0, 2, 4, 1, 5, 3]", ["partial_channel"]),
        ("partial_channel", "phi_x = [list(litem) for litem in zip(phi_1, phi_2)]", "phi_x = [list(litem) for litem in zip(phi_2, phi_1)]", ["partial_channel"]),
        ("kraus_to_choi", "np.array([[dim_op_1, dim_op_1], [dim_op_2, dim_op_2]])", "np.array([[dim_op_2, dim_op_2], [dim_op_1, dim_op_1]])", ["kraus_to_choi"]),
        ("channel_dim", "dim_out[1], dim_in[1] = phi[0][1].shape", "dim_in[1], dim_out[1] = phi[0][1].shape", ["kraus_to_choi"]),
        ("natural_representation", "tensor(k, np.conjugate(k))", "tensor(np.conjugate(k), k)", ["natural_representation"]),
    ],
    "C05": [
        ("dual_channel", "return [[a.conj().T for a in x] for x in phi_op]", "return [[a.conj().T for a in reversed(x)] for x in phi_op]", ["dual_channel"]),
        ("dual_channel", "return [a.conj().T for a in phi_op]", "return [a.T for a in phi_op]", ["dual_channel"]),
        ("complementary_channel", "kraus_ops[i][row, :]", "kraus_ops[i][:, row]", ["complementary_channel"]),
        ("complementary_channel", "for i in range(num_kraus)]", "for i in reversed(range(num_kraus))]", ["complementary_channel"]),
    ],
}


def planted(which):
    out = {"tried": 0, "refuted": 0, "survivors": [], "anchors_missing": [], "detail": []}
    S0 = _sources()
    for key, old, new, groups in MUTANTS[which]:
        try:
            m = S0[key].mutated(old, new)
        except KeyError:
            out["anchors_missing"].append("%s: %s" % (key, old[:50]))
            continue
        bad = [x for x in records(groups, {key: m}) if x["status"] != "discharged"]
        out["tried"] += 1
        if bad:
            out["refuted"] += 1
            out["detail"].append({"mutant": "%s: %s -> %s" % (key, old[:60], new[:60]), "not_discharged": len(bad), "first": (bad[0]["instance"] + ": " + bad[0]["text"])[:160]})
        else:
            out["survivors"].append("%s: %s" % (key, old[:60]))
    return out


def replay_cases(function, seed=0):
    """bounded cases replayed when an obligation of `function` is not discharged (they attach a failing input of the real code)"""
    from props import C04, C05

    fnmap = {"apply_channel": ("C04", ("apply.action",)), "partial_channel": ("C04", ("partial.kron",)), "kraus_to_choi": ("C04", ("k2c.formula",)), "natural_representation": ("C04", ("natrep.vec",)), "dual_channel": ("C05", None), "complementary_channel": ("C05", ("comp.entry", "comp.trace"))}
    prop, clauses = fnmap.get(function, ("C04", ()))
    mod = C04 if prop == "C04" else C05
    cs = [c for c in mod.cases("quick", seed) if (clauses is None or c["clause"] in clauses) and c.get("params", {}).get("entries") != "sym"]
    if clauses is None:
        cs = [c for c in cs if "dual" in c["clause"] or "dual" in c.get("input_class", "")]
    for c in cs:
        c.setdefault("function", function)
    return cs[:60]
