"""Deductive part of C13 (E1-term): each thin wrapper in state_metrics computes its documented formula, proved over
uninterpreted library operations (assumed dependency contracts; machine arithmetic treated as mathematical)."""


def _numeric():
    import numpy as np

    def nuc(X):
        return float(np.sum(np.linalg.svd(X, compute_uv=False)))

    def msqrt(X):
        w, v = np.linalg.eigh((X + X.conj().T) / 2)
        return (v * np.sqrt(np.clip(w, 0, None))) @ v.conj().T

    def fid(r, s):
        q = msqrt(r)
        return float(np.real(np.sum(np.sqrt(np.clip(np.linalg.eigvalsh((q @ s @ q + (q @ s @ q).conj().T) / 2), 0, None)))))

    return {
        "trace_norm": lambda r, s: nuc(r - s) if s is not None else nuc(r),
        "trace_distance": lambda r, s: nuc(r - s) / 2,
        "helstrom_holevo": lambda r, s: 0.5 + nuc(r - s) / 4,
        "hilbert_schmidt": lambda r, s: float(np.real(np.trace((r - s) @ (r - s)))),
        "bures_distance": lambda r, s: float(np.sqrt(max(0.0, 2 * (1 - round(fid(r, s), 10))))),
        "bures_angle": lambda r, s: float(np.arccos(np.sqrt(min(1.0, round(fid(r, s), 10))))),
        "sub_fidelity": lambda r, s: float(np.real(np.trace(r @ s) + np.sqrt(2 * (np.trace(r @ s) ** 2 - np.trace(r @ s @ r @ s))))),
        "fidelity": fid,
        "hilbert_schmidt_inner_product": lambda r, s: complex(np.trace(r.conj().T @ s)),
        "purity": lambda r, s: float(np.real(np.trace(r @ r))),
    }


def term_formula(p):
    """bounded replay clause of the term contracts: the function equals its documented formula on random density matrices"""
    import importlib

    import numpy as np

    from vt.contract import Violation

    name = p["fn"]
    rng = np.random.default_rng(p.get("seed", 0))
    num = _numeric()[name]
    mod = {"trace_norm": "toqito.matrix_props", "purity": "toqito.state_props"}.get(name, "toqito.state_metrics")
    f = getattr(importlib.import_module(mod), name)
    for d in (2, 3, 4):
        for trial in range(4):
            def dm(rank):
                g = rng.standard_normal((d, rank)) + 1j * rng.standard_normal((d, rank))
                m = g @ g.conj().T
                return m / np.trace(m)

            r, s = dm(rng.integers(1, d + 1)), dm(rng.integers(1, d + 1))
            if name in ("trace_norm",):
                got, exp = f(r - s), num(r, s)
            elif name == "purity":
                got, exp = f(r), num(r, s)
            else:
                got, exp = f(r, s), num(r, s)
            if abs(complex(got) - complex(exp)) > 1e-6:
                raise Violation("%s = %s, documented formula gives %s (d=%d)" % (name, got, exp, d))


term_formula.function = "state_metrics"
EXTRA_CLAUSES = {"term.formula": term_formula}


C13_FUNCS = ["trace_norm", "trace_distance", "helstrom_holevo", "hilbert_schmidt", "bures_distance", "bures_angle", "sub_fidelity", "fidelity", "hilbert_schmidt_inner_product"]
MUTS = [
    ("helstrom_holevo", "1 / 2 + 1 / 2 * (trace_norm(rho - sigma)) / 2", "1 / 2 + 1 / 2 * (trace_norm(rho - sigma))"),
    ("trace_distance", "trace_norm(rho - sigma) / 2", "trace_norm(np.abs(rho - sigma)) / 2"),
    ("bures_distance", "2.0 * (1.0 - ", "2.0 * (1.0 + "),
    ("sub_fidelity", "np.trace(rho @ sigma @ rho @ sigma)", "np.trace(rho @ sigma @ sigma @ rho)"),
]


def prove(tier, seed):
    from vt.pyvc.termproofs import prove_terms

    return prove_terms(C13_FUNCS, MUTS, tier, "c13")
