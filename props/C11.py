"""C11 -- state exclusion values are certified optima and decide antidistinguishability (bounded run-time contracts)."""
from __future__ import annotations

ID = "C11"
TITLE = "state exclusion values are certified optima and decide antidistinguishability"
LEVEL = "exploration"
BUDGET = {"quick": 80, "thorough": 900}
ENGINES = ["E4-rtc"]
TECHNIQUE = "program contracts of the picos SDP builders and term contracts of the thin wrappers (VCs from the real AST, z3); frame clauses by taint analysis; run-time-checked contracts with weak-duality certificates over a bounded domain (bounded stand-in) for every value"
LEVEL_TEXT = (
    "Bounded only; nothing is proved. Every clause calls the real state_exclusion / is_antidistinguishable / common_quantum_overlap (and trine, "
    "pusey_barrett_rudolph for the named sets) and compares with an oracle that does not re-run the function's SDP: the returned operators are checked to be a POVM "
    "attaining the reported value; the value is bracketed between an exactly feasible POVM and an exactly dual-feasible operator Y <= p_i rho_i (eigenvalue checks); "
    "0 <= value <= min prior; two-state closed form 1/2(1 - ||p0 rho0 - p1 rho1||_1); value 0 on sets antidistinguishable by construction (trine, BB84, Bell, "
    "PBR states at and beyond the known angle, any set containing an orthogonal pair, supersets of the trine, Caves-Fuchs-Schack triples) and a certified positive value on sets "
    "that are not (non-orthogonal pairs, CFS-violating triples, clusters around a common vector with an explicit dual certificate, full-rank mixed states); metamorphic relations "
    "(common unitary, relabelling, representation, primal vs dual). Tolerance 1e-5 (cvxopt through picos); solver breakdowns are samples undecided."
)
RULE = (
    "Deterministic grid over (number of states 2..5) x (dimension 2..4) x {real, complex} x {primal, dual} x every installed SDP solver picos accepts, representation and prior "
    "cycled so that each combination with field and form occurs; mixed states of several ranks; the named antidistinguishable families with and without a common rotation and with "
    "non-uniform priors; the unambiguous variant on pure ensembles for primal/dual agreement where the solver returns. VERIF_SEED seeds the random instances; thorough adds seeds. "
    "non-trivial = at least two distinct states; distinct = distinct (clause, parameters)."
)
EXPLANATION = LEVEL_TEXT
TRUSTED = [
    "numpy.linalg.eigvalsh / eigh on Hermitian matrices of size <= 8 are accurate to 1e-12 (used to check feasibility of every certificate)",
    "weak duality for the exclusion SDP: Tr Y <= sum_i p_i Tr(rho_i M_i) whenever Y <= p_i rho_i for all i and {M_i} is a POVM",
    "Caves-Fuchs-Schack criterion for three pure states: antidistinguishable iff x1+x2+x3 < 1 and (x1+x2+x3-1)^2 >= 4 x1 x2 x3 with x_k the squared overlaps (used with a margin of 0.02)",
    "Pusey-Barrett-Rudolph: the 2^n product states are antidistinguishable iff theta >= 2 arctan(2^(1/n) - 1) (theta as in toqito's parametrisation)",
    "a set containing two orthogonal pure states, and any superset of an antidistinguishable set, is antidistinguishable",
    "a harness-side cvxpy/Clarabel solve is used only to propose certificate candidates when the function's own output does not give a tight bracket; every candidate is made exactly feasible and verified by eigenvalues before use",
    "tolerance 1e-5 on values returned by cvxopt through picos; an exception whose innermost frames are in cvxopt / the picos solver glue is a solver breakdown (undecided)",
    "is_antidistinguishable is judged only where the unnormalised exclusion value is 0 by construction or certified >= 1e-3",
]
ASSUMPTIONS = TRUSTED

FN = "state_exclusion"


# =============================================================================================
# executor side
# =============================================================================================
def _dc():
    from props import disc_common as dc

    return dc


def _run(p, strategy="min_error", soft=True, ens=None, form=None):
    from toqito.state_opt import state_exclusion

    dc = _dc()
    ens = ens or dc.build(p)
    kw = dict(strategy=strategy, solver=p.get("solver", "cvxopt"), primal_dual=form or p.get("form", "dual"))
    if ens["probs"] is not None:
        kw["probs"] = list(ens["probs"])
    kw.update(p.get("kwargs") or {})  # documented pass-through of picos solve options
    c = dc.call_soft if soft else dc.call
    val, meas = c(state_exclusion, ens["states"], **kw)
    return ens, dc.fval(val), meas


def ex_returns_normally(p):
    """admissible ensemble => returns a finite value and n operators"""
    from vt.contract import Violation

    ens, val, meas = _run(p, soft=False)
    if len(meas) != ens["n"]:
        raise Violation("returned %d operators for %d states" % (len(meas), ens["n"]))


def ex_povm_valid(p):
    """the returned operators are Hermitian, PSD to tolerance and sum to the identity"""
    from vt.contract import Violation

    dc = _dc()
    ens, val, meas = _run(p)
    ms = dc.ops(meas)
    d = ens["d"]
    if any(m.shape != (d, d) for m in ms) or len(ms) != ens["n"]:
        raise Violation("returned operators have shapes %s for %d states of dimension %d" % ([m.shape for m in ms], ens["n"], d))
    neg, ah, se = dc.povm_defect(ms, d)
    if neg > dc.TOL or ah > dc.TOL or se > dc.TOL:
        raise Violation("returned operators are not a POVM: most negative eigenvalue %.3g, non-Hermitian part %.3g, |sum - I| %.3g" % (-neg, ah, se))


def ex_povm_attains(p):
    """the returned measurement attains the reported value: sum_i p_i Tr(rho_i M_i) <= value + tol"""
    from vt.contract import Violation

    dc = _dc()
    ens, val, meas = _run(p)
    ms = dc.ops(meas)
    got = dc.attained(ens["rhos"], ens["pvec"], ms)
    if got > val + dc.TOL:
        alt = dc.attained(ens["rhos"], ens["pvec"], [m.conj() for m in ms])
        raise Violation("reported value %.6f, but the returned operators give sum_i p_i Tr(rho_i M_i) = %.6f (their complex conjugates give %.6f)" % (val, got, alt))


def _bracket(dc, ens, meas):
    ms = dc.ops(meas)
    return dc.bracket(ens["rhos"], ens["pvec"], [ms, [m.conj() for m in ms]], "min")


def ex_value_ge_opt(p):
    """no measurement errs less: value >= Tr Y - tol for an explicit Y with Y <= p_i rho_i for all i (checked by eigenvalues)"""
    from vt.contract import Undecided, Violation

    dc = _dc()
    ens, val, meas = _run(p)
    lo, hi = _bracket(dc, ens, meas)
    if val < lo - dc.TOL:
        raise Violation("reported value %.7f is below the trace %.7f of a dual-feasible operator (every POVM errs at least that often)" % (val, lo))
    if hi - lo > 10 * dc.TOL:
        raise Undecided("certificate bracket [%.6f, %.6f] not tight" % (lo, hi))
    return {"lo": lo, "hi": hi, "val": val}


def ex_value_le_opt(p):
    """the value is not above what an explicit, exactly feasible POVM attains: value <= sum_i p_i Tr(rho_i M_i) + tol"""
    from vt.contract import Undecided, Violation

    dc = _dc()
    ens, val, meas = _run(p)
    lo, hi = _bracket(dc, ens, meas)
    if val > hi + dc.TOL:
        raise Violation("reported value %.7f exceeds the error probability %.7f of an explicit POVM (optimum lies in [%.7f, %.7f])" % (val, hi, lo, hi))
    if hi - lo > 10 * dc.TOL:
        raise Undecided("certificate bracket [%.6f, %.6f] not tight" % (lo, hi))
    return {"lo": lo, "hi": hi, "val": val}


def ex_nonneg(p):
    """value >= 0"""
    from vt.contract import Violation

    dc = _dc()
    ens, val, _ = _run(p)
    if val < -dc.TOL:
        raise Violation("exclusion error probability %.7f < 0" % val)


def ex_le_min_prior(p):
    """value <= min_i p_i (always excluding the least likely state)"""
    from vt.contract import Violation

    dc = _dc()
    ens, val, _ = _run(p)
    if val > min(ens["pvec"]) + dc.TOL:
        raise Violation("value %.7f > smallest prior %.7f" % (val, min(ens["pvec"])))


def ex_two_states_le(p):
    """two states: value <= 1/2 (1 - ||p0 rho0 - p1 rho1||_1)"""
    from vt.contract import Violation

    dc = _dc()
    ens, val, _ = _run(p)
    exp = 1 - dc.helstrom(ens["rhos"], ens["pvec"])
    if val > exp + dc.TOL:
        raise Violation("two states: value %.7f > closed form %.7f" % (val, exp))


def ex_two_states_ge(p):
    """two states: value >= 1/2 (1 - ||p0 rho0 - p1 rho1||_1)"""
    from vt.contract import Violation

    dc = _dc()
    ens, val, _ = _run(p)
    exp = 1 - dc.helstrom(ens["rhos"], ens["pvec"])
    if val < exp - dc.TOL:
        raise Violation("two states: value %.7f < closed form %.7f" % (val, exp))


def ex_antidist_zero(p):
    """antidistinguishable by construction => value <= tol"""
    from vt.contract import Violation

    dc = _dc()
    ens, val, _ = _run(p)
    if val > dc.TOL:
        raise Violation("antidistinguishable set (%s), value %.7f > 0" % (p.get("kind"), val))


def _positive_lower_bound(dc, ens, p):
    """rigorous lower bound on the exclusion optimum that does not use the function under test"""
    import numpy as np

    kind = p.get("kind")
    lbs = []
    if ens["n"] == 2:
        lbs.append(1 - dc.helstrom(ens["rhos"], ens["pvec"]))
    if ens["kets"] is not None:
        lbs.append(dc.cluster_lower_bound(ens["kets"], ens["pvec"]))
    else:
        c = min(pi * dc.lam_min(r) for pi, r in zip(ens["pvec"], ens["rhos"]))
        lbs.append(ens["d"] * c * (1 - 1e-9))  # Y = c 1 <= p_i rho_i
    lo, hi = dc.bracket(ens["rhos"], ens["pvec"], [], "min")
    lbs.append(lo)
    return float(max(lbs)), kind


def ex_positive_when_not_antidist(p):
    """not antidistinguishable by construction => value >= (certified lower bound) - tol > 0"""
    from vt.contract import Undecided, Violation

    dc = _dc()
    ens, val, _ = _run(p)
    lb, kind = _positive_lower_bound(dc, ens, p)
    if lb < 20 * dc.TOL:
        raise Undecided("certified lower bound %.2e too small to judge positivity" % lb)
    if val < lb - dc.TOL:
        raise Violation("set that is not antidistinguishable (%s): value %.7f is below the certified lower bound %.7f on every measurement's error" % (kind, val, lb))


def ex_unitary_invariance(p):
    """value(U rho_i U*) == value(rho_i) for a common Haar unitary (orthogonal for real ensembles)"""
    import numpy as np

    from vt.contract import Violation

    dc = _dc()
    ens, val, _ = _run(p)
    rng = np.random.default_rng([int(p.get("seed", 0)), 99])
    u = dc.haar(ens["d"], rng, ens["field"])
    _, val2, _ = _run(p, ens=dc.transformed(ens, u=u, field=ens["field"]))
    if abs(val - val2) > 2 * dc.TOL:
        raise Violation("value %.7f, after a common unitary %.7f" % (val, val2))


def ex_relabel_invariance(p):
    """value is invariant under a common permutation of states and priors"""
    import numpy as np

    from vt.contract import Violation

    dc = _dc()
    ens, val, _ = _run(p)
    rng = np.random.default_rng([int(p.get("seed", 0)), 98])
    perm = [int(i) for i in rng.permutation(ens["n"])]
    if perm == sorted(perm):
        perm = perm[1:] + perm[:1]
    _, val2, _ = _run(p, ens=dc.transformed(ens, perm=perm, field=ens["field"]))
    if abs(val - val2) > 2 * dc.TOL:
        raise Violation("value %.7f, after relabelling %s: %.7f" % (val, perm, val2))


def ex_primal_eq_dual(p):
    """primal and dual formulations report the same value"""
    from vt.contract import Violation

    dc = _dc()
    ens, v1, _ = _run(p, form="primal")
    _, v2, _ = _run(p, ens=ens, form="dual")
    if abs(v1 - v2) > 2 * dc.TOL:
        raise Violation("primal %.7f != dual %.7f" % (v1, v2))


def ex_representation_invariance(p):
    """1-D vectors, column vectors and density matrices of the same pure states give the same value"""
    from vt.contract import Violation

    dc = _dc()
    ens = dc.build(p)
    vals = {}
    for rep in ("1d", "col", "dm"):
        vals[rep] = _run(p, ens=dc.transformed(ens, field=ens["field"], rep=rep))[1]
    if max(vals.values()) - min(vals.values()) > 2 * dc.TOL:
        raise Violation("value depends on the representation: %s" % vals)


def exu_primal_eq_dual(p):
    """unambiguous variant: primal and dual report the same inconclusive probability (where the solver returns)"""
    from vt.contract import Violation

    dc = _dc()
    ens, v1, _ = _run(p, strategy="unambiguous", form="primal")
    _, v2, _ = _run(p, strategy="unambiguous", ens=ens, form="dual")
    if abs(v1 - v2) > 10 * dc.TOL:
        raise Violation("unambiguous exclusion: primal %.7f != dual %.7f" % (v1, v2))
    if min(v1, v2) < -10 * dc.TOL or max(v1, v2) > 1 + 10 * dc.TOL:
        raise Violation("unambiguous exclusion: inconclusive probability outside [0,1]: primal %.7f dual %.7f" % (v1, v2))


def _exu_pair(p):
    import numpy as np

    dc = _dc()
    ens, v, _ = _run(p, strategy="unambiguous")
    return dc, v, float(abs(np.vdot(ens["kets"][0], ens["kets"][1])))


def exu_two_pure_le(p):
    """unambiguous variant, two equiprobable pure states: inconclusive probability <= |<psi|phi>| (docstring example: 0.71)"""
    from vt.contract import Violation

    dc, v, c = _exu_pair(p)
    if v > c + 10 * dc.TOL:
        raise Violation("unambiguous exclusion of two equiprobable pure states: inconclusive probability %.7f > |<psi|phi>| = %.7f" % (v, c))


def exu_two_pure_ge(p):
    """unambiguous variant, two equiprobable pure states: inconclusive probability >= |<psi|phi>|"""
    from vt.contract import Violation

    dc, v, c = _exu_pair(p)
    if v < c - 10 * dc.TOL:
        raise Violation("unambiguous exclusion of two equiprobable pure states: inconclusive probability %.7f < |<psi|phi>| = %.7f" % (v, c))


def exu_returns_normally(p):
    """unambiguous variant: admissible ensemble => returns (solver breakdowns are undecided)"""
    _run(p, strategy="unambiguous", soft=False)


# ------------------------------------------------------------------------------------------ predicates
def _isad(p):
    from toqito.state_props import is_antidistinguishable

    dc = _dc()
    ens = dc.build(p)
    return ens, dc.call(is_antidistinguishable, ens["states"])


def isad_true_on_antidist(p):
    """antidistinguishable by construction => True"""
    from vt.contract import Violation

    ens, r = _isad(p)
    if not bool(r):
        raise Violation("is_antidistinguishable returned %r on a set that is antidistinguishable by construction (%s)" % (r, p.get("kind")))


def isad_false_on_not_antidist(p):
    """every measurement errs with (unnormalised) probability >= 1e-3 => False"""
    from vt.contract import Undecided, Violation

    dc = _dc()
    ens, r = _isad(p)
    lb, kind = _positive_lower_bound(dc, ens, dict(p, prior="uniform"))
    if ens["n"] * lb < 1e-3:
        raise Undecided("certified lower bound %.2e below the margin" % (ens["n"] * lb))
    if bool(r):
        raise Violation("is_antidistinguishable returned %r although every measurement errs with unnormalised probability >= %.5f (%s)" % (r, ens["n"] * lb, kind))


def _cqo(p):
    from toqito.state_props import common_quantum_overlap

    dc = _dc()
    ens = dc.build(p)
    r = dc.call(common_quantum_overlap, ens["states"])
    return ens, dc.fval(r, "common_quantum_overlap")


def cqo_two_pure_le(p):
    """two pure states: common quantum overlap <= 1 - sqrt(1 - |<psi|phi>|^2)"""
    import numpy as np

    from vt.contract import Violation

    dc = _dc()
    ens, r = _cqo(p)
    c = abs(np.vdot(ens["kets"][0], ens["kets"][1]))
    exp = 1 - np.sqrt(max(0.0, 1 - c * c))
    if r > exp + 2 * dc.TOL:
        raise Violation("common_quantum_overlap %.7f > closed form %.7f (overlap %.4f)" % (r, exp, c))


def cqo_two_pure_ge(p):
    """two pure states: common quantum overlap >= 1 - sqrt(1 - |<psi|phi>|^2)"""
    import numpy as np

    from vt.contract import Violation

    dc = _dc()
    ens, r = _cqo(p)
    c = abs(np.vdot(ens["kets"][0], ens["kets"][1]))
    exp = 1 - np.sqrt(max(0.0, 1 - c * c))
    if r < exp - 2 * dc.TOL:
        raise Violation("common_quantum_overlap %.7f < closed form %.7f (overlap %.4f)" % (r, exp, c))


def cqo_zero_on_antidist(p):
    """antidistinguishable by construction => common quantum overlap == 0"""
    from vt.contract import Violation

    dc = _dc()
    ens, r = _cqo(p)
    if abs(r) > ens["n"] * dc.TOL:
        raise Violation("common_quantum_overlap %.7f on an antidistinguishable set (%s)" % (r, p.get("kind")))


def cqo_identical_one(p):
    """n copies of one state => common quantum overlap == 1"""
    from vt.contract import Violation

    dc = _dc()
    ens, r = _cqo(p)
    if abs(r - 1) > ens["n"] * dc.TOL:
        raise Violation("common_quantum_overlap %.7f on %d identical states (expected 1)" % (r, ens["n"]))


def cqo_agrees_with_value_le(p):
    """common quantum overlap <= n * (error of an explicit exclusion POVM at uniform prior)"""
    from vt.contract import Undecided, Violation

    dc = _dc()
    ens, r = _cqo(dict(p, prior="uniform"))
    lo, hi = dc.bracket(ens["rhos"], ens["pvec"], [], "min")
    n = ens["n"]
    if r > n * hi + n * dc.TOL:
        raise Violation("common_quantum_overlap %.7f > n * (error %.7f of an explicit POVM) = %.7f" % (r, hi, n * hi))
    if hi - lo > 10 * dc.TOL:
        raise Undecided("bracket not tight")


def cqo_agrees_with_value_ge(p):
    """common quantum overlap >= n * Tr Y for an explicit dual-feasible Y at uniform prior"""
    from vt.contract import Undecided, Violation

    dc = _dc()
    ens, r = _cqo(dict(p, prior="uniform"))
    lo, hi = dc.bracket(ens["rhos"], ens["pvec"], [], "min")
    n = ens["n"]
    if r < n * lo - n * dc.TOL:
        raise Violation("common_quantum_overlap %.7f < n * Tr Y = %.7f for a dual-feasible Y" % (r, n * lo))
    if hi - lo > 10 * dc.TOL:
        raise Undecided("bracket not tight")


CLAUSES = {
    "ex.returns_normally": ex_returns_normally,
    "ex.povm_valid": ex_povm_valid,
    "ex.povm_attains": ex_povm_attains,
    "ex.value_ge_opt": ex_value_ge_opt,
    "ex.value_le_opt": ex_value_le_opt,
    "ex.nonneg": ex_nonneg,
    "ex.le_min_prior": ex_le_min_prior,
    "ex.two_states_le": ex_two_states_le,
    "ex.two_states_ge": ex_two_states_ge,
    "ex.antidist_zero": ex_antidist_zero,
    "ex.positive_when_not_antidist": ex_positive_when_not_antidist,
    "ex.unitary_invariance": ex_unitary_invariance,
    "ex.relabel_invariance": ex_relabel_invariance,
    "ex.primal_eq_dual": ex_primal_eq_dual,
    "ex.representation_invariance": ex_representation_invariance,
    "exu.returns_normally": exu_returns_normally,
    "exu.primal_eq_dual": exu_primal_eq_dual,
    "exu.two_pure_le": exu_two_pure_le,
    "exu.two_pure_ge": exu_two_pure_ge,
    "isad.true_on_antidist": isad_true_on_antidist,
    "isad.false_on_not_antidist": isad_false_on_not_antidist,
    "cqo.two_pure_le": cqo_two_pure_le,
    "cqo.two_pure_ge": cqo_two_pure_ge,
    "cqo.zero_on_antidist": cqo_zero_on_antidist,
    "cqo.identical_one": cqo_identical_one,
    "cqo.agrees_with_value_le": cqo_agrees_with_value_le,
    "cqo.agrees_with_value_ge": cqo_agrees_with_value_ge,
}
for _k, _f in CLAUSES.items():
    _f.function = {"ex": FN, "exu": FN, "isad": "is_antidistinguishable", "cqo": "common_quantum_overlap"}[_k.split(".")[0]]
    _f.limit = 25

EX_GENERIC = ["ex.returns_normally", "ex.povm_valid", "ex.povm_attains", "ex.value_ge_opt", "ex.value_le_opt", "ex.nonneg", "ex.le_min_prior"]

# sets that are antidistinguishable by construction: (kind, extra parameters, dimension for the random ones)
ANTI = [
    ("named:trine", {}),
    ("named:bb84", {}),
    ("named:bb84-3", {}),
    ("named:bell", {}),
    ("named:bell-3", {}),
    ("named:pbr2-boundary", {}),
    ("named:pbr2-inside", {}),
    ("named:pbr2-orth", {}),
    ("named:pbr3-inside", {}),
    ("orthopair", dict(n=3, d=2)),
    ("orthopair", dict(n=4, d=3)),
    ("orthopair", dict(n=5, d=4)),
    ("orthopair", dict(n=3, d=4)),
    ("superset-trine", dict(n=4)),
    ("superset-trine", dict(n=5)),
    ("cfs-anti", dict(d=3)),
    ("cfs-anti", dict(d=4)),
]
NOT_ANTI = [
    ("pair", dict(overlap=0.3, d=2)),
    ("pair", dict(overlap=0.8, d=3)),
    ("pair", dict(overlap=0.95, d=4)),
    ("cfs-not", dict(d=2)),
    ("cfs-not", dict(d=3)),
    ("cfs-not", dict(d=4)),
    ("cluster", dict(n=3, d=2, eps=0.12)),
    ("cluster", dict(n=4, d=3, eps=0.1)),
    ("cluster", dict(n=5, d=4, eps=0.08)),
    ("cluster", dict(n=4, d=2, eps=0.15)),
    ("mixed", dict(n=3, d=2, rank=0)),
    ("mixed", dict(n=4, d=3, rank=0)),
    ("mixed", dict(n=2, d=4, rank=0)),
    ("named:pbr2-outside", {}),
    ("named:pbr1-outside", {}),
]


def cases(tier, seed):
    from props.disc_common import pick, sdp_solvers

    thorough = tier == "thorough"
    seeds = [seed + 1000 * k for k in range(6 if thorough else 1)]
    solvers = sdp_solvers()
    out = []

    def add(clause, params, ic, nontrivial=True):
        out.append(dict(clause=clause, params=params, input_class=ic, nontrivial=nontrivial))

    def icl(strategy, form, field, kind, solver):
        s = "%s/%s/%s/%s" % (strategy, form, field, kind)
        return s if solver == "cvxopt" else s + "/" + solver

    reps = ["1d", "col", "dm"]
    priors = ["uniform", "omitted", "random", "skewed"]
    nd = [(n, d) for n in (2, 3, 4, 5) for d in (2, 3, 4)]
    forms = ["primal", "dual"]
    fields = ["real", "complex"]
    for solver in solvers:
        for sd in seeds:
            i = 0
            for (n, d) in nd:
                for field in fields:
                    for form in forms:
                        # the primal form on 2 or 3 states is slow in cvxopt and, for d = 4, always ends in a solver breakdown
                        slow = form == "primal" and n <= 3
                        clauses = EX_GENERIC if thorough or not (slow and d == 4) else ["ex.returns_normally"]
                        for k in range(3):
                            i += 1
                            if slow and k > 0 and not thorough:
                                continue
                            rep = pick(reps, i, k)
                            pr = pick(priors, i, k)
                            base = dict(n=n, d=d, field=field, form=form, solver=solver, rep=rep, prior=pr, kind="pure", seed=sd + i, phases=True)
                            for cl in clauses:
                                add(cl, base, icl("min_error", form, field, "vec" if rep != "dm" else "dm", solver))
                        for k, rank in enumerate((0, 1 if d > 2 else 0, 2 if d > 2 else 0)):
                            i += 1
                            if slow and k > 0 and not thorough:
                                continue
                            base = dict(n=n, d=d, field=field, form=form, solver=solver, prior=pick(priors, i), kind="mixed", rank=rank, seed=sd + i)
                            for cl in (clauses if thorough or not slow else clauses[:1] + clauses[2:5]):
                                add(cl, base, icl("min_error", form, field, "dm", solver))
            # ---- one ensemble, several vector layouts (1-D, column and row kets mixed)
            if sd == seeds[0]:
                for field in fields:
                    for n, d in ((2, 2), (3, 2), (3, 3), (4, 3)):
                        i += 1
                        base = dict(n=n, d=d, field=field, form="dual", solver=solver, rep="mixed-layout", prior=pick(["uniform", "random"], i), kind="pure", seed=sd + i, phases=True)
                        for cl in EX_GENERIC:
                            add(cl, base, icl("min_error", "dual", field, "mixed-vector-layouts", solver))
            # ---- density matrices stored Fortran-ordered
            if sd == seeds[0]:
                for field in fields:
                    for n, d in ((2, 2), (3, 3)):
                        i += 1
                        base = dict(n=n, d=d, field=field, form="dual", solver=solver, rep="dm-F", prior=pick(["uniform", "random"], i), kind="pure", seed=sd + i, phases=True)
                        for cl in EX_GENERIC:
                            add(cl, base, icl("min_error", "dual", field, "fortran-ordered-dm", solver))
            # ---- (1, d) row vectors (accepted by to_density_matrix like columns)
            if sd == seeds[0]:
                for field in fields:
                    for n, d in ((2, 2), (3, 2), (3, 3)):
                        i += 1
                        base = dict(n=n, d=d, field=field, form="dual", solver=solver, rep="row", prior=pick(["uniform", "random"], i), kind="pure", seed=sd + i, phases=True)
                        for cl in EX_GENERIC:
                            add(cl, base, icl("min_error", "dual", field, "row-vectors", solver))
            # ---- one list, three numpy dtypes (an integer basis ket first, then a real, then complex states)
            if sd == seeds[0]:
                for form in forms:
                    for n, d in ((2, 2), (3, 2), (3, 3), (4, 3)):
                        for rep in reps:
                            i += 1
                            base = dict(n=n, d=d, field="complex", form=form, solver=solver, rep=rep, prior=pick(["uniform", "random"], i), kind="mixed-dtype", seed=sd + i)
                            for cl in EX_GENERIC + ["ex.relabel_invariance"]:
                                add(cl, base, icl("min_error", form, "complex", "mixed-dtype-list", solver))
            # ---- a state that is never prepared (exact zero prior, not in the last position): the value is 0 and the labelled operators attain it
            if sd == seeds[0]:
                for field in fields:
                    for n, d in ((3, 2), (3, 3), (4, 3)):
                        for pk in ("zero-first", "zero-middle"):
                            i += 1
                            base = dict(n=n, d=d, field=field, form="dual", solver=solver, rep=pick(reps, i), prior=pk, kind="pure", seed=sd + i, phases=True)
                            for cl in EX_GENERIC:
                                add(cl, base, icl("min_error", "dual", field, "zero-prior", solver))
            # ---- two states
            for field in fields:
                for form in forms:
                    for d in (2, 3, 4):
                        for j, ov in enumerate((0.0, 0.2, 0.6, 0.9, 0.999)):
                            i += 1
                            if form == "primal" and not thorough and (d == 4 or j % 2 == 0):
                                continue
                            base = dict(kind="pair", overlap=ov, d=d, field=field, form=form, solver=solver, rep=pick(reps, i), prior=pick(priors, i, j), seed=sd + i)
                            add("ex.two_states_le", base, icl("min_error", form, field, "pair", solver))
                            add("ex.two_states_ge", base, icl("min_error", form, field, "pair", solver))
                        for rank in (0, 1):
                            i += 1
                            if form == "primal" and not thorough and (d == 4 or rank == 1):
                                continue
                            base = dict(kind="mixed", n=2, d=d, rank=rank, field=field, form=form, solver=solver, prior=pick(priors, i), seed=sd + i)
                            add("ex.two_states_le", base, icl("min_error", form, field, "mixed-pair", solver))
                            add("ex.two_states_ge", base, icl("min_error", form, field, "mixed-pair", solver))
            # ---- antidistinguishable by construction / not antidistinguishable by construction
            for field in fields:
                for form in forms:
                    for j, (kind, extra) in enumerate(ANTI):
                        for pr in ("uniform", "random"):
                            i += 1
                            if form == "primal" and not thorough and (pr == "random" or extra.get("n", 4) <= 3 or kind in ("named:trine", "named:bb84-3", "named:bell-3", "cfs-anti", "named:pbr3-inside")):
                                if not (kind == "named:trine" and pr == "uniform"):
                                    continue
                            base = dict(kind=kind, field=field, form=form, solver=solver, rep=pick(reps, i), prior=pr, seed=sd + i, rotate=pick([False, True], i), **extra)
                            add("ex.antidist_zero", base, icl("min_error", form, field, "antidistinguishable", solver))
                    for j, (kind, extra) in enumerate(NOT_ANTI):
                        i += 1
                        if form == "primal" and not thorough and extra.get("n", 2 if kind == "pair" else 3) <= 3:
                            continue
                        base = dict(kind=kind, field=field, form=form, solver=solver, rep=pick(reps, i), prior=pick(priors, i), seed=sd + i, rotate=True, **extra)
                        add("ex.positive_when_not_antidist", base, icl("min_error", form, field, "not-antidistinguishable", solver))
            # ---- metamorphic relations
            for (n, d) in nd:
                for field in fields:
                    for form in forms:
                        i += 1
                        if form == "primal" and not thorough and n <= 3 and (n, d) != (2, 3):
                            continue
                        kind = pick(["pure", "pure", "mixed"], i)
                        base = dict(n=n, d=d, field=field, form=form, solver=solver, rep=pick(reps, i), prior=pick(priors, i), kind=kind, seed=sd + i, phases=True)
                        add("ex.unitary_invariance", base, icl("min_error", form, field, "any", solver))
                        add("ex.relabel_invariance", base, icl("min_error", form, field, "any", solver))
                    i += 1
                    base = dict(n=n, d=d, field=field, solver=solver, rep=pick(reps, i), prior=pick(priors, i), kind=pick(["pure", "pure", "mixed"], i), seed=sd + i, phases=True)
                    if thorough or n >= 4 or (n, d) == (2, 3):
                        add("ex.primal_eq_dual", base, icl("min_error", "both", field, "any", solver))
                    base = dict(n=n, d=d, field=field, form=pick(forms, i), solver=solver, prior=pick(priors, i), kind="pure", seed=sd + i, phases=True)
                    add("ex.representation_invariance", base, icl("min_error", pick(forms, i), field, "vec", solver))
            # ---- unambiguous variant: primal/dual agreement where the solver returns
            for (n, d) in nd:
                for field in fields:
                    i += 1
                    if (n, d) == (2, 4) and not thorough:
                        continue  # cvxopt needs > 40 s before it gives up on this shape
                    base = dict(n=n, d=d, field=field, solver=solver, rep=pick(reps[:2], i), prior=pick(priors, i), kind="pure", seed=sd + i, phases=True)
                    add("exu.primal_eq_dual", base, icl("unambiguous", "both", field, "vec", solver))
                    for form in forms:
                        add("exu.returns_normally", dict(base, form=form), icl("unambiguous", form, field, "vec", solver))
            for field in fields:
                for ov in (0.3, 0.7071067811865476):
                    i += 1
                    # the docstring's own example passes abs_ipm_opt_tol=1e-7 to keep cvxopt from breaking down
                    base = dict(kind="pair", overlap=ov, d=2, field=field, solver=solver, rep=pick(reps[:2], i), prior="omitted", seed=sd + i, kwargs={"abs_ipm_opt_tol": 1e-7})
                    add("exu.primal_eq_dual", base, icl("unambiguous", "both", field, "pair", solver))
                    for form in forms:
                        if ov > 0.5:
                            base = dict(base, kind="named:zero-plus", rep="col")  # the docstring example itself
                        add("exu.two_pure_le", dict(base, form=form), icl("unambiguous", form, field, "pair", solver))
                        add("exu.two_pure_ge", dict(base, form=form), icl("unambiguous", form, field, "pair", solver))
    # ---- predicates (default solver, dual form inside)
    for sd in seeds:
        i = 0
        for field in fields:
            for j, (kind, extra) in enumerate(ANTI):
                for rot in (False, True):
                    i += 1
                    base = dict(kind=kind, field=field, rep=pick(reps, i), seed=sd + i, rotate=rot, **extra)
                    add("isad.true_on_antidist", base, "is_antidistinguishable/antidistinguishable/" + field)
                    add("cqo.zero_on_antidist", base, "common_quantum_overlap/antidistinguishable/" + field)
            for j, (kind, extra) in enumerate(NOT_ANTI):
                i += 1
                base = dict(kind=kind, field=field, rep=pick(reps, i), seed=sd + i, rotate=True, **extra)
                add("isad.false_on_not_antidist", base, "is_antidistinguishable/not-antidistinguishable/" + field)
            if sd == seeds[0]:
                for rp in ("row", "mixed-layout"):  # row kets, and one ensemble mixing 1-D / column / row kets
                    for kind, extra in ANTI[:3]:
                        i += 1
                        base = dict(kind=kind, field=field, rep=rp, seed=sd + i, rotate=(field == "complex"), **extra)
                        add("isad.true_on_antidist", base, "is_antidistinguishable/antidistinguishable-%s/%s" % (rp, field))
                        add("cqo.zero_on_antidist", base, "common_quantum_overlap/antidistinguishable-%s/%s" % (rp, field))
                    for kind, extra in NOT_ANTI[:2]:
                        i += 1
                        base = dict(kind=kind, field=field, rep=rp, seed=sd + i, rotate=True, **extra)
                        add("isad.false_on_not_antidist", base, "is_antidistinguishable/not-antidistinguishable-%s/%s" % (rp, field))
            for d in (2, 3, 4):
                for ov in (0.0, 0.3, 0.7071067811865476, 0.9, 1.0):
                    i += 1
                    base = dict(kind="pair", overlap=ov, d=d, field=field, rep=pick(reps, i), seed=sd + i)
                    add("cqo.two_pure_le", base, "common_quantum_overlap/pair/" + field)
                    add("cqo.two_pure_ge", base, "common_quantum_overlap/pair/" + field)
                for n in (2, 3, 4):
                    i += 1
                    add("cqo.identical_one", dict(kind="identical", n=n, d=d, rank=pick([0, 1], i), field=field, seed=sd + i), "common_quantum_overlap/identical/" + field)
            for (n, d) in nd:
                i += 1
                base = dict(n=n, d=d, field=field, rep=pick(reps, i), kind=pick(["pure", "pure", "mixed"], i), seed=sd + i, phases=True)
                add("cqo.agrees_with_value_le", base, "common_quantum_overlap/any/" + field)
                add("cqo.agrees_with_value_ge", base, "common_quantum_overlap/any/" + field)
    return out


# =============================================================================================
# deductive part (E1-term): the thin wrappers are the stated functions of the SDP value
# =============================================================================================
from props.disc_prove import prove_for as _prove_for  # noqa: E402

prove = _prove_for(ID)
LEVEL_TEXT = LEVEL_TEXT + (" Proved (E1-term, callees by parameter name): is_antidistinguishable(states) == isclose(dual exclusion value with unit weights, 0) and common_quantum_overlap(states) == n (1 - (1 - v / n)) for that value v. The SDP values themselves are bounded checks.")
LEVEL_TEXT = LEVEL_TEXT + (' Proved (E1-prog, 2 and 3 states, all dimensions and priors): each of the four builders of state_exclusion hands the solver exactly the stated program (min-error primal: min sum_i p_i <rho_i, M_i> s.t. M_i >= 0, sum M_i = I; dual: max Tr Y s.t. Y <= p_i rho_i; unambiguous primal: min <sum p_i rho_i, I - sum M> s.t. M_i >= 0, I - sum M >= 0, <M_i, p_i rho_i> = 0; dual: max 1 - Tr N s.t. N >= 0, N + a_i p_i rho_i >= sum_j p_j rho_j), solves it once and returns its optimum; the entry point dispatches as stated.')
TRUSTED.append("E1-prog (program contracts): matrices and picos variables are uninterpreted terms; picos semantics assumed: A >> B / A << B are the Loewner-order constraints, A | B the Hilbert-Schmidt inner product, * the matrix product, picos.sum / trace / I / diag / partial_transpose what their names say, .real / np.real of a real affine expression the identity; linearity facts used as z3 axioms: <sA,B> = <A,sB> = s<A,B>, (sA)B = s(AB), Tr(sA) = s Tr(A), Tr(AB) = <A,B> for Hermitian A (to_density_matrix(.) and its real multiples and sums); the solver returns the optimum of the program it is handed (certified only on the bounded tier); number of states enumerated (2, 3; 4 thorough)")
EXPLANATION = LEVEL_TEXT
if "E1-pyvc" not in ENGINES:
    ENGINES = ["E1-pyvc"] + list(ENGINES)

# =============================================================================================
# frame coverage shared by all properties (E2 obligations for every public function of the anchor files + run-time frame cases)
# =============================================================================================
from props import frame_all as _fa  # noqa: E402
from props.frame_common import frame_generic as _fg, frame_object as _fo  # noqa: E402

CLAUSES.setdefault("frame.generic", _fg)
CLAUSES.setdefault("frame.object", _fo)
_cases_before_frames = cases
_prove_before_frames = globals().get("prove")


def cases(tier, seed):  # noqa: F811
    return _cases_before_frames(tier, seed) + _fa.frame_cases(ID, seed)


def prove(tier, seed):  # noqa: F811
    from vt.pyvc.termproofs import merge

    b = _fa.prove_frames(ID, lambda s: _fa.frame_cases(ID, s))(tier, seed)
    if _prove_before_frames is None:
        return b
    return merge(_prove_before_frames(tier, seed), b)

if LEVEL == "exploration":
    LEVEL = "other"
LEVEL_TEXT = LEVEL_TEXT + (" Additionally proved (E2, taint analysis of the real AST): every public function and method in this property's anchor files writes through "
                           "no reference reachable from its arguments (or from self), so results do not depend on call order and callers' arrays / lists are not modified; "
                           "a run-time frame clause replays the same claim on concrete arguments.")
EXPLANATION = LEVEL_TEXT
if "E2-frame" not in globals().get("ENGINES", []):
    ENGINES = list(globals().get("ENGINES", ["E3-E4-rtc"])) + ["E2-frame"]
