"""C04 -- one linear map, many representations: all of them act identically."""
from __future__ import annotations

import itertools

ID = "C04"
TITLE = "one linear map, many representations: all of them act identically"
LEVEL = "exploration"
BUDGET = {"quick": 80, "thorough": 900}
ENGINES = ["E3-E4-rtc"]
TECHNIQUE = (
    "run-time-checked contracts on the real functions over a bounded domain (bounded stand-in): the real apply_channel, kraus_to_choi, "
    "partial_channel, natural_representation are run on dtype=object arrays of sympy symbols and the stated identities are checked as polynomial "
    "identities per shape configuration (complete in the entries, configurations enumerated); choi_to_kraus (eigh/svd) and channel_dim are checked on seeded numeric maps"
)
LEVEL_TEXT = (
    "Bounded. Nothing is proved for all dimensions. Per enumerated configuration (d_in, d_out in 1..3, Kraus rank 1..3, every representation form, every "
    "target position in 2- and 3-partite operators) the identities Phi(X) = sum A_i X B_i^dagger, J = sum E_ij (x) Phi(E_ij), apply(X, J) = Phi(X), "
    "partial_channel = id (x) Phi (x) id, K vec_row(X) = vec_row(Phi(X)) hold as polynomial identities in all matrix entries (so for every entry value of that "
    "configuration), cross-checked at three numeric assignments. choi_to_kraus round trips, Kraus->Choi->Kraus->Choi chains and channel_dim are run-time checks on seeded random maps "
    "(CP / Hermitian non-PSD / non-Hermitian, real / complex, equal / unequal / rectangular dimensions up to 4) with tolerance 1e-7."
)
RULE = (
    "deterministic grid: (d_in, d_out) in {1,2,3}^2 x rank in {1,2,3} x forms {flat, [[K],..], [[K1..Kr]] (r>2), pairs, Choi} x {CP, non-CP} with symbolic entries; "
    "numeric grid up to dimension 4 (5 in the thorough tier) real and complex, rectangular matrix spaces M_{r,c} -> M_{x,y} for pairs and Choi forms; partial_channel over "
    "every position of [a, d, b] with a, b in {1, 2} (and one 4-partite numeric case), dim given as list / two-row / omitted; seeded random instances on top. "
    "non-trivial = not all of d_in, d_out, rank equal to 1; distinct = distinct (clause, parameters)."
)
EXPLANATION = LEVEL_TEXT
TRUSTED = [
    "sympy: expand() normalises polynomials in symbols and conjugate(symbols) to a canonical form (zero test of polynomial identities); floats that are exact (1.0, 0.0 from np.identity) are treated as rationals",
    "numpy object-dtype arithmetic (kron, @, concatenate, reshape, conj) performs the same index operations as on numeric dtypes; checked per configuration by re-running the real function at three numeric assignments and comparing with the evaluated symbolic result",
    "choi_to_kraus calls LAPACK (eigh / svd) and is_hermitian / is_positive_semidefinite (np.allclose): it cannot run on symbolic entries, so its clauses are numeric only (seeded random maps, tolerance 1e-7)",
    "channel_dim's environment dimension for Choi input is np.linalg.matrix_rank (floating point): checked on maps of constructed rank with generic entries only",
    "reference formulas in props/chan_util.py (explicit index sums) are the specification; they were written from the property statement, not from the code",
    "dimensions are bounded (<= 3 symbolic, <= 5 numeric); nothing is claimed beyond the enumerated configurations",
]
ASSUMPTIONS = TRUSTED


# =============================================================================================
# executor side
# =============================================================================================
def _phi_of(ent, p):
    """(A, B, phi, J_ref, spaces) for the representation named in p['form']; Choi forms are built by the reference formula"""
    from props import chan_util as U

    ri, ci, xo, yo = U.spaces(p)
    form = p["form"]
    if form == "choi-arbitrary":
        J = ent.mat("J", (ri * xo, ci * yo))
        return None, None, J, J, (ri, ci, xo, yo)
    A, B = U.kraus_entries(ent, p)
    J = U.ref_choi(A, B)
    if form == "choi":
        return A, B, J, J, (ri, ci, xo, yo)
    return A, B, U.as_form(A, B, form), J, (ri, ci, xo, yo)


def apply_action(p):
    """apply_channel(X, Phi) == sum_i A_i X B_i^dagger for every representation form (Choi: sum_ij J[(i,a),(j,b)] X[i,j])"""
    from props import chan_util as U
    from toqito.channel_ops import apply_channel

    def body(ent):
        A, B, phi, J, (ri, ci, xo, yo) = _phi_of(ent, p)
        X = ent.mat("X", (ri, ci))
        got = apply_channel(X, phi)
        exp = U.ref_choi_apply(J, X, ri, ci, xo, yo) if A is None else U.ref_apply(A, B, X)
        return [("apply_channel(X, %s)" % p["form"], got, exp)]

    return U.run_modes(p, body)


def k2c_formula(p):
    """kraus_to_choi(K) == sum_ij E_ij (x) Phi(E_ij)   (sys=1: sum_ij Phi(E_ij) (x) E_ij)"""
    from props import chan_util as U
    from toqito.channel_ops import kraus_to_choi

    def body(ent):
        A, B, phi, J, (ri, ci, xo, yo) = _phi_of(ent, p)
        if p.get("sys", 2) == 1:
            return [("kraus_to_choi(%s, sys=1)" % p["form"], kraus_to_choi(phi, 1), U.ref_choi_sys1(J, ri, ci, xo, yo))]
        return [("kraus_to_choi(%s)" % p["form"], kraus_to_choi(phi), J)]

    return U.run_modes(p, body)


def k2c_apply(p):
    """apply_channel(X, kraus_to_choi(K)) == sum_i A_i X B_i^dagger"""
    from props import chan_util as U
    from toqito.channel_ops import apply_channel, kraus_to_choi

    def body(ent):
        A, B, phi, J, (ri, ci, xo, yo) = _phi_of(ent, p)
        X = ent.mat("X", (ri, ci))
        return [("apply_channel(X, kraus_to_choi(%s))" % p["form"], apply_channel(X, kraus_to_choi(phi)), U.ref_apply(A, B, X))]

    return U.run_modes(p, body)


def natrep_vec(p):
    """natural_representation(K) @ vec_row(X) == vec_row(sum_i K_i X K_i^dagger)"""
    from props import chan_util as U
    from toqito.channel_ops import natural_representation

    def body(ent):
        A, B = U.kraus_entries(ent, dict(p, kind="cp"))
        din, dout = int(p["din"]), int(p["dout"])
        X = ent.mat("X", (din, din))
        N = natural_representation(list(A))
        import numpy as np

        got = np.dot(N, X.reshape(-1))
        exp = U.ref_apply(A, A, X).reshape(-1)
        return [("natural_representation(K) vec_row(X)", got, exp), ("natural_representation shape", np.array(N.shape), np.array([dout * dout, din * din]))]

    return U.run_modes(p, body)


def natrep_rejects(p):
    """Kraus operators of different shapes are rejected with ValueError (documented)"""
    import numpy as np

    from toqito.channel_ops import natural_representation
    from vt.contract import Violation

    try:
        natural_representation([np.eye(2), np.ones((2, 3))])
    except ValueError:
        return
    raise Violation("natural_representation accepted Kraus operators of shapes (2,2) and (2,3)")


def partial_kron(p):
    """partial_channel(rho, Phi, sys, dim) == (id (x) Phi (x) id)(rho) by index contraction"""
    import numpy as np

    from props import chan_util as U
    from toqito.channel_ops import partial_channel

    def body(ent):
        A, B, phi, J, (ri, ci, xo, yo) = _phi_of(ent, p)
        rb, ra = list(p["before"]), list(p["after"])
        cb, ca = list(p.get("cbefore", rb)), list(p.get("cafter", ra))
        rdims = rb + [ri] + ra
        cdims = cb + [ci] + ca
        rho = ent.mat("R", (int(np.prod(rdims)), int(np.prod(cdims))))
        sys_ = len(rb) + 1
        df = p.get("dimform", "list")
        if df == "list":
            got = partial_channel(rho, phi, sys_, list(rdims))
        elif df == "array":
            got = partial_channel(rho, phi, sys_, np.array(rdims))
        elif df == "2row":
            got = partial_channel(rho, phi, sys_, [list(rdims), list(cdims)])
        elif df == "omitted":
            got = partial_channel(rho, phi, sys_) if not p.get("sys_default") else partial_channel(rho, phi)
        else:
            raise ValueError(df)
        exp = U.ref_partial(J, rho, rb, ra, cb, ca, ri, ci, xo, yo)
        return [("partial_channel(rho, %s, sys=%d, dim=%s)" % (p["form"], sys_, df), got, exp)]

    return U.run_modes(p, body)


def partial_product(p):
    """partial_channel(R1 (x) X (x) R3) == R1 (x) Phi(X) (x) R3  (numeric corollary, independent of the contraction oracle)"""
    import numpy as np

    from props import chan_util as U
    from toqito.channel_ops import partial_channel

    def body(ent):
        A, B, phi, J, (ri, ci, xo, yo) = _phi_of(ent, p)
        d1, d3 = int(p["before"][0]) if p["before"] else 1, int(p["after"][0]) if p["after"] else 1
        R1 = ent.mat("R1", (d1, d1))
        R3 = ent.mat("R3", (d3, d3))
        X = ent.mat("X", (ri, ci))
        rho = np.kron(np.kron(R1, X), R3)
        dims = list(p["before"]) + [ri] + list(p["after"])
        got = partial_channel(rho, phi, len(p["before"]) + 1, dims)
        PX = U.ref_choi_apply(J, X, ri, ci, xo, yo)
        return [("partial_channel(R1 (x) X (x) R3)", got, np.kron(np.kron(R1, PX), R3))]

    return U.run_modes(p, body)


# ------------------------------------------------------------------------------------------ choi_to_kraus (numeric)
def _numeric_choi(p):
    """numeric Choi matrix of a prescribed class, with (A, B) when it comes from Kraus families"""
    import numpy as np

    from props import chan_util as U

    din, dout, r = int(p["din"]), int(p["dout"]), int(p["r"])
    field = p.get("field", "complex")
    rng = np.random.default_rng([p.get("seed", 0), din, dout, r])
    cls = p["cls"]
    if cls == "cp":
        A = [U.rnd(rng, (dout, din), field) for _ in range(r)]
        return U.ref_choi(A, A), A, A
    if cls == "herm-nonpsd":
        # difference of two CP maps: Hermitian Choi matrix with a negative eigenvalue by construction
        A = [U.rnd(rng, (dout, din), field) for _ in range(r)]
        C = U.rnd(rng, (dout, din), field)
        # <vec C| J_A - c J_C |vec C> / |C|^2 <= lambda_max(J_A) - c |C|^2 = -1
        c = (float(np.linalg.eigvalsh(U.herm(U.ref_choi(A, A)))[-1]) + 1.0) / float(np.linalg.norm(C) ** 2)
        Al = A + [C]
        Bl = A + [-c * C]
        J = U.ref_choi(Al, Bl)
        J = (J + J.conj().T) / 2
        ev = np.linalg.eigvalsh(J)
        if ev[0] > -1e-3:
            raise U.Undecided("constructed map is not negative by a margin (min eigenvalue %.3g)" % ev[0])
        return J, Al, Bl
    if cls == "nonherm":
        A = [U.rnd(rng, (dout, din), field) for _ in range(r)]
        B = [U.rnd(rng, (dout, din), field) for _ in range(r)]
        J = U.ref_choi(A, B)
        if np.max(np.abs(J - J.conj().T)) < 1e-2:
            raise U.Undecided("constructed Choi matrix is Hermitian within the margin")
        return J, A, B
    raise ValueError(cls)


def _dim_arg(p, din, dout):
    df = p.get("dimform", "auto")
    if df == "auto":
        return None if din == dout else [din, dout]
    if df == "list":
        return [din, dout]
    if df == "2x2":
        return [[din, dout], [din, dout]]
    if df == "array":
        import numpy as np

        return np.array([din, dout])
    if df == "int":
        return int(din)
    if df == "omitted":
        return None
    raise ValueError(df)


def c2k_action(p):
    """choi_to_kraus(J[, dim]) returns operators whose action sum_k A_k X B_k^dagger is the action of J; PSD J -> flat list"""
    import numpy as np

    from props import chan_util as U
    from toqito.channel_ops import choi_to_kraus
    from vt.contract import Violation

    din, dout = int(p["din"]), int(p["dout"])
    J, A, B = _numeric_choi(p)
    if p.get("field") == "real":
        J = J.real.copy()
    dim = _dim_arg(p, din, dout)
    K = choi_to_kraus(J) if dim is None else choi_to_kraus(J, dim=dim)
    if not isinstance(K, list) or not K:
        raise Violation("choi_to_kraus returned %s" % type(K).__name__)
    if p["cls"] == "cp":
        if not isinstance(K[0], np.ndarray):
            raise Violation("completely positive map: documented return is a flat list of arrays, got a list of %s" % type(K[0]).__name__)
        A2, B2 = K, K
        if len(K) != min(int(p["r"]), din * dout):
            raise Violation("CP map of Choi rank %d: %d Kraus operators returned" % (min(int(p["r"]), din * dout), len(K)))
    else:
        if not (isinstance(K[0], list) and len(K[0]) == 2):
            raise Violation("non-CP map: documented return is a list of [A, B] pairs")
        A2, B2 = [k[0] for k in K], [k[1] for k in K]
    for a in A2 + B2:
        if a.shape != (dout, din):
            raise Violation("Kraus operator of shape %s for a map M_%d -> M_%d" % (a.shape, din, dout))
    J2 = U.ref_choi(A2, B2)
    U.close(J2, J, "Choi matrix rebuilt (reference formula) from choi_to_kraus output", U.TOL_LAPACK)
    rng = np.random.default_rng(p.get("seed", 0) + 99)
    X = U.rnd(rng, (din, din), "complex")
    U.close(U.ref_apply(A2, B2, X), U.ref_choi_apply(J, X, din, din, dout, dout), "action of the returned Kraus operators", U.TOL_LAPACK)


def c2k_chain(p):
    """Kraus -> Choi -> Kraus -> Choi -> Kraus -> Choi is a fixed point from the first Choi matrix on, and every stage acts alike"""
    import numpy as np

    from props import chan_util as U
    from toqito.channel_ops import apply_channel, choi_to_kraus, kraus_to_choi

    din, dout = int(p["din"]), int(p["dout"])
    _, A, B = _numeric_choi(p)
    form = p.get("form", "pairs")
    phi = U.as_form(A, B, form)
    dim = _dim_arg(p, din, dout)
    rng = np.random.default_rng(p.get("seed", 0) + 7)
    X = U.rnd(rng, (din, din), "complex")
    exp = U.ref_apply(A, B, X)
    J1 = kraus_to_choi(phi)
    U.close(J1, U.ref_choi(A, B), "kraus_to_choi", U.TOL_IDX)
    Jprev = J1
    for stage in (2, 3):
        K = choi_to_kraus(Jprev) if dim is None else choi_to_kraus(Jprev, dim=dim)
        U.close(apply_channel(X, K), exp, "apply_channel on the Kraus operators of stage %d" % stage, U.TOL_LAPACK)
        Jn = kraus_to_choi(K)
        U.close(Jn, J1, "Choi matrix after %d conversions Kraus->Choi" % stage, U.TOL_LAPACK)
        U.close(apply_channel(X, Jn), exp, "apply_channel on the Choi matrix of stage %d" % stage, U.TOL_LAPACK)
        Jprev = Jn


def c2k_rect(p):
    """non-Hermitian (rectangular-space) Choi matrix with dim = [[r, x], [c, y]]: returned pairs reproduce the action"""
    import numpy as np

    from props import chan_util as U
    from toqito.channel_ops import choi_to_kraus
    from vt.contract import Violation

    ri, ci, xo, yo = [int(t) for t in p["rect"]]
    rng = np.random.default_rng([p.get("seed", 0), ri, ci, xo, yo])
    r = int(p["r"])
    A = [U.rnd(rng, (xo, ri), p.get("field", "complex")) for _ in range(r)]
    B = [U.rnd(rng, (yo, ci), p.get("field", "complex")) for _ in range(r)]
    J = U.ref_choi(A, B)
    K = choi_to_kraus(J, dim=[[ri, xo], [ci, yo]])
    if not (isinstance(K, list) and K and isinstance(K[0], list) and len(K[0]) == 2):
        raise Violation("rectangular map: documented return is a list of [A, B] pairs")
    A2, B2 = [k[0] for k in K], [k[1] for k in K]
    if A2[0].shape != (xo, ri) or B2[0].shape != (yo, ci):
        raise Violation("pair shapes %s, %s for a map M_{%d,%d} -> M_{%d,%d}" % (A2[0].shape, B2[0].shape, ri, ci, xo, yo))
    U.close(U.ref_choi(A2, B2), J, "Choi matrix rebuilt from choi_to_kraus output (rectangular spaces)", U.TOL_LAPACK)


# ------------------------------------------------------------------------------------------ channel_dim
def chdim_value(p):
    """channel_dim returns the dimensions the representation was built with (and the number of Kraus operators / the Choi rank)"""
    import numpy as np

    from props import chan_util as U
    from toqito.helper import channel_dim
    from vt.contract import Violation

    ri, ci, xo, yo = U.spaces(p)
    r = int(p["r"])
    rng = np.random.default_rng([p.get("seed", 0), ri, ci, xo, yo, r])
    A = [U.rnd(rng, (xo, ri), "complex") for _ in range(r)]
    cp = p.get("kind", "cp") == "cp"
    B = A if cp else [U.rnd(rng, (yo, ci), "complex") for _ in range(r)]
    form = p["form"]
    kw = {}
    if form == "choi":
        phi = U.ref_choi(A, B)
        df = p.get("dimform", "auto")
        if p.get("rect"):
            kw["dim"] = [[ri, xo], [ci, yo]]
        elif df == "auto":
            if ri != xo:
                kw["dim"] = [ri, xo]
        elif df == "int":
            kw["dim"] = int(ri)
        elif df == "2x2":
            kw["dim"] = [[ri, xo], [ci, yo]]
        elif df == "array":
            kw["dim"] = np.array([ri, xo])
        elif df == "list":
            kw["dim"] = [ri, xo]
        exp_e = min(r, ri * xo, ci * yo)
    else:
        phi = U.as_form(A, B, form)
        if p.get("dimform") == "given":
            kw["dim"] = [[ri, xo], [ci, yo]]
        exp_e = r
    if p.get("no_env"):
        kw["compute_env_dim"] = False
    d_in, d_out, d_e = channel_dim(phi, **kw)
    if list(np.asarray(d_in).ravel()) != [ri, ci] or list(np.asarray(d_out).ravel()) != [xo, yo]:
        raise Violation("channel_dim(%s) = in %s, out %s; the map was built as M_{%d,%d} -> M_{%d,%d}" % (form, d_in, d_out, ri, ci, xo, yo))
    if p.get("no_env") and form == "choi":
        if d_e is not None:
            raise Violation("compute_env_dim=False on a Choi matrix: environment dimension %r returned, documented None" % (d_e,))
    elif int(d_e) != exp_e:
        raise Violation("channel_dim(%s): environment dimension %s, expected %d" % (form, d_e, exp_e))
    if ri == ci and xo == yo:
        d_in2, d_out2, _ = channel_dim(phi, allow_rect=False, **kw)
        if not (np.ndim(d_in2) == 0 and np.ndim(d_out2) == 0 and int(d_in2) == ri and int(d_out2) == xo):
            raise Violation("allow_rect=False: expected scalars (%d, %d), got (%r, %r)" % (ri, xo, d_in2, d_out2))
    else:
        try:
            channel_dim(phi, allow_rect=False, **kw)
        except ValueError:
            return
        raise Violation("allow_rect=False accepted a map on non-square spaces (documented: error)")


CLAUSES = {
    "apply.action": apply_action,
    "k2c.formula": k2c_formula,
    "k2c.apply": k2c_apply,
    "natrep.vec": natrep_vec,
    "natrep.rejects": natrep_rejects,
    "partial.kron": partial_kron,
    "partial.product": partial_product,
    "c2k.action": c2k_action,
    "c2k.chain": c2k_chain,
    "c2k.rect": c2k_rect,
    "chdim.value": chdim_value,
}
_FN = {
    "apply.action": "apply_channel",
    "k2c.formula": "kraus_to_choi",
    "k2c.apply": "kraus_to_choi",
    "natrep.vec": "natural_representation",
    "natrep.rejects": "natural_representation",
    "partial.kron": "partial_channel",
    "partial.product": "partial_channel",
    "c2k.action": "choi_to_kraus",
    "c2k.chain": "choi_to_kraus",
    "c2k.rect": "choi_to_kraus",
    "chdim.value": "channel_dim",
}
for _k, _f in CLAUSES.items():
    _f.function = _FN[_k]
    _f.limit = 60


def cases(tier, seed):
    from props.chan_util import forms_for

    thorough = tier == "thorough"
    out = []

    def add(clause, params, ic, nontrivial=True):
        out.append(dict(clause=clause, params=params, input_class=ic, nontrivial=nontrivial))

    def dk(din, dout):
        return "equal" if din == dout else "unequal"

    # ---------------- symbolic entries: complete per configuration --------------------------------------------
    sym_dims = list(itertools.product((1, 2, 3), repeat=2))
    for din, dout in sym_dims:
        for r in (1, 2, 3):
            nt = not (din == dout == r == 1)
            for kind in ("cp", "noncp"):
                for form in forms_for(kind, r):
                    base = dict(din=din, dout=dout, r=r, kind=kind, form=form, entries="sym", seed=seed)
                    add("apply.action", base, "apply_channel/%s/%s/%s/sym" % (form, kind, dk(din, dout)), nt)
                    add("k2c.formula", base, "kraus_to_choi/%s/%s/%s/sym" % (form, kind, dk(din, dout)), nt)
                    if r <= 2 or thorough or form in ("row", "pairs"):
                        add("k2c.apply", base, "kraus_to_choi+apply_channel/%s/%s/%s/sym" % (form, kind, dk(din, dout)), nt)
                if r <= 2 or thorough:
                    add("apply.action", dict(din=din, dout=dout, r=r, kind=kind, form="choi", entries="sym", seed=seed), "apply_channel/choi/%s/%s/sym" % (kind, dk(din, dout)), nt)
            add("natrep.vec", dict(din=din, dout=dout, r=r, entries="sym", seed=seed), "natural_representation/%s/sym" % dk(din, dout), nt)
        # an arbitrary (non-Hermitian) Choi matrix with one symbol per entry: covers every map M_din -> M_dout
        add("apply.action", dict(din=din, dout=dout, r=0, form="choi-arbitrary", entries="sym", seed=seed), "apply_channel/choi-arbitrary/%s/sym" % dk(din, dout), din * dout > 1)
    for rect in ([1, 2, 2, 1], [2, 1, 1, 2], [2, 3, 1, 2], [2, 1, 3, 2], [1, 2, 3, 2], [2, 2, 1, 3]):
        for r in (1, 2):
            base = dict(rect=rect, r=r, kind="noncp", form="pairs", entries="sym", seed=seed)
            add("apply.action", base, "apply_channel/pairs/rect-spaces/sym")
            add("k2c.formula", base, "kraus_to_choi/pairs/rect-spaces/sym")
            add("k2c.apply", base, "kraus_to_choi+apply_channel/pairs/rect-spaces/sym")
        add("apply.action", dict(rect=rect, r=0, form="choi-arbitrary", entries="sym", seed=seed), "apply_channel/choi-arbitrary/rect-spaces/sym")
    # maps between spaces of column vectors M_{a,1} -> M_{c,1}: the Choi matrix has a single column (F-04e); row spaces M_{1,b} for contrast
    for rect in ([2, 1, 2, 1], [2, 1, 3, 1], [3, 1, 2, 1]):
        for ent_ in ("sym", "complex"):
            add("apply.action", dict(rect=rect, r=0, form="choi-arbitrary", entries=ent_, seed=seed), "apply_channel/choi-arbitrary/column-spaces/%s" % ent_)
    for rect in ([1, 2, 1, 2], [1, 3, 1, 2]):
        add("apply.action", dict(rect=rect, r=0, form="choi-arbitrary", entries="complex", seed=seed), "apply_channel/choi-arbitrary/row-spaces/complex")
    for din, dout in ((2, 2), (2, 3), (3, 2)):
        for kind in ("cp", "noncp"):
            for form in forms_for(kind, 3):
                add("k2c.formula", dict(din=din, dout=dout, r=3 if form == "row" else 2, kind=kind, form=form, entries="sym", seed=seed, sys=1), "kraus_to_choi/sys=1/%s/%s/sym" % (form, kind))

    # partial_channel, symbolic: every position of a 2-/3-partite operator
    surround = [([], [2]), ([2], []), ([2], [2]), ([], [1]), ([1], [2]), ([2], [1]), ([], [])]
    pdims = [(2, 2), (1, 2), (2, 1), (2, 3), (3, 2)] + ([(3, 3), (1, 3), (3, 1)] if thorough else [])
    for before, after in surround:
        for din, dout in pdims:
            for kind, form, r in (("cp", "flat", 2), ("cp", "col", 1), ("cp", "row", 3), ("noncp", "pairs", 2), ("noncp", "choi", 1), ("noncp", "choi-arbitrary", 0)):
                if form == "row" and not (thorough or (din, dout) == (2, 2)):
                    continue
                if (before, after) == ([2], [2]) and din * dout >= 6 and not thorough and form not in ("pairs", "choi-arbitrary"):
                    continue  # quick tier: 12x12 symbolic operands only in the two most general forms
                pos = "pos%d-of-%d" % (len(before) + 1, len(before) + len(after) + 1)
                add("partial.kron", dict(before=before, after=after, din=din, dout=dout, r=r, kind=kind, form=form, entries="sym", seed=seed, dimform="list"), "partial_channel/%s/%s/%s/sym" % (form, pos, dk(din, dout)))
    # rectangular operand (two-row dim) and omitted dim
    for form, kind, r in (("pairs", "noncp", 2), ("choi-arbitrary", "noncp", 0)):
        add("partial.kron", dict(before=[2], after=[], cbefore=[1], cafter=[], rect=[2, 1, 1, 2], r=r, kind=kind, form=form, entries="sym", seed=seed, dimform="2row"), "partial_channel/%s/two-row-dim/sym" % form)
        add("partial.kron", dict(before=[1], after=[2], cbefore=[2], cafter=[1], rect=[2, 2, 2, 3], r=r, kind=kind, form=form, entries="sym", seed=seed, dimform="2row"), "partial_channel/%s/two-row-dim/sym" % form)
    for d in (2, 3):
        for form, kind, r in (("flat", "cp", 2), ("pairs", "noncp", 1), ("choi-arbitrary", "noncp", 0)):
            if d == 3 and form == "choi-arbitrary" and not thorough:
                continue
            add("partial.kron", dict(before=[d], after=[], din=d, dout=d, r=r, kind=kind, form=form, entries="sym", seed=seed, dimform="omitted", sys_default=True), "partial_channel/%s/dim-omitted/sym" % form)
            add("partial.kron", dict(before=[], after=[d], din=d, dout=d, r=r, kind=kind, form=form, entries="sym", seed=seed, dimform="omitted"), "partial_channel/%s/dim-omitted/sym" % form)

    # ---------------- numeric grid (real and complex, up to dimension 4/5) ---------------------------------------
    top = 5 if thorough else 4
    nseeds = 3 if thorough else 1
    for din, dout in itertools.product(range(1, top + 1), repeat=2):
        for r in (1, 2, 4) + ((din * dout + 1,) if thorough else ()):
            for field in ("real", "complex"):
                for kind in ("cp", "noncp"):
                    for s in range(nseeds):
                        for form in forms_for(kind, r) + ["choi"]:
                            base = dict(din=din, dout=dout, r=r, kind=kind, form=form, entries=field, seed=seed + s)
                            nt = not (din == dout == r == 1)
                            add("apply.action", base, "apply_channel/%s/%s/%s/%s" % (form, kind, dk(din, dout), field), nt)
                            if form != "choi":
                                add("k2c.formula", base, "kraus_to_choi/%s/%s/%s/%s" % (form, kind, dk(din, dout), field), nt)
                                if (din + dout + r) % 2 == 0 or thorough:
                                    add("k2c.apply", base, "kraus_to_choi+apply_channel/%s/%s/%s/%s" % (form, kind, dk(din, dout), field), nt)
                if r != 4 or thorough:
                    add("natrep.vec", dict(din=din, dout=dout, r=r, entries=field, seed=seed), "natural_representation/%s/%s" % (dk(din, dout), field))
    add("natrep.rejects", {}, "natural_representation/mixed-shapes")
    # Kraus families whose operators have different numpy dtypes (int64 first, then float64, then complex128), as typed in by hand
    for din, dout in ((2, 2), (2, 3), (3, 2)):
        for kind in ("cp", "noncp"):
            for form in forms_for(kind, 3):
                base = dict(din=din, dout=dout, r=3, kind=kind, form=form, entries="mixed-dtype", seed=seed)
                add("apply.action", base, "apply_channel/%s/%s/mixed-dtype-family" % (form, kind))
                add("k2c.formula", base, "kraus_to_choi/%s/%s/mixed-dtype-family" % (form, kind))
                add("k2c.apply", base, "kraus_to_choi+apply_channel/%s/%s/mixed-dtype-family" % (form, kind))
        add("natrep.vec", dict(din=din, dout=dout, r=3, entries="mixed-dtype", seed=seed), "natural_representation/mixed-dtype-family")
    for before, after in (([2], []), ([], [2]), ([2], [2])):
        for kind, form in (("cp", "flat"), ("noncp", "pairs")):
            add("partial.kron", dict(before=before, after=after, din=2, dout=2, r=3, kind=kind, form=form, entries="mixed-dtype", seed=seed, dimform="list"), "partial_channel/%s/mixed-dtype-family" % form)
    # operators and operands stored Fortran-ordered
    for din, dout in ((2, 2), (2, 3), (3, 2)):
        for kind in ("cp", "noncp"):
            for form in forms_for(kind, 2) + ["choi"]:
                base = dict(din=din, dout=dout, r=2, kind=kind, form=form, entries="fortran", seed=seed)
                add("apply.action", base, "apply_channel/%s/%s/fortran-ordered" % (form, kind))
                if form != "choi":
                    add("k2c.formula", base, "kraus_to_choi/%s/%s/fortran-ordered" % (form, kind))
        add("natrep.vec", dict(din=din, dout=dout, r=2, entries="fortran", seed=seed), "natural_representation/fortran-ordered")
    for kind, form in (("cp", "flat"), ("noncp", "pairs"), ("noncp", "choi")):
        add("partial.kron", dict(before=[2], after=[2], din=2, dout=2, r=2, kind=kind, form=form, entries="fortran", seed=seed, dimform="list"), "partial_channel/%s/fortran-ordered" % form)
    for rect in ([2, 3, 4, 2], [3, 2, 2, 4], [1, 4, 2, 2], [4, 1, 3, 3]):
        for field in ("real", "complex"):
            base = dict(rect=rect, r=3, kind="noncp", form="pairs", entries=field, seed=seed)
            add("apply.action", base, "apply_channel/pairs/rect-spaces/%s" % field)
            add("apply.action", dict(base, form="choi"), "apply_channel/choi/rect-spaces/%s" % field)
            add("k2c.formula", base, "kraus_to_choi/pairs/rect-spaces/%s" % field)
    # partial_channel numeric incl. a 4-partite operand and the product corollary
    for before, after in (([2], [3]), ([3], [2]), ([2, 2], [2]), ([2], [2, 3]), ([], [4]), ([4], [])):
        for din, dout in ((2, 2), (2, 3), (3, 2), (3, 3)):
            if (len(before) + len(after) == 3) and din * dout > 6:
                continue
            for kind, form, r in (("cp", "flat", 3), ("cp", "col", 2), ("cp", "row", 3), ("noncp", "pairs", 2), ("noncp", "choi", 2), ("cp", "choi", 2)):
                for field in ("real", "complex"):
                    pos = "pos%d-of-%d" % (len(before) + 1, len(before) + len(after) + 1)
                    add("partial.kron", dict(before=before, after=after, din=din, dout=dout, r=r, kind=kind, form=form, entries=field, seed=seed, dimform="array" if field == "real" else "list"), "partial_channel/%s/%s/%s/%s" % (form, pos, dk(din, dout), field))
                if len(before) <= 1 and len(after) <= 1:
                    add("partial.product", dict(before=before, after=after, din=din, dout=dout, r=r, kind=kind, form=form, entries="complex", seed=seed), "partial_channel/%s/product-operand" % form)

    # ---------------- choi_to_kraus (numeric only) ---------------------------------------------------------------
    for din, dout in itertools.product(range(1, top + 1), repeat=2):
        ranks = sorted(set([1, 2, din * dout]))
        for r in ranks:
            for field in ("real", "complex"):
                for cls in ("cp", "herm-nonpsd", "nonherm"):
                    if cls == "nonherm" and din * dout == 1 and field == "real":
                        continue  # a real 1x1 matrix is Hermitian
                    for s in range(nseeds):
                        base = dict(din=din, dout=dout, r=r, cls=cls, field=field, seed=seed + s)
                        nt = din * dout > 1
                        add("c2k.action", base, "choi_to_kraus/%s/%s/%s" % (cls, dk(din, dout), field), nt)
                        if din == dout:
                            for df in ("list", "2x2", "int") + (("array",) if thorough else ()):
                                add("c2k.action", dict(base, dimform=df), "choi_to_kraus/%s/equal/dim-given" % cls, nt)
                        elif thorough or r == 2:
                            for df in ("2x2", "array"):
                                add("c2k.action", dict(base, dimform=df), "choi_to_kraus/%s/unequal/dim-given" % cls, nt)
                        if r <= 2 or thorough:
                            for form in (["flat", "pairs"] if cls == "cp" else ["pairs"]):
                                add("c2k.chain", dict(base, form=form), "chain/%s/%s/%s" % (cls, dk(din, dout), field), nt)
    for rect in ([2, 3, 3, 2], [1, 2, 2, 1], [2, 1, 2, 3], [3, 2, 1, 2], [2, 4, 2, 1]):
        for r in (1, 2):
            for field in ("real", "complex"):
                add("c2k.rect", dict(rect=rect, r=r, field=field, seed=seed), "choi_to_kraus/rect-spaces/%s" % field)

    # ---------------- channel_dim: exhaustive for dimensions <= 4 ------------------------------------------------
    for din, dout in itertools.product(range(1, 5), repeat=2):
        for r in (1, 2, 3):
            for kind in ("cp", "noncp"):
                for form in forms_for(kind, r):
                    add("chdim.value", dict(din=din, dout=dout, r=r, kind=kind, form=form, seed=seed), "channel_dim/%s" % form, not (din == dout == 1))
                    if r == 2:
                        add("chdim.value", dict(din=din, dout=dout, r=r, kind=kind, form=form, seed=seed, dimform="given"), "channel_dim/%s/dim-given" % form)
            for df in ("auto", "2x2") + (("int", "list", "array") if din == dout else ("list", "array")):
                add("chdim.value", dict(din=din, dout=dout, r=r, kind="noncp", form="choi", dimform=df, seed=seed), "channel_dim/choi/%s" % dk(din, dout), not (din == dout == 1))
            add("chdim.value", dict(din=din, dout=dout, r=r, kind="cp", form="choi", dimform="auto", seed=seed, no_env=True), "channel_dim/choi/no-env", not (din == dout == 1))
    for rect in itertools.product((1, 2, 3), repeat=4):
        ri, ci, xo, yo = rect
        if ri == ci and xo == yo:
            continue
        add("chdim.value", dict(rect=list(rect), r=2, kind="noncp", form="pairs", seed=seed), "channel_dim/pairs/rect-spaces")
        add("chdim.value", dict(rect=list(rect), r=2, kind="noncp", form="choi", seed=seed), "channel_dim/choi/rect-spaces")
    return out


# =============================================================================================
# frame part: E2 obligations (prover side) and the run-time frame clause (main agent)
# =============================================================================================
from props.C04_prove import prove as prove  # noqa: E402,F401
from props.C04_prove import frame_cases as _frame_cases  # noqa: E402
from props.frame_common import frame_generic as _frame_generic  # noqa: E402

CLAUSES["frame.generic"] = _frame_generic
_cases_bounded = cases


def cases(tier, seed):  # noqa: F811
    return _cases_bounded(tier, seed) + _frame_cases("C04", seed)


LEVEL = "other"
ENGINES = ["E1-pyvc", "E2-frame", "E3-E4-rtc"]
LEVEL_TEXT = ("Mixed. Proved for ALL dimensions and entries (E1-array with the bilinear extension: the real source executed symbolically, callees by contract; the number of "
              "Kraus operators 1..3, the representation form, 1..3 tensor factors and the target position are enumerated): apply_channel == sum_i A_i X B_i^dagger for flat / nested / "
              "paired Kraus forms and == sum_rc X[r,c] J[(r,.),(c,.)] for Choi matrices on square and rectangular operator spaces; kraus_to_choi == sum_ij E_ij (x) Phi(E_ij) "
              "(sys = 2 and sys = 1) with the real channel_dim inlined; partial_channel == id (x) Phi (x) id for Kraus and Choi forms; natural_representation's entries; and the lemmas "
              "apply(X, choi(K)) == sum_i A_i X B_i^dagger and natrep(K) vec_row(X) == vec_row(Phi(X)) over those postconditions. Proved (E2): none of the operations writes through its "
              "arguments. NOT proved, bounded only: choi_to_kraus (eigh / svd), channel_dim on Choi input, dim-omitted calling forms, sparse inputs, floating-point rounding.")
EXPLANATION = LEVEL_TEXT
TECHNIQUE = ("contracts on the real functions discharged from self-generated verification conditions: symbolic execution of the real AST over symbolic-shape arrays whose entries are "
             "sums of products of input entries (E1-array/bilinear; z3 / cvc5 / polynomial normal form), frame clauses by taint analysis (E2), + run-time-checked contracts on symbolic "
             "(sympy) and numeric inputs over a bounded domain")
from props.C04_bilinear import ASSUMED as _BIL_ASSUMED  # noqa: E402

ASSUMPTIONS = list(ASSUMPTIONS) + [a for a in _BIL_ASSUMED if not a.startswith("complementary_channel")]
