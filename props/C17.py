"""C17 -- named states and standard matrices satisfy their defining identities."""
from __future__ import annotations

import itertools

ID = "C17"
TITLE = "named states and standard matrices satisfy their defining identities"
LEVEL = "exploration"
BUDGET = {"quick": 80, "thorough": 600}
EXHAUSTIVE = True  # the stated discrete ranges (dims 2..5, qubit counts 1..5, all index pairs, primes <= 5) are enumerated completely in the quick tier
TECHNIQUE = "run-time-checked contracts on the real functions over a bounded domain (bounded stand-in), exhaustive over the stated finite ranges"
LEVEL_TEXT = (
    "Bounded, exhaustive over the discrete part of the statement: every constructor exported by toqito.states and toqito.matrices is called for every "
    "dimension 1..6 (stated: 2..5), every qubit count 1..5, every index / index pair, every flag combination, and on a parameter grid that contains the "
    "interval end points, the PPT thresholds +- 1e-3 and values just outside the admissible interval; results are compared with closed forms and "
    "structural identities computed by independent numpy code (explicit swap / permutation operators, reshape-based partial trace and partial transpose, "
    "popcount, roots of unity). toqito's partial_trace and is_ppt are used only as callee contracts verified in C02/C15 and always cross-checked against the "
    "independent computation. Invariance statements use seeded Haar unitaries (a sample, not exhaustive). Nothing here is a proof."
)
RULE = (
    "Grid: dims 1..6 x qubit counts 1..5 x all indices/index pairs x flags x parameter grid {end points, threshold-1e-3, threshold, threshold+1e-3, interior, "
    "just outside}; 2 Haar unitaries per dimension from VERIF_SEED (10 in the thorough tier). Non-trivial = dimension >= 2 / qubit count >= 2 (or the whole "
    "family for fixed-size constructors); distinct = distinct (clause, parameters). w_state is compared with tolerance 1e-3 because its docstring shows "
    "the output rounded to 4 decimals (DESIGN F-17b); w_state(1) is not judged (message says 'at least 2', docstring says 'at least 1')."
)
EXPLANATION = LEVEL_TEXT
TRUSTED = [
    "independent numpy oracles (reshape/transposition based partial trace and partial transpose, explicit permutation operators, np.linalg.eigvalsh)",
    "toqito.channels.partial_trace and toqito.state_props.is_ppt as callee contracts (C02, C15), cross-checked here against the numpy oracle",
    "PPT verdicts are judged only at distance >= 1e-3 from the threshold (minimum eigenvalue of the partial transpose then exceeds 1e-5 in modulus, is_ppt tolerance is 1e-8)",
    "tolerance 1e-9 for index-type results, 1e-7 for eigenvalue results, 1e-3 for w_state (documented rounding)",
    "unitaries for the invariance statements are a seeded Haar sample",
]
ASSUMPTIONS = TRUSTED

# =============================================================================================
# executor side
# =============================================================================================
import numpy as np  # noqa: E402

from vt.contract import Undecided, Violation  # noqa: E402,F401

TOL = 1e-7
TOL_IDX = 1e-9


def _rng(p, salt=0):
    return np.random.default_rng([int(p.get("seed", 0)), int(p.get("d", 0)), int(salt)])


def _haar(rng, n):
    A = rng.standard_normal((n, n)) + 1j * rng.standard_normal((n, n))
    q, r = np.linalg.qr(A)
    d = np.diag(r)
    return q * (d / np.abs(d))


def _dag(A):
    return np.asarray(A).conj().T


def _dense(A):
    return A.toarray() if hasattr(A, "toarray") else np.asarray(A)


def _close(got, exp, what, tol=TOL_IDX):
    got = _dense(got)
    exp = np.asarray(exp)
    if got.shape != exp.shape:
        raise Violation("%s: shape %s, required %s" % (what, got.shape, exp.shape))
    dev = float(np.max(np.abs(got - exp))) if exp.size else 0.0
    if not dev <= tol:
        raise Violation("%s: max abs deviation %.3g (tolerance %.1g)" % (what, dev, tol))


def _expect_raises(call, exc, what):
    try:
        r = call()
    except exc:
        return
    except Exception as e:  # noqa: BLE001
        raise Violation("%s: documented %s, raised %s: %s" % (what, exc.__name__, type(e).__name__, str(e)[:200]))
    raise Violation("%s: documented %s, but the call returned %s" % (what, exc.__name__, str(type(r))))


def _ket(d, i):
    x = np.zeros(d)
    x[i] = 1.0
    return x


def _swap(d):
    S = np.zeros((d * d, d * d))
    for i in range(d):
        for j in range(d):
            S[i * d + j, j * d + i] = 1
    return S


def _perm_op(d, perm):
    """P (v_0 (x) ... (x) v_{n-1}) = v_{perm[0]} (x) ... (x) v_{perm[n-1]}   (the C01 contract of permutation_operator)"""
    n = len(perm)
    N = d**n
    P = np.zeros((N, N))
    for idx in itertools.product(range(d), repeat=n):
        src = 0
        for k in range(n):
            src = src * d + idx[k]
        dst = 0
        for k in range(n):
            dst = dst * d + idx[perm[k]]
        P[dst, src] = 1
    return P


def _ptrace(rho, dims, keep):
    """partial trace keeping the subsystems in `keep` (reshape / einsum based, independent of toqito)"""
    n = len(dims)
    t = np.asarray(rho).reshape(list(dims) + list(dims))
    for k in sorted((i for i in range(n) if i not in keep), reverse=True):
        t = np.trace(t, axis1=k, axis2=k + t.ndim // 2)
    m = int(np.prod([dims[i] for i in keep]))
    return t.reshape(m, m)


def _ptranspose(rho, dims, sys):
    dA, dB = dims
    t = np.asarray(rho).reshape(dA, dB, dA, dB)
    t = t.transpose(0, 3, 2, 1) if sys == 1 else t.transpose(2, 1, 0, 3)
    return t.reshape(dA * dB, dA * dB)


def _min_eig(M):
    return float(np.linalg.eigvalsh((M + _dag(M)) / 2)[0])


def _check_density(rho, what, psd=True, tol=TOL):
    rho = _dense(rho)
    if rho.ndim != 2 or rho.shape[0] != rho.shape[1]:
        raise Violation("%s: not a square matrix (shape %s)" % (what, rho.shape))
    if abs(np.trace(rho) - 1) > tol:
        raise Violation("%s: trace %.10g, documented normalisation is 1" % (what, np.trace(rho).real))
    if np.max(np.abs(rho - _dag(rho))) > tol:
        raise Violation("%s: not Hermitian (max |rho - rho^dagger| = %.3g)" % (what, float(np.max(np.abs(rho - _dag(rho))))))
    if psd and _min_eig(rho) < -tol:
        raise Violation("%s: minimum eigenvalue %.3g < 0" % (what, _min_eig(rho)))


def _schmidt(v, dA, dB):
    return np.linalg.svd(np.asarray(v).reshape(dA, dB), compute_uv=False)


def _popcount(x):
    return bin(x).count("1")


# ---------------------------------------------------------------------------------------------
# states
# ---------------------------------------------------------------------------------------------
def bell_basis(p):
    """bell(0..3) are the four documented vectors: an orthonormal basis of maximally entangled two-qubit states; other indices raise ValueError"""
    from toqito.channels import partial_trace
    from toqito.states import bell

    s = 1 / np.sqrt(2)
    doc = [s * np.array([1, 0, 0, 1.0]), s * np.array([1, 0, 0, -1.0]), s * np.array([0, 1, 1, 0.0]), s * np.array([0, 1, -1, 0.0])]
    vs = []
    for i in range(4):
        v = bell(i)
        _close(v, doc[i].reshape(4, 1), "bell(%d)" % i)
        vs.append(np.asarray(v).reshape(-1))
    V = np.array(vs)
    _close(V.conj() @ V.T, np.eye(4), "Gram matrix of the Bell basis")
    for i, v in enumerate(vs):
        rho = np.outer(v, v.conj())
        for keep in (0, 1):
            _close(_ptrace(rho, [2, 2], [keep]), np.eye(2) / 2, "marginal %d of bell(%d)" % (keep, i))
            _close(partial_trace(rho, [1 - keep], [2, 2]), np.eye(2) / 2, "toqito partial_trace marginal %d of bell(%d)" % (keep, i))
    for bad in (4, -1, 7):
        _expect_raises(lambda: bell(bad), ValueError, "bell(%d)" % bad)


bell_basis.function = "bell"


def _weyl(d, k1, k2):
    X = np.zeros((d, d))
    for j in range(d):
        X[(j + 1) % d, j] = 1
    w = np.exp(2j * np.pi / d)
    Z = np.diag([w**j for j in range(d)])
    return np.linalg.matrix_power(X, k1) @ np.linalg.matrix_power(Z, k2)


def gen_bell_basis(p):
    """the d^2 generalised Bell states are rank-one density matrices, pairwise orthogonal (an orthonormal basis), equal to |W><W|/d with W = X^k1 Z^k2"""
    from toqito.states import bell, gen_bell

    d = p["d"]
    rhos = {}
    for k1 in range(d):
        for k2 in range(d):
            r = gen_bell(k1, k2, d)
            _check_density(r, "gen_bell(%d,%d,%d)" % (k1, k2, d))
            w = _weyl(d, k1, k2).reshape(-1, order="F")
            _close(r, np.outer(w, w.conj()) / d, "gen_bell(%d,%d,%d) vs |vec W><vec W|/d" % (k1, k2, d))
            rhos[(k1, k2)] = np.asarray(r)
    keys = sorted(rhos)
    R = np.array([rhos[k].reshape(-1) for k in keys])
    _close(R.conj() @ R.T, np.eye(d * d), "Tr(rho_a rho_b) over all %d generalised Bell states" % (d * d), 1e-9)
    _close(sum(rhos.values()), np.eye(d * d), "sum of all generalised Bell projectors (completeness)", 1e-9)
    if d == 2:
        for i, (k1, k2) in enumerate([(0, 0), (0, 1), (1, 0), (1, 1)]):
            b = np.asarray(bell(i)).reshape(-1)
            _close(rhos[(k1, k2)], np.outer(b, b.conj()), "documented correspondence bell(%d) = gen_bell(%d,%d,2)" % (i, k1, k2))


gen_bell_basis.function = "gen_bell"


def gen_bell_maxent(p):
    """each generalised Bell state has maximally mixed marginals (numpy oracle and toqito partial_trace) and is invariant under the index period d"""
    from toqito.channels import partial_trace
    from toqito.states import gen_bell

    d, k1, k2 = p["d"], p["k1"], p["k2"]
    r = np.asarray(gen_bell(k1, k2, d))
    for keep in (0, 1):
        _close(_ptrace(r, [d, d], [keep]), np.eye(d) / d, "marginal %d of gen_bell(%d,%d,%d)" % (keep, k1, k2, d), 1e-9)
        _close(partial_trace(r, [1 - keep], [d, d]), np.eye(d) / d, "toqito partial_trace: marginal %d" % keep, 1e-9)
    if abs(np.trace(r @ r) - 1) > 1e-9:
        raise Violation("gen_bell(%d,%d,%d) is not pure: Tr rho^2 = %.10g" % (k1, k2, d, np.trace(r @ r).real))
    _close(gen_bell(k1 + d, k2, d), r, "gen_bell periodic in k_1", 1e-9)
    _close(gen_bell(k1, k2 + d, d), r, "gen_bell periodic in k_2", 1e-9)


gen_bell_maxent.function = "gen_bell"


def max_entangled_structure(p):
    """max_entangled(d, sparse, normalized) = sum_j |jj> (/ sqrt d): norm as documented, maximally mixed marginals, U (x) conj(U) invariant"""
    from toqito.channels import partial_trace
    from toqito.states import max_entangled

    d, sparse, normalized = p["d"], p["sparse"], p["normalized"]
    psi = max_entangled(d, sparse, normalized)
    if sparse and not hasattr(psi, "toarray"):
        raise Violation("max_entangled(is_sparse=True) returned %s" % type(psi).__name__)
    v = _dense(psi)
    exp = np.zeros((d * d, 1))
    for j in range(d):
        exp[j * d + j, 0] = 1.0 / np.sqrt(d) if normalized else 1.0
    _close(v, exp, "max_entangled(%d, %s, %s)" % (d, sparse, normalized))
    nrm = np.linalg.norm(v)
    want = 1.0 if normalized else np.sqrt(d)
    if abs(nrm - want) > TOL_IDX:
        raise Violation("max_entangled norm %.10g, documented %.10g" % (nrm, want))
    rho = (v @ _dag(v)) / nrm**2
    for keep in (0, 1):
        _close(_ptrace(rho, [d, d], [keep]), np.eye(d) / d, "marginal %d of the maximally entangled state" % keep)
        _close(partial_trace(rho, [1 - keep], [d, d]), np.eye(d) / d, "toqito partial_trace marginal %d" % keep)
    U = _haar(_rng(p, 1), d)
    _close(np.kron(U, U.conj()) @ v, v, "U (x) conj(U) invariance", 1e-9)
    s = _schmidt(v / nrm, d, d)
    _close(s, np.ones(d) / np.sqrt(d), "Schmidt coefficients")


max_entangled_structure.function = "max_entangled"


def _perm_symmetric(v, d, n, what, tol=TOL_IDX):
    t = np.asarray(v).reshape([d] * n)
    perms = itertools.permutations(range(n)) if n <= 4 else [tuple(range(n))[1:] + (0,), (1, 0) + tuple(range(2, n))]
    for perm in perms:
        if np.max(np.abs(t.transpose(perm) - t)) > tol:
            raise Violation("%s is not invariant under the subsystem permutation %s" % (what, list(perm)))


def ghz_structure(p):
    """ghz(d, n, coeff) = sum_i c_i |i>^{(x) n}: support, values, unit norm, permutation symmetry"""
    from toqito.perms import permute_systems
    from toqito.states import ghz

    d, n, kind = p["d"], p["n"], p["coeff"]
    if kind == "default":
        c = np.ones(d) / np.sqrt(d)
        v = ghz(d, n)
    else:
        rng = _rng(p, n)
        c = rng.random(d) + 0.2
        if kind == "signed":
            c = c * rng.choice([-1.0, 1.0], d)
        c = c / np.linalg.norm(c)
        # coefficients given with another overall scale (weights rather than amplitudes) are normalised by the constructor
        sc = {"scaled-down": 0.4, "scaled-up": 3.0}.get(kind, 1.0)
        v = ghz(d, n, list(c * sc) if kind != "array" else c)
    exp = np.zeros((d**n, 1))
    for i in range(d):
        exp[sum(i * d**k for k in range(n)), 0] = 0  # placeholder to make the index formula explicit below
    for i in range(d):
        idx = 0
        for _ in range(n):
            idx = idx * d + i
        exp[idx, 0] += c[i]
    _close(v, exp, "ghz(%d, %d, %s)" % (d, n, kind))
    if abs(np.linalg.norm(v) - 1) > TOL_IDX:
        raise Violation("ghz norm %.10g" % np.linalg.norm(v))
    _perm_symmetric(v, d, n, "ghz(%d,%d)" % (d, n))
    if 2 <= n <= 4 and d >= 2:
        perm = list(range(1, n)) + [0]
        _close(np.asarray(permute_systems(np.asarray(v).reshape(-1), perm, [d] * n)).reshape(-1), np.asarray(v).reshape(-1), "toqito permute_systems leaves ghz invariant")
    if n >= 2 and d >= 2:
        rho = np.asarray(v) @ _dag(v)
        _close(_ptrace(rho, [d] * n, [0]), np.diag(c**2), "one-party marginal of ghz is diag(|c_i|^2)")


ghz_structure.function = "ghz"


def ghz_errors(p):
    """documented ValueErrors of ghz"""
    from toqito.states import ghz

    _expect_raises(lambda: ghz(0, 2), ValueError, "ghz(dim=0)")
    _expect_raises(lambda: ghz(2, 0), ValueError, "ghz(num_qubits=0)")
    _expect_raises(lambda: ghz(3, 2, [1, 1]), ValueError, "ghz(coeff of wrong length)")


ghz_errors.function = "ghz"


def w_structure(p):
    """w_state(n, coeff): support on the n weight-one basis states, documented amplitudes (output rounded to 4 decimals), symmetric for default coefficients"""
    from toqito.states import w_state

    n, kind = p["n"], p["coeff"]
    tol = 1e-3
    if kind == "default":
        c = np.ones(n) / np.sqrt(n)
        v = w_state(n)
    elif kind == "integers":  # the documented type of `coeff` is list[int]: un-normalised weights, the state is normalised (docstring: "Normalize coefficients")
        raw = [1 + (3 * j + n) % 4 for j in range(n)]
        c = np.array(raw, dtype=float) / np.linalg.norm(raw)
        v = w_state(n, list(raw))
    else:
        rng = _rng(p, n)
        c = rng.random(n) + 0.2
        c = c / np.linalg.norm(c)
        v = w_state(n, list(c))
    v = _dense(v)
    if v.shape != (2**n, 1):
        raise Violation("w_state(%d) has shape %s" % (n, v.shape))
    exp = np.zeros((2**n, 1))
    for j in range(n):  # coefficient j multiplies |0..010..0> with the 1 on qubit j (first qubit most significant)
        exp[2 ** (n - 1 - j), 0] = c[j]
    _close(v, exp, "w_state(%d, %s)" % (n, kind), tol)
    for i in range(2**n):
        if _popcount(i) != 1 and v[i, 0] != 0:
            raise Violation("w_state(%d) has a non-zero amplitude %.3g on |%s> (weight %d)" % (n, v[i, 0], np.binary_repr(i, n), _popcount(i)))
    if abs(np.linalg.norm(v) - 1) > tol:
        raise Violation("w_state(%d) norm %.6g (tolerance 1e-3 for the documented rounding)" % (n, np.linalg.norm(v)))
    if kind == "default":
        _perm_symmetric(v, 2, n, "w_state(%d)" % n, tol)


w_structure.function = "w_state"


def w_errors(p):
    from toqito.states import w_state

    _expect_raises(lambda: w_state(0), ValueError, "w_state(0)")
    _expect_raises(lambda: w_state(-1), ValueError, "w_state(-1)")
    _expect_raises(lambda: w_state(3, [1, 1]), ValueError, "w_state(coeff of wrong length)")


w_errors.function = "w_state"


def dicke_structure(p):
    """dicke(n, k): equal superposition of all weight-k basis states (norm 1, symmetric); density-matrix form is its projector; k > n raises"""
    from math import comb

    from toqito.states import dicke

    n, k = p["n"], p["k"]
    if k > n:
        _expect_raises(lambda: dicke(n, k), ValueError, "dicke(%d, %d)" % (n, k))
        return
    v = np.asarray(dicke(n, k))
    exp = np.array([1.0 / np.sqrt(comb(n, k)) if _popcount(i) == k else 0.0 for i in range(2**n)])
    _close(v.reshape(-1), exp, "dicke(%d, %d)" % (n, k))
    if abs(np.linalg.norm(v) - 1) > TOL_IDX:
        raise Violation("dicke norm %.10g" % np.linalg.norm(v))
    _perm_symmetric(v, 2, n, "dicke(%d,%d)" % (n, k))
    rho = dicke(n, k, True)
    _close(rho, np.outer(exp, exp), "dicke(%d, %d, return_dm=True)" % (n, k))
    _check_density(rho, "dicke density matrix")


dicke_structure.function = "dicke"


def _werner_ref(d, a):
    return (np.eye(d * d) - a * _swap(d)) / (d * d - d * a)


def werner_formula(p):
    """werner(d, alpha) == (I - alpha S)/(d^2 - d alpha) (documented closed form), trace one, Hermitian; PSD exactly for alpha in [-1, 1]"""
    from toqito.states import werner

    d, a = p["d"], float(p["alpha"])
    rho = werner(d, a)
    _close(rho, _werner_ref(d, a), "werner(%d, %.6g) vs documented closed form" % (d, a), 1e-9)
    _check_density(rho, "werner(%d, %.6g)" % (d, a), psd=(-1 <= a <= 1))
    if abs(a) > 1 + 1e-4 and _min_eig(_dense(rho)) > -1e-9:
        raise Violation("werner(%d, %.6g): closed form is not PSD outside [-1, 1], returned matrix is" % (d, a))


werner_formula.function = "werner"


def werner_invariance(p):
    """(U (x) U) werner (U (x) U)^dagger == werner for Haar U"""
    from toqito.states import werner

    d, a = p["d"], float(p["alpha"])
    rho = _dense(werner(d, a))
    U = _haar(_rng(p, 2), d)
    UU = np.kron(U, U)
    _close(UU @ rho @ _dag(UU), rho, "U (x) U invariance of werner(%d, %.4g)" % (d, a), 1e-9)
    S = _swap(d)
    _close(S @ rho @ S, rho, "swap invariance of the Werner state", 1e-9)


werner_invariance.function = "werner"


def _ppt_clause(name, make, threshold_doc):
    def below(p):
        from toqito.state_props import is_ppt

        d, a = p["d"], float(p["alpha"])
        rho = _dense(make(d, a))
        for sys in (1, 2):
            m = _min_eig(_ptranspose(rho, [d, d], sys))
            if m < -TOL:
                raise Violation("%s(%d, %.6g) lies below the PPT threshold (%s) but its partial transpose on system %d has minimum eigenvalue %.3g" % (name, d, a, threshold_doc, sys, m))
            if not is_ppt(rho, sys, [d, d]):
                raise Violation("is_ppt(%s(%d, %.6g), sys=%d) is False below the threshold (numpy oracle: min eigenvalue %.3g)" % (name, d, a, sys, m))

    def above(p):
        from toqito.state_props import is_ppt

        d, a = p["d"], float(p["alpha"])
        rho = _dense(make(d, a))
        for sys in (1, 2):
            m = _min_eig(_ptranspose(rho, [d, d], sys))
            if m > -1e-6:
                raise Violation("%s(%d, %.6g) lies above the PPT threshold (%s) but its partial transpose on system %d has minimum eigenvalue %.3g" % (name, d, a, threshold_doc, sys, m))
            if is_ppt(rho, sys, [d, d]):
                raise Violation("is_ppt(%s(%d, %.6g), sys=%d) is True above the threshold (numpy oracle: min eigenvalue %.3g)" % (name, d, a, sys, m))

    below.function = above.function = name
    below.__doc__ = "%s is PPT for every admissible parameter below %s" % (name, threshold_doc)
    above.__doc__ = "%s is not PPT for every admissible parameter above %s" % (name, threshold_doc)
    return below, above


def _mk_werner(d, a):
    from toqito.states import werner

    return werner(d, a)


def _mk_iso(d, a):
    from toqito.states import isotropic

    return isotropic(d, a)


werner_ppt_below, werner_ppt_above = _ppt_clause("werner", _mk_werner, "alpha = 1/d")
isotropic_ppt_below, isotropic_ppt_above = _ppt_clause("isotropic", _mk_iso, "alpha = 1/(d+1)")


def werner_list_scalar(p):
    """werner(d, [alpha]) (one-parameter list form, p = 2) == werner(d, alpha)"""
    from toqito.states import werner

    d, a = p["d"], float(p["alpha"])
    got = _dense(werner(d, [a]))
    exp = _werner_ref(d, a)
    if got.shape != exp.shape or np.max(np.abs(got - exp)) > 1e-9:
        raise Violation("werner(%d, [%.4g]) differs from werner(%d, %.4g) by %.3g (from the maximally mixed state by %.3g)" % (d, a, d, a, float(np.max(np.abs(got - exp))), float(np.max(np.abs(got - np.eye(d * d) / d**2)))))


werner_list_scalar.function = "werner"

_LEX3 = [(0, 1, 2), (0, 2, 1), (1, 0, 2), (1, 2, 0), (2, 0, 1), (2, 1, 0)]


def werner_multipartite(p):
    """werner(d, [a_1..a_5]) == normalisation of I - sum_k a_k P(k+1), P(i) = permutation operator of the i-th permutation in lexicographic order (documented)"""
    from toqito.states import werner

    d, al = p["d"], [float(x) for x in p["alpha"]]
    got = _dense(werner(d, list(al)))
    M = np.eye(d**3)
    for k in range(5):
        M = M - al[k] * _perm_op(d, _LEX3[k + 1])
    exp = M / np.trace(M)
    if got.shape != exp.shape:
        raise Violation("werner(%d, 5 parameters) has shape %s" % (d, got.shape))
    dev = float(np.max(np.abs(got - exp)))
    if dev > 1e-9:
        raise Violation("werner(%d, %s) differs from the documented I - sum_k alpha_k P(k+1) (normalised) by %.3g; e.g. entry [0,0] = %.6g, documented %.6g" % (d, al, dev, got[0, 0].real, exp[0, 0].real))


werner_multipartite.function = "werner"


def werner_multipartite_invariance(p):
    """multipartite Werner states have trace one and commute with U (x) U (x) U"""
    from toqito.states import werner

    d, al = p["d"], [float(x) for x in p["alpha"]]
    rho = _dense(werner(d, list(al)))
    if abs(np.trace(rho) - 1) > TOL_IDX:
        raise Violation("multipartite werner trace %.10g" % np.trace(rho).real)
    U = _haar(_rng(p, 3), d)
    UUU = np.kron(np.kron(U, U), U)
    _close(UUU @ rho @ _dag(UUU), rho, "U (x) U (x) U invariance of the multipartite Werner state", 1e-9)


werner_multipartite_invariance.function = "werner"


def werner_errors(p):
    from toqito.states import werner

    _expect_raises(lambda: werner(2, [0.5, 0.6, 0.7]), ValueError, "werner(alpha of length 3)")
    _expect_raises(lambda: werner(2, "x"), ValueError, "werner(alpha='x')")


werner_errors.function = "werner"


def isotropic_formula(p):
    """isotropic(d, alpha) == (1-alpha) I/d^2 + alpha |psi+><psi+| (documented), trace one; PSD exactly for alpha in [-1/(d^2-1), 1]"""
    from toqito.states import isotropic

    d, a = p["d"], float(p["alpha"])
    rho = _dense(isotropic(d, a))
    psi = np.zeros(d * d)
    for j in range(d):
        psi[j * d + j] = 1 / np.sqrt(d)
    exp = (1 - a) * np.eye(d * d) / d**2 + a * np.outer(psi, psi)
    _close(rho, exp, "isotropic(%d, %.6g) vs documented closed form" % (d, a), 1e-9)
    lo = -1.0 / (d * d - 1)
    _check_density(rho, "isotropic(%d, %.6g)" % (d, a), psd=(lo <= a <= 1))
    if (a > 1 + 1e-4 or a < lo - 1e-4) and _min_eig(rho) > -1e-9:
        raise Violation("isotropic(%d, %.6g) is PSD outside the admissible interval" % (d, a))


isotropic_formula.function = "isotropic"


def isotropic_invariance(p):
    """(U (x) conj U) isotropic (U (x) conj U)^dagger == isotropic for Haar U"""
    from toqito.states import isotropic

    d, a = p["d"], float(p["alpha"])
    rho = _dense(isotropic(d, a))
    U = _haar(_rng(p, 4), d)
    W = np.kron(U, U.conj())
    _close(W @ rho @ _dag(W), rho, "U (x) conj(U) invariance of isotropic(%d, %.4g)" % (d, a), 1e-9)


isotropic_invariance.function = "isotropic"


def horodecki_ppt(p):
    """horodecki(a, dim) is a density matrix with positive partial transpose for every a in [0,1] (3x3 and 2x4); a outside [0,1] or another dim raises ValueError"""
    from toqito.state_props import is_ppt
    from toqito.states import horodecki

    a, dims, form = float(p["a"]), p["dims"], p.get("form", "list")
    if a < 0 or a > 1:
        _expect_raises(lambda: horodecki(a, list(dims)), ValueError, "horodecki(%.4g)" % a)
        return
    arg = None if form == "default" else (np.array(dims) if form == "array" else list(dims))
    rho = horodecki(a) if arg is None else horodecki(a, arg)
    rho = _dense(rho)
    N = dims[0] * dims[1]
    if rho.shape != (N, N):
        raise Violation("horodecki(%.4g, %s) has shape %s" % (a, dims, rho.shape))
    _check_density(rho, "horodecki(%.4g, %s)" % (a, dims))
    for sys in (1, 2):
        m = _min_eig(_ptranspose(rho, dims, sys))
        if m < -TOL:
            raise Violation("horodecki(%.4g, %s): partial transpose on system %d has minimum eigenvalue %.3g" % (a, dims, sys, m))
        if not is_ppt(rho, sys, list(dims)):
            raise Violation("is_ppt(horodecki(%.4g, %s), sys=%d) is False (numpy oracle: min eigenvalue %.3g)" % (a, dims, sys, m))
    if 0 < a < 1:
        # entangled although PPT: the range criterion is not checked; realignment detects the 3x3 family
        pass


horodecki_ppt.function = "horodecki"


def horodecki_errors(p):
    from toqito.states import horodecki

    _expect_raises(lambda: horodecki(0.5, [2, 3]), ValueError, "horodecki(dim=[2,3])")
    _expect_raises(lambda: horodecki(0.5, [4, 2]), ValueError, "horodecki(dim=[4,2])")


horodecki_errors.function = "horodecki"


def _product_basis(vs, dA, dB, what):
    V = np.array([np.asarray(v).reshape(-1) for v in vs])
    _close(V.conj() @ V.T, np.eye(len(vs)), "Gram matrix of the %s vectors (orthonormal)" % what)
    for i, v in enumerate(V):
        s = _schmidt(v, dA, dB)
        if s[1] > 1e-9:
            raise Violation("%s(%d) is not a product vector: Schmidt coefficients %s" % (what, i, np.round(s, 6)))


def tile_basis(p):
    """tile(0..4): five orthonormal product vectors in 3 (x) 3 equal to the documented ones; no product vector in the orthogonal complement of the span is checked in C16"""
    from toqito.states import tile

    e = [_ket(3, i) for i in range(3)]
    s = 1 / np.sqrt(2)
    doc = [s * np.kron(e[0], e[0] - e[1]), s * np.kron(e[0] - e[1], e[2]), s * np.kron(e[2], e[1] - e[2]), s * np.kron(e[1] - e[2], e[0]), np.kron(e[0] + e[1] + e[2], e[0] + e[1] + e[2]) / 3]
    vs = [tile(i) for i in range(5)]
    for i in range(5):
        _close(vs[i], doc[i].reshape(9, 1), "tile(%d)" % i)
    _product_basis(vs, 3, 3, "tile")
    for bad in (5, -1):
        _expect_raises(lambda: tile(bad), ValueError, "tile(%d)" % bad)


tile_basis.function = "tile"


def domino_basis(p):
    """domino(0..8): a complete orthonormal product basis of 3 (x) 3"""
    from toqito.states import domino

    vs = [domino(i) for i in range(9)]
    for v in vs:
        if np.asarray(v).shape != (9, 1):
            raise Violation("domino vector has shape %s" % (np.asarray(v).shape,))
    _product_basis(vs, 3, 3, "domino")
    V = np.array([np.asarray(v).reshape(-1) for v in vs])
    _close(V.T @ V.conj(), np.eye(9), "completeness of the domino basis")
    for bad in (9, -1):
        _expect_raises(lambda: domino(bad), ValueError, "domino(%d)" % bad)


domino_basis.function = "domino"


def mub_unbiased(p):
    """mutually_unbiased_basis(d), d prime: d+1 orthonormal bases, |<u,v>|^2 = 1/d across bases; d = 4 (prime power) and d = 6 raise ValueError as documented"""
    from toqito.states import mutually_unbiased_basis

    d = p["d"]
    if d in (4, 6, 8, 9, 10):
        _expect_raises(lambda: mutually_unbiased_basis(d), ValueError, "mutually_unbiased_basis(%d)" % d)
        return
    vs = mutually_unbiased_basis(d)
    if len(vs) != d * (d + 1):
        raise Violation("mutually_unbiased_basis(%d) returned %d vectors, expected d(d+1) = %d" % (d, len(vs), d * (d + 1)))
    B = [np.array([np.asarray(v).reshape(-1) for v in vs[b * d : (b + 1) * d]]).T for b in range(d + 1)]
    for b in range(d + 1):
        _close(_dag(B[b]) @ B[b], np.eye(d), "basis %d of mutually_unbiased_basis(%d) orthonormal" % (b, d), TOL)
    for a in range(d + 1):
        for b in range(a + 1, d + 1):
            ov = np.abs(_dag(B[a]) @ B[b]) ** 2
            if np.max(np.abs(ov - 1.0 / d)) > TOL:
                raise Violation("bases %d and %d of mutually_unbiased_basis(%d) are biased: |<u,v>|^2 ranges over [%.6g, %.6g], expected %.6g" % (a, b, d, ov.min(), ov.max(), 1.0 / d))


mub_unbiased.function = "mutually_unbiased_basis"


def states_misc(p):
    """remaining constructors: documented normalisation and defining structure"""
    kind = p["kind"]
    import toqito.states as S

    rng = _rng(p, 9)
    if kind == "singlet":
        d = p["d"]
        rho = _dense(S.singlet(d))
        _close(rho, (np.eye(d * d) - _swap(d)) / (d * d - d), "singlet(%d) = normalised antisymmetric projector" % d)
        _check_density(rho, "singlet(%d)" % d)
        _close(rho, S.werner(d, 1.0), "singlet(d) == werner(d, 1)")
        U = _haar(rng, d)
        _close(np.kron(U, U) @ rho @ _dag(np.kron(U, U)), rho, "U (x) U invariance of the singlet state", 1e-9)
    elif kind == "breuer":
        d, lam = p["d"], float(p["lam"])
        if d % 2:
            _expect_raises(lambda: S.breuer(d, lam), ValueError, "breuer(odd dim %d)" % d)
            return
        rho = _dense(S.breuer(d, lam))
        _check_density(rho, "breuer(%d, %.3g)" % (d, lam), psd=(0 <= lam <= 1))
        Psym = (np.eye(d * d) + _swap(d)) / 2
        rest = rho - (1 - lam) * 2 * Psym / (d * (d + 1))
        if lam > 0:
            w = np.linalg.eigvalsh((rest + _dag(rest)) / 2)
            if abs(w[-1] - lam) > 1e-9 or np.max(np.abs(w[:-1])) > 1e-9:
                raise Violation("breuer(%d, %.3g) minus the symmetric part is not lam times a pure state (eigenvalues %s)" % (d, lam, np.round(w[-3:], 6)))
            v = np.linalg.eigh((rest + _dag(rest)) / 2)[1][:, -1]
            _close(_schmidt(v, d, d), np.ones(d) / np.sqrt(d), "Schmidt coefficients of the Breuer singlet component", 1e-7)
    elif kind == "gisin":
        lam, th = float(p["lam"]), float(p["theta"])
        if lam < 0 or lam > 1:
            _expect_raises(lambda: S.gisin(lam, th), ValueError, "gisin(lambda=%.3g)" % lam)
            return
        rho = _dense(S.gisin(lam, th))
        s, c = np.sin(th), np.cos(th)
        v = np.array([0, s, -c, 0])
        exp = lam * np.outer(v, v) + (1 - lam) / 2 * np.diag([1.0, 0, 0, 1.0])
        _close(rho, exp, "gisin(%.3g, %.3g) vs documented formula" % (lam, th))
        _check_density(rho, "gisin")
    elif kind == "chessboard":
        cx = p.get("cx", False)
        prm = rng.standard_normal(6) + (1j * rng.standard_normal(6) if cx else 0)
        prm = [complex(x) if cx else float(x) for x in prm]
        rho = _dense(S.chessboard(prm))
        if rho.shape != (9, 9):
            raise Violation("chessboard state has shape %s" % (rho.shape,))
        _check_density(rho, "chessboard(%s params)" % ("complex" if cx else "real"))
        r = np.linalg.matrix_rank(rho, tol=1e-9)
        if r > 4:
            raise Violation("chessboard state has rank %d > 4" % r)
        rho2 = _dense(S.chessboard(prm, 0.3, -0.2))
        _check_density(rho2, "chessboard with explicit s, t")
        # explicit s and t (a zero is a value like any other): the Bruss-Peres form sum_k |v_k><v_k| / trace with the four documented vectors
        a, b, c, d, m, n = prm
        for sp_, tp_ in ((0.3, -0.2), (0, 0.5), (0.7, 0), (0.0, 0.0)):
            vs = [[m, 0, sp_, 0, n, 0, 0, 0, 0], [0, a, 0, b, 0, c, 0, 0, 0], [np.conj(n), 0, 0, 0, -np.conj(m), 0, tp_, 0, 0], [0, np.conj(b), 0, -np.conj(a), 0, 0, 0, d, 0]]
            exp = sum(np.outer(np.conj(v), np.asarray(v)) for v in (np.asarray(v_, dtype=complex) for v_ in vs))
            exp = exp / np.trace(exp)
            _close(_dense(S.chessboard(prm, sp_, tp_)), exp, "chessboard(params, s=%r, t=%r) vs the documented vectors" % (sp_, tp_))
    elif kind == "brauer":
        d, pv = p["d"], p["p"]
        M = _dense(S.brauer(d, pv))
        n = 2 * pv
        matchings = _matchings(list(range(n)))
        if M.shape != (d**n, len(matchings)):
            raise Violation("brauer(%d, %d) has shape %s, expected (%d, %d)" % (d, pv, M.shape, d**n, len(matchings)))
        ref = set()
        for mt in matchings:
            v = np.zeros([d] * n)
            for idx in itertools.product(range(d), repeat=n):
                if all(idx[a] == idx[b] for a, b in mt):
                    v[idx] = 1
            ref.add(tuple(int(x) for x in v.reshape(-1)))
        got = set()
        for j in range(M.shape[1]):
            col = M[:, j]
            if np.max(np.abs(col - np.round(col))) > 1e-12:
                raise Violation("brauer column %d has non-integer entries" % j)
            got.add(tuple(int(round(x)) for x in col.real))
        if got != ref:
            raise Violation("columns of brauer(%d, %d) are not exactly the %d pairings of unnormalised maximally entangled states (%d distinct columns, %d of them expected)" % (d, pv, len(ref), len(got), len(got & ref)))
    elif kind == "trine":
        vs = [np.asarray(v).reshape(-1) for v in S.trine()]
        if len(vs) != 3:
            raise Violation("trine returned %d states" % len(vs))
        G = np.array([[np.vdot(a, b) for b in vs] for a in vs])
        _close(G, 1.5 * np.eye(3) - 0.5 * np.ones((3, 3)), "Gram matrix of the trine states (unit norm, overlaps -1/2)")
        _close(sum(np.outer(v, v.conj()) for v in vs), 1.5 * np.eye(2), "trine frame operator")
    elif kind == "pbr":
        n, th = p["n"], float(p["theta"])
        vs = [np.asarray(v).reshape(-1) for v in S.pusey_barrett_rudolph(n, th)]
        if len(vs) != 2**n or vs[0].shape[0] != 2**n:
            raise Violation("pusey_barrett_rudolph(%d) returned %d vectors of length %d" % (n, len(vs), vs[0].shape[0]))
        G = np.array([[np.vdot(a, b) for b in vs] for a in vs])
        exp = np.array([[np.cos(th) ** _popcount(i ^ j) for j in range(2**n)] for i in range(2**n)])
        _close(G, exp, "Gram matrix of the PBR states: cos(theta)^Hamming distance", 1e-9)
    elif kind == "bb84":
        b = S.bb84()
        B = [np.array([np.asarray(v).reshape(-1) for v in blk]).T for blk in b]
        _close(B[0], np.eye(2), "bb84 computational basis")
        _close(B[1], np.array([[1, 1], [1, -1]]) / np.sqrt(2), "bb84 Hadamard basis")
        _close(np.abs(_dag(B[0]) @ B[1]) ** 2, np.full((2, 2), 0.5), "bb84 bases mutually unbiased")
    elif kind == "basis":
        d = p["d"]
        for i in range(d):
            _close(S.basis(d, i), _ket(d, i).reshape(d, 1), "basis(%d, %d)" % (d, i), 0)
        _expect_raises(lambda: S.basis(d, d), ValueError, "basis(%d, %d)" % (d, d))
    elif kind == "max_mixed":
        d = p["d"]
        _close(S.max_mixed(d), np.eye(d) / d, "max_mixed(%d)" % d)
        sp = S.max_mixed(d, is_sparse=True)
        if not hasattr(sp, "toarray"):
            raise Violation("max_mixed(is_sparse=True) returned %s" % type(sp).__name__)
        _close(sp, np.eye(d) / d, "max_mixed(%d, sparse)" % d)
    else:
        raise KeyError(kind)


states_misc.function = "states (other constructors)"


def _matchings(items):
    if not items:
        return [[]]
    a = items[0]
    out = []
    for k in range(1, len(items)):
        b = items[k]
        rest = items[1:k] + items[k + 1 :]
        for m in _matchings(rest):
            out.append([(a, b)] + m)
    return out


# ---------------------------------------------------------------------------------------------
# matrices
# ---------------------------------------------------------------------------------------------
_P1 = [np.eye(2), np.array([[0, 1], [1, 0]]), np.array([[0, -1j], [1j, 0]]), np.array([[1, 0], [0, -1]])]


def pauli_basis(p):
    """all 4^n n-qubit Pauli strings: Hermitian, unitary, equal to the Kronecker product of the documented 2x2 matrices, Tr(P_a P_b) = 2^n delta_ab"""
    from toqito.matrices import pauli

    n = p["n"]
    N = 2**n
    rows = []
    for idx in itertools.product(range(4), repeat=n):
        got = _dense(pauli(list(idx)))
        ref = np.array([[1.0]])
        for i in idx:
            ref = np.kron(ref, _P1[i])
        if got.shape != (N, N) or np.max(np.abs(got - ref)) > 0:
            raise Violation("pauli(%s) differs from the Kronecker product of the documented matrices" % (list(idx),))
        rows.append(got.reshape(-1))
    R = np.array(rows)
    G = R.conj() @ R.T
    if np.max(np.abs(G - N * np.eye(4**n))) > 1e-9:
        raise Violation("%d-qubit Pauli strings are not trace-orthogonal with norm 2^n: max deviation %.3g" % (n, float(np.max(np.abs(G - N * np.eye(4**n))))))
    for r in rows[:: max(1, len(rows) // 64)]:
        M = r.reshape(N, N)
        _close(M, _dag(M), "Pauli string Hermitian", 0)
        _close(M @ M, np.eye(N), "Pauli string squares to the identity", 0)


pauli_basis.function = "pauli"


def pauli_forms(p):
    """single-qubit forms: integer 0..3, upper/lower-case letters, sparse flag, one-element and mixed lists"""
    from toqito.matrices import pauli

    for i, names in enumerate((("I", "i"), ("X", "x"), ("Y", "y"), ("Z", "z"))):
        _close(pauli(i), _P1[i], "pauli(%d)" % i, 0)
        for nm in names:
            _close(pauli(nm), _P1[i], "pauli(%r)" % nm, 0)
        sp = pauli(i, True)
        if not hasattr(sp, "toarray"):
            raise Violation("pauli(%d, is_sparse=True) returned %s" % (i, type(sp).__name__))
        _close(sp, _P1[i], "pauli(%d, sparse)" % i, 0)
        _close(pauli([i]), _P1[i], "pauli([%d])" % i, 0)
    _close(pauli(["X", "z"]), np.kron(_P1[1], _P1[3]), "pauli(['X','z'])", 0)
    _close(pauli([2, 0, 3]), np.kron(np.kron(_P1[2], _P1[0]), _P1[3]), "pauli([2,0,3])", 0)
    X, Y, Z = _P1[1], _P1[2], _P1[3]
    _close(pauli(1) @ pauli(2), 1j * Z, "XY = iZ", 0)
    _close(pauli(2) @ pauli(3), 1j * X, "YZ = iX", 0)
    _close(pauli(3) @ pauli(1), 1j * Y, "ZX = iY", 0)


pauli_forms.function = "pauli"


def gen_pauli_basis(p):
    """gen_pauli(k1,k2,d) = X^k1 Z^k2 for all index pairs: unitary, Tr(W_a^dagger W_b) = d delta_ab (operator basis), Weyl commutation, period d"""
    from toqito.matrices import gen_pauli

    d = p["d"]
    w = np.exp(2j * np.pi / d)
    W = {}
    for k1 in range(d):
        for k2 in range(d):
            got = _dense(gen_pauli(k1, k2, d))
            _close(got, _weyl(d, k1, k2), "gen_pauli(%d,%d,%d) vs X^k1 Z^k2" % (k1, k2, d), 1e-9)
            _close(_dag(got) @ got, np.eye(d), "gen_pauli(%d,%d,%d) unitary" % (k1, k2, d), 1e-9)
            W[(k1, k2)] = got
    keys = sorted(W)
    R = np.array([W[k].reshape(-1) for k in keys])
    _close(R.conj() @ R.T, d * np.eye(d * d), "trace-orthogonality of all %d generalised Pauli operators in dimension %d" % (d * d, d), 1e-9)
    if np.linalg.matrix_rank(R, tol=1e-9) != d * d:
        raise Violation("generalised Pauli operators do not span the %d x %d matrices" % (d, d))
    for (a, b) in keys:
        for (c, e) in keys:
            lhs = W[(a, b)] @ W[(c, e)]
            rhs = w ** (b * c - a * e) * (W[(c, e)] @ W[(a, b)])
            if np.max(np.abs(lhs - rhs)) > 1e-9:
                raise Violation("Weyl commutation W(%d,%d) W(%d,%d) = omega^(%d) W(%d,%d) W(%d,%d) fails in dimension %d" % (a, b, c, e, b * c - a * e, c, e, a, b, d))
    _close(gen_pauli(d, 0, d), np.eye(d), "X^d = I", 1e-9)
    _close(gen_pauli(0, d, d), np.eye(d), "Z^d = I", 1e-9)
    _close(gen_pauli(d + 1, d + 1, d), W[(1 % d, 1 % d)], "period d in both indices", 1e-9)


gen_pauli_basis.function = "gen_pauli"


def clock_shift(p):
    """gen_pauli_x / gen_pauli_z are the documented shift and clock matrices: Z X = omega X Z, F X F^dagger = Z, F Z F^dagger = X^dagger, X^d = Z^d = I"""
    from toqito.matrices import fourier, gen_pauli_x, gen_pauli_z

    d = p["d"]
    w = np.exp(2j * np.pi / d)
    X, Z, F = _dense(gen_pauli_x(d)), _dense(gen_pauli_z(d)), _dense(fourier(d))
    Xd = np.zeros((d, d))
    for j in range(d):
        Xd[(j + 1) % d, j] = 1
    _close(X, Xd, "gen_pauli_x(%d) vs documented matrix" % d, 0)
    _close(Z, np.diag([w**j for j in range(d)]), "gen_pauli_z(%d) vs documented matrix" % d, 1e-12)
    _close(Z @ X, w * X @ Z, "Weyl relation Z X = omega X Z (d=%d)" % d, 1e-12)
    _close(F @ X @ _dag(F), Z, "F X F^dagger = Z (d=%d)" % d, 1e-9)
    _close(F @ Z @ _dag(F), X.T, "F Z F^dagger = X^dagger (d=%d)" % d, 1e-9)
    _close(np.linalg.matrix_power(X, d), np.eye(d), "X^d = I", 0)
    _close(np.linalg.matrix_power(Z, d), np.eye(d), "Z^d = I", 1e-9)


clock_shift.function = "gen_pauli_x/gen_pauli_z"


def fourier_unitary(p):
    """fourier(d)[j,k] = omega^(jk)/sqrt(d): unitary, symmetric, F^2 = parity, F^4 = I"""
    from toqito.matrices import fourier

    d = p["d"]
    F = _dense(fourier(d))
    w = np.exp(2j * np.pi / d)
    _close(F, np.array([[w ** ((j * k) % d) for k in range(d)] for j in range(d)]) / np.sqrt(d), "fourier(%d) entries" % d, 1e-9)
    _close(_dag(F) @ F, np.eye(d), "fourier(%d) unitary" % d, 1e-9)
    par = np.zeros((d, d))
    for j in range(d):
        par[(-j) % d, j] = 1
    _close(F @ F, par, "F^2 = parity", 1e-9)
    _close(np.linalg.matrix_power(F, 4), np.eye(d), "F^4 = I", 1e-9)


fourier_unitary.function = "fourier"

_GM = None


def _gell_mann_doc():
    s = 1 / np.sqrt(3)
    return [
        np.eye(3),
        np.array([[0, 1, 0], [1, 0, 0], [0, 0, 0]]),
        np.array([[0, -1j, 0], [1j, 0, 0], [0, 0, 0]]),
        np.array([[1, 0, 0], [0, -1, 0], [0, 0, 0]]),
        np.array([[0, 0, 1], [0, 0, 0], [1, 0, 0]]),
        np.array([[0, 0, -1j], [0, 0, 0], [1j, 0, 0]]),
        np.array([[0, 0, 0], [0, 0, 1], [0, 1, 0]]),
        np.array([[0, 0, 0], [0, 0, -1j], [0, 1j, 0]]),
        s * np.array([[1, 0, 0], [0, 1, 0], [0, 0, -2]]),
    ]


def gell_mann_basis(p):
    """gell_mann(0..8) dense and sparse: documented matrices, Hermitian, traceless (1..8), Tr(l_a l_b) = 2 delta_ab (3 for the identity); other indices raise"""
    from toqito.matrices import gell_mann

    doc = _gell_mann_doc()
    L = []
    for i in range(9):
        g = gell_mann(i)
        _close(g, doc[i], "gell_mann(%d)" % i, 1e-12)
        sp = gell_mann(i, True)
        if not hasattr(sp, "toarray"):
            raise Violation("gell_mann(%d, is_sparse=True) returned %s" % (i, type(sp).__name__))
        _close(sp, doc[i], "gell_mann(%d, sparse)" % i, 1e-12)
        L.append(_dense(g).astype(complex))
    R = np.array([x.reshape(-1) for x in L])
    _close(R.conj() @ R.T, np.diag([3.0] + [2.0] * 8), "trace-orthogonality of the Gell-Mann matrices", 1e-12)
    for i in range(1, 9):
        if abs(np.trace(L[i])) > 1e-12:
            raise Violation("gell_mann(%d) is not traceless" % i)
    for bad in (9, -1):
        _expect_raises(lambda: gell_mann(bad), ValueError, "gell_mann(%d)" % bad)


gell_mann_basis.function = "gell_mann"


def gen_gell_mann_basis(p):
    """gen_gell_mann(i,j,d) for all index pairs: Hermitian, trace-orthogonal operator basis (norms d for the identity, 2 otherwise), Paulis for d=2, Gell-Mann for d=3"""
    from toqito.matrices import gen_gell_mann

    d = p["d"]
    G = {}
    for i in range(d):
        for j in range(d):
            g = _dense(gen_gell_mann(i, j, d)).astype(complex)
            if g.shape != (d, d):
                raise Violation("gen_gell_mann(%d,%d,%d) has shape %s" % (i, j, d, g.shape))
            _close(g, _dag(g), "gen_gell_mann(%d,%d,%d) Hermitian" % (i, j, d), 0)
            if (i, j) != (0, 0) and abs(np.trace(g)) > 1e-12:
                raise Violation("gen_gell_mann(%d,%d,%d) is not traceless (trace %.3g)" % (i, j, d, np.trace(g).real))
            G[(i, j)] = g
    keys = sorted(G)
    R = np.array([G[k].reshape(-1) for k in keys])
    _close(R.conj() @ R.T, np.diag([float(d)] + [2.0] * (d * d - 1)), "trace-orthogonality of the generalised Gell-Mann operators (d=%d)" % d, 1e-12)
    if d == 2:
        for (i, j), k in {(0, 0): 0, (0, 1): 1, (1, 0): 2, (1, 1): 3}.items():
            _close(G[(i, j)], _P1[k], "gen_gell_mann(%d,%d,2) is the Pauli matrix %d" % (i, j, k), 1e-12)
    if d == 3:
        doc = _gell_mann_doc()
        for (i, j), k in {(0, 0): 0, (0, 1): 1, (1, 0): 2, (1, 1): 3, (0, 2): 4, (2, 0): 5, (1, 2): 6, (2, 1): 7, (2, 2): 8}.items():
            _close(G[(i, j)], doc[k], "gen_gell_mann(%d,%d,3) is the Gell-Mann matrix %d" % (i, j, k), 1e-12)


gen_gell_mann_basis.function = "gen_gell_mann"


def hadamard_unitary(p):
    """hadamard(n)[i,j] = 2^(-n/2) (-1)^(i.j): equals H^(x n), real symmetric unitary"""
    from toqito.matrices import hadamard

    n = p["n"]
    H = _dense(hadamard(n))
    N = 2**n
    exp = np.array([[(-1) ** _popcount(i & j) for j in range(N)] for i in range(N)]) * 2.0 ** (-n / 2)
    _close(H, exp, "hadamard(%d) entries" % n, 1e-12)
    ref = np.array([[1.0]])
    for _ in range(n):
        ref = np.kron(ref, np.array([[1, 1], [1, -1]]) / np.sqrt(2))
    _close(H, ref, "hadamard(%d) == H^(x %d)" % (n, n), 1e-12)
    _close(H @ H.T, np.eye(N), "hadamard(%d) unitary" % n, 1e-12)
    if n == 1:
        _close(hadamard(), H, "hadamard() default", 0)


hadamard_unitary.function = "hadamard"


def cnot_unitary(p):
    """cnot() is the documented matrix: |a,b> -> |a, a xor b>, unitary, an involution"""
    from toqito.matrices import cnot

    C = _dense(cnot())
    exp = np.zeros((4, 4))
    for a in range(2):
        for b in range(2):
            exp[2 * a + (a ^ b), 2 * a + b] = 1
    _close(C, exp, "cnot()", 0)
    _close(C @ C.T, np.eye(4), "cnot unitary", 0)
    _close(C, np.kron(np.diag([1, 0]), np.eye(2)) + np.kron(np.diag([0, 1]), _P1[1]), "cnot = |0><0| (x) I + |1><1| (x) X", 0)


cnot_unitary.function = "cnot"


def cyclic_shift(p):
    """cyclic_permutation_matrix(n, k) = P^k with P e_j = e_{j+1 mod n}: a permutation (unitary) matrix, P^n = I"""
    from toqito.matrices import cyclic_permutation_matrix, gen_pauli_x

    n, k = p["n"], p["k"]
    got = _dense(cyclic_permutation_matrix(n, k))
    exp = np.zeros((n, n))
    for j in range(n):
        exp[(j + k) % n, j] = 1
    _close(got, exp, "cyclic_permutation_matrix(%d, %d)" % (n, k), 0)
    _close(got @ got.T, np.eye(n), "cyclic shift unitary", 0)
    if k == 1:
        _close(cyclic_permutation_matrix(n), exp, "default k = 1", 0)
        _close(got, gen_pauli_x(n), "cyclic_permutation_matrix(n) == gen_pauli_x(n)", 0)


cyclic_shift.function = "cyclic_permutation_matrix"


def standard_basis_vectors(p):
    """standard_basis(d, flatten): the d unit vectors as columns (d,1) or flat (d,)"""
    from toqito.matrices import standard_basis

    d = p["d"]
    for flat in (False, True):
        vs = standard_basis(d, flat)
        if len(vs) != d:
            raise Violation("standard_basis(%d) returned %d vectors" % (d, len(vs)))
        for i, v in enumerate(vs):
            _close(v, _ket(d, i) if flat else _ket(d, i).reshape(d, 1), "standard_basis(%d, flatten=%s)[%d]" % (d, flat, i), 0)
    vs = standard_basis(d)
    _close(vs[0], _ket(d, 0).reshape(d, 1), "standard_basis default is column vectors", 0)


standard_basis_vectors.function = "standard_basis"

CLAUSES = {
    "bell.basis": bell_basis,
    "gen_bell.basis": gen_bell_basis,
    "gen_bell.maxent": gen_bell_maxent,
    "max_entangled.structure": max_entangled_structure,
    "ghz.structure": ghz_structure,
    "ghz.errors": ghz_errors,
    "w_state.structure": w_structure,
    "w_state.errors": w_errors,
    "dicke.structure": dicke_structure,
    "werner.formula": werner_formula,
    "werner.invariance": werner_invariance,
    "werner.ppt_below": werner_ppt_below,
    "werner.npt_above": werner_ppt_above,
    "werner.list_equals_scalar": werner_list_scalar,
    "werner.multipartite_formula": werner_multipartite,
    "werner.multipartite_invariance": werner_multipartite_invariance,
    "werner.errors": werner_errors,
    "isotropic.formula": isotropic_formula,
    "isotropic.invariance": isotropic_invariance,
    "isotropic.ppt_below": isotropic_ppt_below,
    "isotropic.npt_above": isotropic_ppt_above,
    "horodecki.ppt": horodecki_ppt,
    "horodecki.errors": horodecki_errors,
    "tile.basis": tile_basis,
    "domino.basis": domino_basis,
    "mub.unbiased": mub_unbiased,
    "states.misc": states_misc,
    "pauli.basis": pauli_basis,
    "pauli.forms": pauli_forms,
    "gen_pauli.basis": gen_pauli_basis,
    "clock_shift.weyl": clock_shift,
    "fourier.unitary": fourier_unitary,
    "gell_mann.basis": gell_mann_basis,
    "gen_gell_mann.basis": gen_gell_mann_basis,
    "hadamard.unitary": hadamard_unitary,
    "cnot.unitary": cnot_unitary,
    "cyclic_shift.power": cyclic_shift,
    "standard_basis.vectors": standard_basis_vectors,
}


def cases(tier, seed):
    thorough = tier == "thorough"
    out = []

    def add(clause, params, ic, nontrivial=True, function=None):
        c = dict(clause=clause, params=params, input_class=ic, nontrivial=bool(nontrivial))
        if function:
            c["function"] = function
        out.append(c)

    dims = range(1, 7)
    useeds = [1000 + seed + i for i in range(10 if thorough else 2)]
    eps = 1e-3
    add("bell.basis", {}, "bell/all-indices")
    for d in dims:
        add("gen_bell.basis", dict(d=d), "gen_bell/d=%d" % d, d >= 2)
        for k1 in range(d):
            for k2 in range(d):
                add("gen_bell.maxent", dict(d=d, k1=k1, k2=k2), "gen_bell/d=%d" % d, d >= 2)
        for sparse in (False, True):
            for normalized in (False, True):
                add("max_entangled.structure", dict(d=d, sparse=sparse, normalized=normalized, seed=useeds[0]), "max_entangled/%s/%s" % ("sparse" if sparse else "dense", "normalized" if normalized else "unnormalized"), d >= 2)
        for n in range(1, 6):
            if d**n <= 8000:
                for kind in ("default", "positive", "signed", "array"):
                    add("ghz.structure", dict(d=d, n=n, coeff=kind, seed=useeds[0]), "ghz/%s-coefficients" % kind, d >= 2 and n >= 2)
                if d >= 2 and n == 2:
                    for kind2 in ("scaled-down", "scaled-up"):
                        add("ghz.structure", dict(d=d, n=n, coeff=kind2, seed=useeds[0]), "ghz/%s-coefficients" % kind2, True)
    add("ghz.errors", {}, "ghz/errors")
    for n in range(2, 7):
        for kind in ("default", "random", "integers"):
            for s in (useeds if kind == "random" else useeds[:1]):
                add("w_state.structure", dict(n=n, coeff=kind, seed=s), "w_state/%s-coefficients" % kind)
    add("w_state.errors", {}, "w_state/errors")
    for n in range(1, 7):
        for k in range(0, n + 2):
            add("dicke.structure", dict(n=n, k=k), "dicke/%s" % ("k<=n" if k <= n else "k>n"), n >= 2)
    for n, k in ((8, 1), (9, 1), (9, 4), (10, 2), (11, 1)):  # more than 8 qubits: basis-state indices no longer fit one byte
        add("dicke.structure", dict(n=n, k=k), "dicke/more-than-8-qubits")
    # Werner / isotropic parameter grids: end points, thresholds +- eps, interior points, just outside
    for d in range(2, 7):
        th = 1.0 / d
        grid = sorted({-1.0, -1.0 - eps, -0.5, 0.0, th - eps, th, th + eps, 0.5, 0.75, 1.0, 1.0 + eps, 1.0 - eps, -1.0 + eps})
        for a in grid:
            where = "outside" if abs(a) > 1 else "endpoint" if abs(a) == 1 else "inside"
            add("werner.formula", dict(d=d, alpha=a), "werner/scalar/%s" % where)
            if abs(a) <= 1:
                if a <= th - eps + 1e-12:
                    add("werner.ppt_below", dict(d=d, alpha=a), "werner/below-threshold")
                elif a >= th + eps - 1e-12:
                    add("werner.npt_above", dict(d=d, alpha=a), "werner/above-threshold")
                add("werner.list_equals_scalar", dict(d=d, alpha=a), "werner/list-of-one")
        for a in (-0.7, 0.3, 1.0):
            for s in useeds:
                add("werner.invariance", dict(d=d, alpha=a, seed=s), "werner/UxU")
        th = 1.0 / (d + 1)
        lo = -1.0 / (d * d - 1)
        grid = sorted({lo, lo - eps, lo + eps, lo / 2, 0.0, th - eps, th, th + eps, 0.5, 0.75, 1.0, 1.0 - eps, 1.0 + eps})
        for a in grid:
            where = "outside" if (a > 1 or a < lo) else "endpoint" if a in (1.0, lo) else "inside"
            add("isotropic.formula", dict(d=d, alpha=a), "isotropic/%s" % where)
            if lo <= a <= 1:
                if a <= th - eps + 1e-12:
                    add("isotropic.ppt_below", dict(d=d, alpha=a), "isotropic/below-threshold")
                elif a >= th + eps - 1e-12:
                    add("isotropic.npt_above", dict(d=d, alpha=a), "isotropic/above-threshold")
        for a in (lo / 2, 0.3, 1.0):
            for s in useeds:
                add("isotropic.invariance", dict(d=d, alpha=a, seed=s), "isotropic/UxconjU")
    for d in (2, 3):
        for al in ([0.1, 0.2, 0.05, 0.05, 0.15], [0.3, 0.0, 0.0, 0.0, 0.0], [0.0, 0.0, 0.1, 0.1, 0.0], [0.0, 0.0, 0.0, 0.0, 0.4], [-0.1, -0.2, 0.05, 0.05, -0.1], [0.01, 0.02, 0.03, 0.03, 0.05]):
            add("werner.multipartite_formula", dict(d=d, alpha=al), "werner/list-p3")
            add("werner.multipartite_invariance", dict(d=d, alpha=al, seed=useeds[0]), "werner/list-p3")
    add("werner.errors", {}, "werner/errors")
    for dm in ([3, 3], [2, 4]):
        for a in (0.0, eps, 0.1, 0.25, 0.5, 0.75, 0.9, 1 - eps, 1.0, -eps, 1 + eps):
            for form in ("list", "array"):
                add("horodecki.ppt", dict(a=a, dims=dm, form=form), "horodecki/%dx%d/%s" % (dm[0], dm[1], "outside" if (a < 0 or a > 1) else "endpoint" if a in (0.0, 1.0) else "inside"))
    for a in (0.0, 0.5, 1.0):
        add("horodecki.ppt", dict(a=a, dims=[3, 3], form="default"), "horodecki/default-dim")
    add("horodecki.errors", {}, "horodecki/errors")
    add("tile.basis", {}, "tile/all-indices")
    add("domino.basis", {}, "domino/all-indices")
    for d in (2, 3, 5, 7, 4, 6):
        add("mub.unbiased", dict(d=d), "mub/%s" % ("prime" if d in (2, 3, 5, 7) else "non-prime"))
    for d in range(2, 7):
        add("states.misc", dict(kind="singlet", d=d, seed=useeds[0]), "singlet", function="singlet")
    for d in (2, 4, 6, 3):
        for lam in (0.0, 0.1, 0.5, 1.0):
            add("states.misc", dict(kind="breuer", d=d, lam=lam), "breuer/%s" % ("even" if d % 2 == 0 else "odd"), function="breuer")
    for lam in (0.0, 0.25, 0.5, 1.0, -eps, 1 + eps):
        for th in (0.0, 0.3, np.pi / 4, 1.0, np.pi / 2, 2.5):
            add("states.misc", dict(kind="gisin", lam=lam, theta=float(th)), "gisin/%s" % ("outside" if (lam < 0 or lam > 1) else "inside"), function="gisin")
    for s in useeds:
        for cx in (False, True):
            add("states.misc", dict(kind="chessboard", cx=cx, seed=s), "chessboard/%s" % ("complex" if cx else "real"), function="chessboard")
    for d, pv in ((2, 1), (3, 1), (4, 1), (2, 2), (3, 2), (2, 3)):
        add("states.misc", dict(kind="brauer", d=d, p=pv), "brauer", function="brauer")
    add("states.misc", dict(kind="trine"), "trine", function="trine")
    add("states.misc", dict(kind="bb84"), "bb84", function="bb84")
    for n in range(1, 5):
        for th in (0.0, 0.4, np.pi / 4, np.pi / 2, 2.0):
            add("states.misc", dict(kind="pbr", n=n, theta=float(th)), "pusey_barrett_rudolph", n >= 2, function="pusey_barrett_rudolph")
    for d in dims:
        add("states.misc", dict(kind="basis", d=d), "basis", d >= 2, function="basis")
        add("states.misc", dict(kind="max_mixed", d=d), "max_mixed", d >= 2, function="max_mixed")
    # matrices
    for n in range(1, 6):
        add("pauli.basis", dict(n=n), "pauli/%d-qubit-strings" % n)
    add("pauli.forms", {}, "pauli/forms")
    for d in dims:
        add("gen_pauli.basis", dict(d=d), "gen_pauli/d=%d" % d, d >= 2)
        add("clock_shift.weyl", dict(d=d), "clock-shift/d=%d" % d, d >= 2)
        add("fourier.unitary", dict(d=d), "fourier/d=%d" % d, d >= 2)
        add("gen_gell_mann.basis", dict(d=d), "gen_gell_mann/d=%d" % d, d >= 2)
        add("standard_basis.vectors", dict(d=d), "standard_basis", d >= 2)
        for k in range(0, d + 3):
            add("cyclic_shift.power", dict(n=d, k=k), "cyclic_permutation_matrix", d >= 2)
    add("gell_mann.basis", {}, "gell_mann/all-indices")
    for n in range(0, 6):
        add("hadamard.unitary", dict(n=n), "hadamard/n=%d" % n, n >= 1)
    add("cnot.unitary", {}, "cnot")
    return out


# =============================================================================================
# deductive part (E1-array/bilinear): max_entangled, isotropic, werner for all d and all parameter values
# =============================================================================================
def prove(tier, seed):
    from props.C17_bilinear import prove_part

    return prove_part("C17")


from props.C17_bilinear import ASSUMED as _BIL_ASSUMED  # noqa: E402

ASSUMPTIONS = list(ASSUMPTIONS) + list(_BIL_ASSUMED)
LEVEL = "other"
ENGINES = ["E1-pyvc", "E3-E4-rtc"]
LEVEL_TEXT = LEVEL_TEXT + (" Proved for ALL local dimensions d and ALL parameter values (E1-array/bilinear, the real source executed symbolically): max_entangled's entries "
                           "(normalised and not) and - composed with partial_trace's postcondition - its maximally mixed marginals; isotropic's and the scalar Werner state's entries and "
                           "trace one; the one-parameter list form of werner equals the scalar form (swap_operator / permutation_operator by their proved contracts).")
EXPLANATION = LEVEL_TEXT
TECHNIQUE = ("contracts on the real constructors discharged from self-generated verification conditions (E1-array/bilinear: symbolic execution of the real AST; z3 / cvc5 / normal form) for the "
             "families with a symbolic dimension + " + TECHNIQUE)

# =============================================================================================
# frame coverage shared by all properties (E2 obligations for every public function of the anchor files + run-time frame cases)
# =============================================================================================
from props import frame_all as _fa  # noqa: E402
from props.frame_common import frame_generic as _fg, frame_object as _fo  # noqa: E402

CLAUSES.setdefault("frame.generic", _fg)
CLAUSES.setdefault("frame.object", _fo)
_cases_before_frames = cases
_prove_before_frames = globals().get("prove")


def cases(tier, seed):  # noqa: F811
    return _cases_before_frames(tier, seed) + _fa.frame_cases(ID, seed)


def prove(tier, seed):  # noqa: F811
    from vt.pyvc.termproofs import merge

    b = _fa.prove_frames(ID, lambda s: _fa.frame_cases(ID, s))(tier, seed)
    if _prove_before_frames is None:
        return b
    return merge(_prove_before_frames(tier, seed), b)

if LEVEL == "exploration":
    LEVEL = "other"
LEVEL_TEXT = LEVEL_TEXT + (" Additionally proved (E2, taint analysis of the real AST): every public function and method in this property's anchor files writes through "
                           "no reference reachable from its arguments (or from self), so results do not depend on call order and callers' arrays / lists are not modified; "
                           "a run-time frame clause replays the same claim on concrete arguments.")
EXPLANATION = LEVEL_TEXT
if "E2-frame" not in globals().get("ENGINES", []):
    ENGINES = list(globals().get("ENGINES", ["E3-E4-rtc"])) + ["E2-frame"]
