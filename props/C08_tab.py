"""E1-array (tabulation loops): XORGame.to_nonlocal_game returns NonlocalGame(prob_mat, V, reps=reps) -- the general game constructed from the
same question distribution, the same number of repetitions and the single-round predicate
    V[a, b, x, y] = [pred[x, y] == a XOR b]        for all question-set sizes.
NonlocalGame's constructor is an opaque constructor term here: the postcondition is about the three arguments it receives (what the constructor
does with `reps` > 1 -- the product game -- belongs to C07 and is a bounded clause there)."""
from __future__ import annotations

REL = "toqito/nonlocal_games/xor_game.py"
ASSUMED = [
    "np.ndarray(shape) allocates an array every entry of which is then written exactly once by the four nested loops (checked: the blocks (a, b) in {0,1}^2 are each written by one tabulation nest over all (x, y)); a comparison `pred[x, y] == c` is the 0/1 indicator of that entry",
    "NonlocalGame(prob_mat, pred_mat, reps=r) is an opaque constructor: the obligation is that it receives (self.prob_mat, V, self.reps); how the constructor expands r > 1 repetitions is not part of this proof (bounded clause of C07)",
]


def _nlg(interp, args, kw):
    import types

    from contracts import index_layer as IL

    IL.pre(interp, "NonlocalGame(prob_mat, pred_mat, reps): two positional arguments", len(args) == 2)
    return types.SimpleNamespace(ctor_prob_mat=args[0], ctor_pred_mat=args[1], ctor_reps=kw.get("reps", 1))


def records(src=None):
    import types

    import sympy as sp

    from vt import extract
    from vt.pyvc import bilinear as BL
    from vt.pyvc import index_proofs as IP
    from vt.pyvc import sym
    from vt.pyvc.driver import verify_instance

    src = src or extract.Source(REL)
    fn = src.function("XORGame.to_nonlocal_game")
    q0, q1 = IP.atoms("q", 2)
    reps = sp.Symbol("r", integer=True, positive=True)

    def mk():
        prob = IP.X_of((q0, q1), "prob")
        pred = IP.X_of((q0, q1), "pred")
        return [types.SimpleNamespace(prob_mat=prob, pred_mat=pred, reps=reps)], {}, []

    def spec(a, k):
        self = a[0]

        def g(idx):
            A, B = sym.as_num(idx[0], sp.Integer(2)), sym.as_num(idx[1], sp.Integer(2))
            out = None
            for a0 in range(2):
                for b0 in range(2):
                    ind = sym.Entry("[pred==%d]" % (a0 ^ b0), (idx[2], idx[3]))
                    sel = BL.Poly([BL.Term(1, [], [(A, sym.Num([(sp.Integer(a0), sp.Integer(2))])), (B, sym.Num([(sp.Integer(b0), sp.Integer(2))]))])])
                    t = BL.p_mul(sel, ind)
                    out = t if out is None else BL.p_add(out, t)
            return out

        V = sym.SymArray((sp.Integer(2), sp.Integer(2), q0, q1), g, "poly")
        return {"ctor_pred_mat": (V, [[sp.Integer(2)], [sp.Integer(2)], [q0], [q1]]), "ctor_prob_mat": (self.prob_mat, [[q0], [q1]]), "ctor_reps": (reps, None)}

    recs, ms = verify_instance("to_nonlocal_game", "XORGame.to_nonlocal_game == NonlocalGame(prob_mat, V, reps=reps) with V[a,b,x,y] = [pred[x,y] == a xor b]; all question-set sizes, all reps", {"to_nonlocal_game": fn}, {"NonlocalGame": _nlg}, mk, spec, (lambda a, k: None), atoms=[q0, q1])
    for i, x in enumerate(recs):
        x["clean"] = False
        x["engine"] = "E1-array/bilinear"
        x["function"] = "XORGame.to_nonlocal_game"
        x["_id"] = "tab.c08.%d" % i
    return recs


MUTANTS = [
    ("nlg_pred_mat[a, b, x, y] = xor_pred_mat[x, y] == a ^ b", "nlg_pred_mat[a, b, x, y] = xor_pred_mat[x, y] == a & b"),
    ("nlg_pred_mat[a, b, x, y] = xor_pred_mat[x, y] == a ^ b", "nlg_pred_mat[b, a, y, x] = xor_pred_mat[x, y] == a ^ b"),
    ("return NonlocalGame(self.prob_mat, nlg_pred_mat, reps=self.reps)", "return NonlocalGame(self.prob_mat, nlg_pred_mat)"),
]


def planted():
    from vt import extract

    out = {"tried": 0, "refuted": 0, "survivors": [], "anchors_missing": [], "detail": []}
    src = extract.Source(REL)
    for old, new in MUTANTS:
        try:
            m = src.mutated(old, new)
        except KeyError:
            out["anchors_missing"].append(old[:50])
            continue
        bad = [x for x in records(m) if x["status"] != "discharged"]
        out["tried"] += 1
        if bad:
            out["refuted"] += 1
            out["detail"].append({"mutant": "%s -> %s" % (old[:50], new[:50]), "not_discharged": len(bad), "first": bad[0]["text"][:120]})
        else:
            out["survivors"].append(old[:60])
    return out
