"""Deductive part of C16: vec / unvec index contracts and mutual inverse (E1-array), tensor power and folds (E1-integer)."""


def prove(tier, seed):
    import z3

    from contracts import index_layer as IL
    from contracts.tensor_c import FastExpContract, TensorContract, lemma_p3
    from vt import extract
    from vt.pyvc import index_proofs as IP
    from vt.pyvc import selfcheck, sym
    from vt.pyvc.driver import fine_index
    from vt.pyvc.interp import Ctx
    from vt.pyvc.intvc import Engine
    from vt.pyvc.prove import entries_equal
    import sympy as sp

    S = IP.Sources()
    tasks = IP.instances_C16(tier)
    records, wall = IP.run_instances(tasks, S)
    # lemma over the contracts: unvec(vec(M), shape) == M and vec(unvec(v, shape)) == v
    for which in ("unvec(vec(M))", "vec(unvec(v))"):
        sym.reset_world()
        r, c = IP.atoms("m", 2)
        ctx = Ctx([sp.Ge(r, 1), sp.Ge(c, 1)])
        try:
            if which == "unvec(vec(M))":
                M = IP.X_of((r, c), "M")
                Z = IL.spec_unvec(IL.spec_vec(M), (r, c))
                I, _ = fine_index([r], "k")
                J, _ = fine_index([c], "l")
                res = entries_equal(ctx, Z.get((I, J)), M.get((I, J)), minimise=[r, c])
            else:
                v = IP.X_of((r * c, sp.Integer(1)), "v")
                Z = IL.spec_vec(IL.spec_unvec(v, (r, c)))
                I, _ = fine_index([c, r], "k")
                res = entries_equal(ctx, Z.get((I, sp.Integer(0))), v.get((I, sp.Integer(0))), minimise=[r, c])
            res.pop("side", None)
        except Exception as e:
            res = dict(status="undecided", backend="-", model=None, detail=str(e)[:200], ms=0.0)
        records.append(dict(function="vec/unvec", instance="lemma " + which, kind="lemma", text="%s is the identity for all shapes (over the two contracts only)" % which, claim=True, **res))
    # tensor
    src = extract.Source("toqito/matrix_ops/tensor.py")

    def tensor_records(src_):
        out = []
        hyp, goal = lemma_p3()
        s = z3.Solver()
        s.set("timeout", 10000)
        s.add(*hyp)
        s.add(z3.Not(goal))
        r = s.check()
        out.append(dict(function="tensor", instance="lemma P3", kind="lemma", text="kron(M, pw(M, b)) == pw(M, b+1) follows from P1 and P2 (instantiated)", status="discharged" if r == z3.unsat else "undecided", backend="z3", claim=False, ms=0.0, model=None))
        e = Engine(src_.function("tensor.fast_exp"), FastExpContract(), "tensor.fast_exp", "all q >= 1 (strong induction)")
        out += e.run()
        forms = [("power",)] + [("args", k) for k in (2, 3, 4, 5)] + [("list", k) for k in (1, 2, 3, 4, 5)]
        for form in forms:
            e = Engine(src_.function("tensor"), TensorContract(form), "tensor", "calling form %s" % (form,))
            out += e.run()
        for x in out:
            if x["status"] != "discharged":
                x["replay"] = [dict(clause="tensor.power_and_fold", function="tensor", input_class="tensor", params=dict(seed=1))]
        return out

    trec = tensor_records(src)
    records += trec
    planted = selfcheck.planted("C16", tier, S)
    for old, new in [("tmp = np.kron(matrix, tmp)", "tmp = np.kron(tmp, tmp)"), ("tmp = fast_exp(matrix, q >> 1)", "tmp = fast_exp(matrix, q >> 2)"), ("result = np.kron(result, args[i])", "result = np.kron(args[i], result)")][: (3 if tier == "thorough" else 1)]:
        try:
            m = src.mutated(old, new)
        except KeyError:
            planted["anchors_missing"].append("tensor: " + old)
            continue
        bad = [x for x in tensor_records(m) if x["status"] != "discharged"]
        planted["tried"] += 1
        if bad:
            planted["refuted"] += 1
            planted["detail"].append({"mutant": "tensor: %s -> %s" % (old, new), "not_discharged": len(bad), "first": "%s: %s [%s]" % (bad[0]["kind"], bad[0]["text"][:80], bad[0]["status"])})
        else:
            planted["survivors"].append("tensor: " + old)
    for i, x in enumerate(records):
        x.setdefault("_id", "c16.%d" % i)
        x.setdefault("clean", True)
    sc = selfcheck.standard(records, ["vec", "unvec", "tensor", "tensor.fast_exp"])
    sc["planted_bugs_all_refuted"] = {"ok": planted["tried"] == planted["refuted"], "detail": planted}
    return dict(records=records, functions=S.info(["vec", "unvec"]) + [src.info("tensor"), src.info("tensor.fast_exp")], instances=len(tasks) + 11, planted=planted, selfchecks=sc, wall=wall)
