"""Deductive part of C16: vec / unvec index contracts and mutual inverse (E1-array), tensor power and folds (E1-integer)."""


TERM_PREDS = ["is_positive_semidefinite", "is_hermitian", "is_symmetric", "is_idempotent", "is_identity", "is_normal", "is_projection", "is_unitary", "is_anti_hermitian", "is_commuting", "is_density"]
TERM_MUTS = [
    ("is_positive_semidefinite", "is_hermitian(mat, rtol, atol)", "is_hermitian(mat, atol, rtol)"),
    ("is_hermitian", "np.allclose(mat, mat.conj().T, rtol=rtol, atol=atol)", "np.allclose(mat, mat.conj().T, atol, rtol)"),
    ("is_identity", "np.allclose(mat, id_mat, rtol=rtol, atol=atol)", "np.allclose(mat, id_mat, rtol=rtol)"),
    ("is_unitary", "u_uc_mat = mat @ mat.conj().T", "u_uc_mat = mat.conj().T @ mat"),
    ("is_symmetric", "np.allclose(mat, mat.T, rtol=rtol, atol=atol)", "np.allclose(mat, mat.conj().T, rtol=rtol, atol=atol)"),
    ("is_normal", "mat.conj().T @ mat, rtol=rtol, atol=atol", "mat.conj().T @ mat, rtol=rtol"),
    ("is_anti_hermitian", "is_hermitian(mat * 1j, rtol, atol)", "is_hermitian(mat * 1j, atol, rtol)"),
]


def tol_matrix(p):
    """bounded replay of the matrix-predicate term contracts: rtol / atol mean what np.allclose documents -- a deviation eps at an entry whose
    reference value has modulus m is accepted iff eps <= atol + rtol * m (ground truth by construction, margins of a factor >= 3)"""
    import numpy as np

    import toqito.matrix_props as mp
    from vt.contract import Violation

    def judge(name, X, eps, m, rtol, atol):
        bound = (1e-8 + 1e-5 * m) if rtol is None else (atol + rtol * m)
        if bound / 3 < eps < bound * 3:
            return
        exp = eps <= bound
        f = getattr(mp, name)
        kw = {} if rtol is None else dict(rtol=rtol, atol=atol)
        got = bool(f(X, **kw))
        if got != exp:
            raise Violation("%s(defect %g at a reference entry of modulus %g, rtol=%s, atol=%s) = %s; np.allclose semantics give %s" % (name, eps, m, rtol, atol, got, exp))
        if rtol is not None:
            got = bool(f(X, rtol, atol))
            if got != exp:
                raise Violation("%s with positional tolerances (%g, %g) = %s, expected %s" % (name, rtol, atol, got, exp))

    def _asym(eps):
        # the asymmetry sits at an entry whose mirror entry has modulus 1, 0 and 100: only for modulus 1 do rtol and atol weigh the same
        return [(np.array([[2.0, 1.0 + eps], [1.0, 3.0]]), 1.0), (np.array([[2.0, eps], [0.0, 3.0]]), 0.0), (np.array([[300.0, 100.0 + eps], [100.0, 300.0]]), 100.0)]

    grid = [(1e-4, 0.0, 1e-3), (1e-4, 1e-3, 1e-9), (1e-4, 1e-6, 1e-9), (1e-7, None, None), (1e-3, None, None), (1e-2, 0.1, 1e-6), (1e-2, 1e-6, 0.1)]
    fn = p.get("fn")
    for eps, rtol, atol in grid:
        if fn in (None, "is_hermitian", "is_symmetric"):
            for name in ("is_hermitian", "is_symmetric"):
                for X, m in _asym(eps):
                    judge(name, X, eps, m, rtol, atol)
        if fn in (None, "is_positive_semidefinite"):
            for X, m in _asym(eps):  # positive definite up to the asymmetry eps
                judge("is_positive_semidefinite", X, eps, m, rtol, atol)
        if fn in (None, "is_anti_hermitian"):
            X = np.array([[0.0, 1.0 + eps], [-1.0, 0.0]])
            judge("is_anti_hermitian", X, eps, 1.0, rtol, atol)
            judge("is_anti_hermitian", np.array([[0.0, eps], [0.0, 0.0]]), eps, 0.0, rtol, atol)
            judge("is_anti_hermitian", np.array([[0.0, 100.0 + eps], [-100.0, 0.0]]), eps, 100.0, rtol, atol)
        if fn in (None, "is_identity"):
            X = np.eye(3)
            X[0, 2] = eps
            judge("is_identity", X, eps, 0.0, rtol, atol)
            Y = np.eye(3)
            Y[1, 1] = 1.0 + eps
            judge("is_identity", Y, eps, 1.0, rtol, atol)
        if fn in (None, "is_unitary"):
            U = np.eye(2) * np.sqrt(1.0 + eps)
            judge("is_unitary", U, eps, 1.0, rtol, atol)
            if eps < 0.5 and (rtol is None or rtol < 0.5):
                # a shear: U U^* = [[1 + eps^2, eps], [eps, 1]]; the defect eps sits where the identity is 0 (rtol cannot help), eps^2 <= eps on the diagonal
                judge("is_unitary", np.array([[1.0, eps], [0.0, 1.0]]), eps, 0.0, rtol, atol)
        if fn in (None, "is_idempotent", "is_projection"):
            P = np.diag([1.0, 0.0]) + np.array([[0.0, 0.0], [0.0, 0.0]])
            Q = np.diag([1.0 + eps, 0.0])  # Q^2 - Q = diag(eps + eps^2, 0) at a reference entry of modulus ~1
            judge("is_idempotent", Q, eps + eps * eps, (1.0 + eps) ** 2, rtol, atol)
            judge("is_projection", Q, eps + eps * eps, 1.0 + eps, rtol, atol)
        if fn in (None, "is_normal"):
            N = np.array([[1.0, eps], [0.0, 1.0]])  # N N^T - N^T N = [[eps^2, 0], [0, -eps^2]] at reference entries of modulus ~1
            judge("is_normal", N, eps * eps, 1.0, rtol, atol)


tol_matrix.function = "matrix_props tolerances"
EXTRA_CLAUSES = {"tol.matrix": tol_matrix}


def extra_cases(tier, seed):
    return [dict(clause="tol.matrix", params=dict(fn=fn), input_class="tolerances/%s" % fn, nontrivial=True) for fn in ("is_hermitian", "is_positive_semidefinite", "is_anti_hermitian", "is_identity", "is_unitary", "is_idempotent", "is_normal")]


def prove(tier, seed):
    from vt.pyvc.termproofs import merge, prove_terms

    from props.C17_bilinear import prove_part

    a = prove_index_and_tensor(tier, seed)
    b = prove_terms(TERM_PREDS, TERM_MUTS, tier, "c16t", replay_clause="tol.matrix")
    return merge(merge(a, b), prove_part("C16"))


def prove_index_and_tensor(tier, seed):
    import z3

    from contracts import index_layer as IL
    from contracts.tensor_c import FastExpContract, TensorContract, lemma_p3
    from vt import extract
    from vt.pyvc import index_proofs as IP
    from vt.pyvc import selfcheck, sym
    from vt.pyvc.driver import fine_index
    from vt.pyvc.interp import Ctx
    from vt.pyvc.intvc import Engine
    from vt.pyvc.prove import entries_equal
    import sympy as sp

    S = IP.Sources()
    tasks = IP.instances_C16(tier)
    records, wall = IP.run_instances(tasks, S)
    # lemma over the contracts: unvec(vec(M), shape) == M and vec(unvec(v, shape)) == v
    for which in ("unvec(vec(M))", "vec(unvec(v))"):
        sym.reset_world()
        r, c = IP.atoms("m", 2)
        ctx = Ctx([sp.Ge(r, 1), sp.Ge(c, 1)])
        try:
            if which == "unvec(vec(M))":
                M = IP.X_of((r, c), "M")
                Z = IL.spec_unvec(IL.spec_vec(M), (r, c))
                I, _ = fine_index([r], "k")
                J, _ = fine_index([c], "l")
                res = entries_equal(ctx, Z.get((I, J)), M.get((I, J)), minimise=[r, c])
            else:
                v = IP.X_of((r * c, sp.Integer(1)), "v")
                Z = IL.spec_vec(IL.spec_unvec(v, (r, c)))
                I, _ = fine_index([c, r], "k")
                res = entries_equal(ctx, Z.get((I, sp.Integer(0))), v.get((I, sp.Integer(0))), minimise=[r, c])
            res.pop("side", None)
        except Exception as e:
            res = dict(status="undecided", backend="-", model=None, detail=str(e)[:200], ms=0.0)
        records.append(dict(function="vec/unvec", instance="lemma " + which, kind="lemma", text="%s is the identity for all shapes (over the two contracts only)" % which, claim=True, **res))
    # tensor
    src = extract.Source("toqito/matrix_ops/tensor.py")

    def tensor_records(src_):
        out = []
        hyp, goal = lemma_p3()
        s = z3.Solver()
        s.set("timeout", 10000)
        s.add(*hyp)
        s.add(z3.Not(goal))
        r = s.check()
        out.append(dict(function="tensor", instance="lemma P3", kind="lemma", text="kron(M, pw(M, b)) == pw(M, b+1) follows from P1 and P2 (instantiated)", status="discharged" if r == z3.unsat else "undecided", backend="z3", claim=False, ms=0.0, model=None))
        e = Engine(src_.function("tensor.fast_exp"), FastExpContract(), "tensor.fast_exp", "all q >= 1 (strong induction)")
        out += e.run()
        forms = [("power",)] + [("args", k) for k in (2, 3, 4, 5)] + [("list", k) for k in (1, 2, 3, 4, 5)]
        for form in forms:
            e = Engine(src_.function("tensor"), TensorContract(form), "tensor", "calling form %s" % (form,))
            out += e.run()
        for x in out:
            if x["status"] != "discharged":
                x["replay"] = [dict(clause="tensor.power_and_fold", function="tensor", input_class="tensor", params=dict(seed=1))]
        return out

    trec = tensor_records(src)
    records += trec
    planted = selfcheck.planted("C16", tier, S)
    for old, new in [("tmp = np.kron(matrix, tmp)", "tmp = np.kron(tmp, tmp)"), ("tmp = fast_exp(matrix, q >> 1)", "tmp = fast_exp(matrix, q >> 2)"), ("result = np.kron(result, args[i])", "result = np.kron(args[i], result)")][: (3 if tier == "thorough" else 1)]:
        try:
            m = src.mutated(old, new)
        except KeyError:
            planted["anchors_missing"].append("tensor: " + old)
            continue
        bad = [x for x in tensor_records(m) if x["status"] != "discharged"]
        planted["tried"] += 1
        if bad:
            planted["refuted"] += 1
            planted["detail"].append({"mutant": "tensor: %s -> %s" % (old, new), "not_discharged": len(bad), "first": "%s: %s [%s]" % (bad[0]["kind"], bad[0]["text"][:80], bad[0]["status"])})
        else:
            planted["survivors"].append("tensor: " + old)
    for i, x in enumerate(records):
        x.setdefault("_id", "c16.%d" % i)
        x.setdefault("clean", True)
    sc = selfcheck.standard(records, ["vec", "unvec", "tensor", "tensor.fast_exp"])
    sc["planted_bugs_all_refuted"] = {"ok": planted["tried"] == planted["refuted"], "detail": planted}
    return dict(records=records, functions=S.info(["vec", "unvec"]) + [src.info("tensor"), src.info("tensor.fast_exp")], instances=len(tasks) + 11, planted=planted, selfchecks=sc, wall=wall)
