"""Executor-side helpers shared by C04, C05, C06 (linear maps on matrix spaces).

Everything here is *reference* material: independent index formulas for the action of a map given by left/right Kraus
families or by a Choi matrix, generators of maps with ground truth by construction, and the symbolic-entry driver
(dtype=object arrays of sympy symbols through the real functions, polynomial identity entry by entry, plus the numeric
entry-obliviousness cross-check of DESIGN section 2/E3).  No toqito function is called from this module.

Conventions (those documented by toqito / Watrous): a map Phi : M_{ri x ci} -> M_{xo x yo} is given by pairs (A_k, B_k) with
A_k of shape (xo, ri), B_k of shape (yo, ci) and Phi(X) = sum_k A_k X B_k^dagger.  Its Choi matrix is
J = sum_{ij} E_ij (x) Phi(E_ij)  (input factor first), i.e. J[(i,a),(j,b)] = Phi(E_ij)[a,b].
"""
from __future__ import annotations

import zlib

import numpy as np

from vt.contract import Undecided, Violation

TOL_IDX = 1e-9
TOL_LAPACK = 1e-7


# ------------------------------------------------------------------------------------------ random material
def rnd(rng, shape, field="complex"):
    if field == "real":
        return rng.standard_normal(shape)
    return rng.standard_normal(shape) + 1j * rng.standard_normal(shape)


def haar(rng, n, field="complex"):
    g = rnd(rng, (n, n), field)
    q, r = np.linalg.qr(g)
    d = np.diag(r)
    return q * (d / np.abs(d))


def stinespring(rng, din, dout, r, field="complex"):
    """Kraus operators K_1..K_r (dout x din) of a channel: blocks of an isometry C^din -> C^dout (x) C^r (needs dout*r >= din)"""
    v = haar(rng, dout * r, field)[:, :din]
    return [np.array(v[i * dout:(i + 1) * dout, :]) for i in range(r)]


def herm(m):
    return (m + m.conj().T) / 2


def density(rng, d, field="complex", rank=None):
    g = rnd(rng, (d, rank or d), field)
    rho = g @ g.conj().T
    return herm(rho / np.trace(rho).real)


# ------------------------------------------------------------------------------------------ entries: numeric or symbolic
class Ent:
    """Source of matrix entries.  mode 'sym' -> sympy symbols (complex, conjugate stays symbolic);
    numeric modes: 'complex', 'real' (Gaussian), 'generic' (= complex), 'zeros' (many zeros and repeated values), 'ints' (small Gaussian integers)."""

    def __init__(self, mode, seed=0):
        self.mode = mode
        self.seed = int(seed)
        self.reg = {}

    def mat(self, name, shape):
        shape = tuple(int(s) for s in shape)
        if name in self.reg:
            raise RuntimeError("entry name used twice: " + name)
        if self.mode == "sym":
            import sympy as sp

            a = np.empty(shape, dtype=object)
            for idx in np.ndindex(*shape):
                a[idx] = sp.Symbol(name + "_" + "_".join(str(i) for i in idx))
        else:
            rng = np.random.default_rng([self.seed, zlib.crc32(name.encode()), zlib.crc32(self.mode.encode())])
            if self.mode in ("complex", "generic"):
                a = rnd(rng, shape, "complex")
            elif self.mode == "real":
                a = rnd(rng, shape, "real")
            elif self.mode == "zeros":
                pool = np.array([0, 0, 0, 1, 1, -1, 2, 1j, 0.5 - 0.5j])
                a = pool[rng.integers(0, len(pool), size=shape)]
            elif self.mode == "fortran":  # complex entries stored Fortran-ordered (what .T / .conj().T views of C-ordered arrays look like)
                a = np.asfortranarray(rnd(rng, shape, "complex"))
            elif self.mode == "mixed-dtype":
                # a family typed in by hand: operator 0 has integer entries (int64), operator 1 real ones (float64), the others complex
                k = name[-1]
                if k == "0" and name[0] in "ABK":
                    a = rng.integers(-2, 3, size=shape).astype(np.int64)
                    if not a.any():
                        a.flat[0] = 1
                elif k == "1" and name[0] in "ABK":
                    a = rnd(rng, shape, "real")
                else:
                    a = rnd(rng, shape, "complex")
            elif self.mode == "ints":
                a = (rng.integers(-3, 4, size=shape) + 1j * rng.integers(-3, 4, size=shape)).astype(complex)
            else:
                raise ValueError(self.mode)
        self.reg[name] = a
        return a

    def assignment(self, numeric: "Ent"):
        """symbol -> value dictionary pairing this (symbolic) registry with a numeric one that was asked the same names"""
        d = {}
        for name, a in self.reg.items():
            b = numeric.reg[name]
            for s, v in zip(a.ravel(), np.asarray(b).ravel()):
                d[s] = complex(v)
        return d


def sym_eval(arr, assignment):
    import sympy as sp

    arr = np.asarray(arr, dtype=object)
    out = np.empty(arr.shape, dtype=complex)
    sub = {k: sp.sympify(v) for k, v in assignment.items()}
    for idx in np.ndindex(*arr.shape):
        e = sp.sympify(arr[idx])
        out[idx] = complex(sp.N(e.xreplace(sub)))
    return out


def poly_equal(got, exp, what, coeff_tol=0.0):
    """entrywise polynomial identity expand(got - exp) == 0 (floats that are exact rationals are tolerated: 1.0*x == x).
    coeff_tol > 0 (only for maps with floating-point *coefficients* and symbolic operands): every coefficient of the expanded
    difference must be below coeff_tol in absolute value."""
    import sympy as sp

    got = np.asarray(got, dtype=object)
    exp = np.asarray(exp, dtype=object)
    if got.shape != exp.shape:
        raise Violation("%s: shape %s, contract requires %s" % (what, got.shape, exp.shape))
    for idx in np.ndindex(*got.shape):
        d = sp.expand(sp.sympify(got[idx]) - sp.sympify(exp[idx]))
        if d != 0 and coeff_tol > 0:
            if all(abs(complex(sp.N(c))) < coeff_tol for c in d.as_coefficients_dict().values()):
                continue
        if d != 0:
            d = sp.expand(sp.nsimplify(d, rational=True))
        if d != 0:
            raise Violation("%s: entry %s is not the required polynomial: got %s, required %s" % (what, idx, str(sp.expand(sp.sympify(got[idx])))[:160], str(sp.expand(sp.sympify(exp[idx])))[:160]))


def close(got, exp, what, tol=TOL_IDX):
    got = np.asarray(got)
    exp = np.asarray(exp)
    if got.shape != exp.shape:
        raise Violation("%s: shape %s, contract requires %s" % (what, got.shape, exp.shape))
    if got.dtype == object:
        got = got.astype(complex)
    if exp.dtype == object:
        exp = exp.astype(complex)
    if got.size == 0:
        return
    scale = max(1.0, float(np.max(np.abs(exp))))
    dev = float(np.max(np.abs(got - exp)))
    if not dev <= tol * scale:
        raise Violation("%s: max abs deviation %.3g (tolerance %.1g x scale %.3g)" % (what, dev, tol, scale))


def run_modes(p, body, tol=TOL_IDX, coeff_tol=0.0):
    """body(ent) -> list of (what, got, required).  entries == 'sym': run the real code on sympy symbols, require polynomial
    identities, then check at three numeric assignments that (a) the contract holds numerically and (b) the real function on
    numbers returns what the symbolic result evaluates to (entry-obliviousness; a mismatch there is 'undecided', not a violation)."""
    mode = p.get("entries", "complex")
    seed = p.get("seed", 0)
    if mode != "sym":
        for what, got, exp in body(Ent(mode, seed)):
            close(got, exp, what, tol)
        return {"mode": mode}
    es = Ent("sym")
    try:
        sym_out = body(es)
    except Violation:
        raise
    except TypeError as e:
        # ordering comparison on a symbol, np.allclose/isfinite on object arrays: the function is not entry-oblivious
        raise Undecided("function does not run on symbolic entries (%s: %s)" % (type(e).__name__, str(e)[:120]))
    for what, got, exp in sym_out:
        poly_equal(got, exp, what + " [symbolic entries]", coeff_tol)
    n_ent = sum(a.size for a in es.reg.values())
    for kind in ("generic", "zeros", "ints"):
        en = Ent(kind, seed)
        num_out = body(en)
        asg = es.assignment(en)
        for (what, got, exp), (_, gsym, _) in zip(num_out, sym_out):
            close(got, exp, what + " [numeric assignment '%s']" % kind, tol)
            ev = sym_eval(gsym, asg)
            g = np.asarray(got)
            if g.shape != ev.shape or not np.allclose(g.astype(complex), ev, atol=1e-8 * max(1.0, float(np.max(np.abs(ev))) if ev.size else 1.0), rtol=0):
                raise Undecided("%s: symbolic run is not representative of the numeric run (assignment '%s'): function is not entry-oblivious" % (what, kind))
    return {"mode": "sym", "symbols": int(n_ent)}


# ------------------------------------------------------------------------------------------ maps and their reference action
def spaces(p):
    """(ri, ci, xo, yo): Phi maps ri x ci matrices to xo x yo matrices"""
    if p.get("rect"):
        ri, ci, xo, yo = p["rect"]
        return int(ri), int(ci), int(xo), int(yo)
    return int(p["din"]), int(p["din"]), int(p["dout"]), int(p["dout"])


def kraus_entries(ent, p):
    """left/right families (A, B); kind 'cp' -> B is A (same objects)"""
    ri, ci, xo, yo = spaces(p)
    r = int(p["r"])
    A = [ent.mat("A%d" % k, (xo, ri)) for k in range(r)]
    if p.get("kind", "cp") == "cp":
        if (ri, xo) != (ci, yo):
            raise ValueError("cp maps need square spaces")
        return A, A
    B = [ent.mat("B%d" % k, (yo, ci)) for k in range(r)]
    return A, B


def as_form(A, B, form):
    """the representation forms toqito documents for a Kraus family"""
    r = len(A)
    if form == "flat":
        return list(A)
    if form == "col":
        return [[a] for a in A]
    if form == "row":
        if r <= 2:
            raise ValueError("row form [[K1..Kr]] is only a CP list for r > 2")
        return [list(A)]
    if form == "pairs":
        return [[a, b] for a, b in zip(A, B)]
    raise ValueError(form)


def forms_for(kind, r):
    if kind == "cp":
        return ["flat", "col", "pairs"] + (["row"] if r > 2 else [])
    return ["pairs"]


def dagger(m):
    return np.asarray(m).conj().T


def ref_apply(A, B, X):
    """sum_k A_k X B_k^dagger, written out with explicit index sums (object-dtype safe)"""
    xo, ri = A[0].shape
    yo, ci = B[0].shape
    out = np.zeros((xo, yo), dtype=object if (np.asarray(X).dtype == object or A[0].dtype == object or B[0].dtype == object) else complex)
    for a_k, b_k in zip(A, B):
        bc = np.asarray(b_k).conj()
        out = out + np.dot(np.dot(a_k, X), bc.T)
    return out


def ref_choi(A, B):
    """J[(i,a),(j,b)] = sum_k A_k[a,i] conj(B_k[b,j])"""
    xo, ri = A[0].shape
    yo, ci = B[0].shape
    obj = A[0].dtype == object or B[0].dtype == object
    J = np.zeros((ri * xo, ci * yo), dtype=object if obj else complex)
    for a_k, b_k in zip(A, B):
        va = np.asarray(a_k).T.reshape(-1)
        vb = np.asarray(b_k).conj().T.reshape(-1)
        J = J + np.multiply.outer(va, vb)
    return J


def ref_choi_apply(J, X, ri, ci, xo, yo):
    """Phi(X)[a,b] = sum_{ij} J[(i,a),(j,b)] X[i,j]"""
    J4 = np.asarray(J).reshape(ri, xo, ci, yo)
    return np.tensordot(J4, np.asarray(X), axes=([0, 2], [0, 1]))


def ref_choi_sys1(J, ri, ci, xo, yo):
    """sum_ij Phi(E_ij) (x) E_ij from sum_ij E_ij (x) Phi(E_ij)"""
    J4 = np.asarray(J).reshape(ri, xo, ci, yo)
    return np.transpose(J4, (1, 0, 3, 2)).reshape(xo * ri, yo * ci)


def ref_partial(J, rho, rbefore, rafter, cbefore, cafter, ri, ci, xo, yo):
    """(id (x) Phi (x) id)(rho) by index contraction; J is the Choi matrix of Phi (reference convention)"""
    r1, r3 = int(np.prod(rbefore, dtype=int)), int(np.prod(rafter, dtype=int))
    c1, c3 = int(np.prod(cbefore, dtype=int)), int(np.prod(cafter, dtype=int))
    J4 = np.asarray(J).reshape(ri, xo, ci, yo)
    R6 = np.asarray(rho).reshape(r1, ri, r3, c1, ci, c3)
    # out[a,o,c,a',o',c'] = sum_{i,j} J4[i,o,j,o'] R6[a,i,c,a',j,c']
    t = np.tensordot(J4, R6, axes=([0, 2], [1, 4]))  # axes (o, o', a, c, a', c')
    t = np.transpose(t, (2, 0, 3, 4, 1, 5))
    return t.reshape(r1 * xo * r3, c1 * yo * c3)


def hs(Y, Z):
    """Hilbert-Schmidt inner product <Y, Z> = Tr(Y^dagger Z)"""
    Yc = np.asarray(Y).conj()
    tot = 0
    for idx in np.ndindex(*Yc.shape):
        tot = tot + Yc[idx] * np.asarray(Z)[idx]
    return tot


def interpret(phi):
    """(A, B) families from a toqito list representation, following the documented reading of the forms"""
    if isinstance(phi, list):
        if isinstance(phi[0], np.ndarray):
            return list(phi), list(phi)
        n0, n1 = len(phi), len(phi[0])
        if n1 == 1 or (n0 == 1 and n1 > 2):
            flat = [k for row in phi for k in row]
            return flat, flat
        return [k[0] for k in phi], [k[1] for k in phi]
    raise TypeError("not a list representation")
