"""Executor-side contract clauses for the index layer (shared by C01, C02, C03, C16).  Each clause runs the REAL
function from /repo and checks the contract's postcondition against the executable reference spec."""
from __future__ import annotations

import itertools

import numpy as np

from contracts import specs_np as R
from vt.contract import Undecided, Violation


def _entries(shape, mode, seed=0):
    n = int(np.prod(shape))
    if mode == "arange":
        return np.arange(n).reshape(shape)
    if mode == "complex":
        rng = np.random.default_rng(seed)
        return (rng.standard_normal(shape) + 1j * rng.standard_normal(shape))
    if mode == "float":
        return np.random.default_rng(seed).standard_normal(shape)
    if mode == "sym":
        import sympy as sp

        a = np.empty(n, dtype=object)
        for i in range(n):
            a[i] = sp.Symbol("x%d" % i)
        return a.reshape(shape)
    raise ValueError(mode)


def _layout(X, p):
    """the same values in another memory layout: Fortran-ordered, or a non-contiguous strided view of a larger buffer
    (reshape / transpose must not depend on how the caller's array happens to be stored)"""
    lay = p.get("layout")
    if not lay or getattr(X, "dtype", None) == object:
        return X
    if lay == "F":
        return np.asfortranarray(X)
    if lay == "view":
        big = np.zeros(tuple(2 * s for s in X.shape), dtype=X.dtype)
        sl = tuple(slice(None, None, 2) for _ in X.shape)
        big[sl] = X
        return big[sl]
    raise ValueError(lay)


def _flag(b, form):
    """a Boolean flag as the caller may write it: True / False, 1 / 0, or a numpy bool (the result of np.all(...), a comparison of numpy scalars)"""
    if form == "int":
        return 1 if b else 0
    if form == "npbool":
        return np.bool_(bool(b))
    return bool(b)


def _intseq(vals, form):
    """a sequence of integers in the form the caller might hold it: list (default), tuple, ndarray, list of numpy ints"""
    vals = [int(v) for v in vals]
    if form == "tuple":
        return tuple(vals)
    if form == "array":
        return np.array(vals)
    if form == "npint":
        return [np.int64(v) for v in vals]
    return list(vals)


def _eq(got, exp, what):
    got = np.asarray(got)
    exp = np.asarray(exp)
    if got.shape != exp.shape:
        raise Violation("%s: shape %s, contract requires %s" % (what, got.shape, exp.shape))
    if got.dtype != object and exp.dtype != object and (np.issubdtype(got.dtype, np.inexact) or np.issubdtype(exp.dtype, np.inexact)):
        # sums of floats may be taken in a different order: tolerance 1e-9 (pure gathers are still exact)
        if np.allclose(got, exp, atol=1e-9, rtol=1e-9):
            return
    if not R.obj_equal(got, exp):
        bad = [(i, got[i], exp[i]) for i in np.ndindex(*got.shape) if not _same(got[i], exp[i])][:3]
        raise Violation("%s: entries differ from the contract, e.g. (index, got, required) %s" % (what, bad))


def _same(a, b):
    try:
        return bool(a == b)
    except Exception:
        return False


def _dim_arg(p, rdims, cdims):
    form = p.get("dimform", "list")
    if form == "list":
        return list(rdims)
    if form == "array":
        return np.array(rdims)
    if form == "2row":
        return [list(rdims), list(cdims)]
    if form == "2row-array":
        return np.array([list(rdims), list(cdims)])
    if form == "omitted":
        return None
    if form == "scalar":
        return int(rdims[0])
    raise ValueError(form)


# ------------------------------------------------------------------------------------------ vec / unvec
def vec_index(p):
    from toqito.matrix_ops import vec

    M = _entries(tuple(p["shape"]), p.get("entries", "arange"))
    got = vec(_layout(M, p))
    exp = np.empty((M.size, 1), dtype=M.dtype)
    for idx in np.ndindex(*M.shape):
        flat = 0
        stride = 1
        for a, i in enumerate(idx):
            flat += i * stride
            stride *= M.shape[a]
        exp[flat, 0] = M[idx]
    _eq(got, exp, "vec")


def unvec_index(p):
    from toqito.matrix_ops import unvec, vec

    r, c = p["shape"]
    v = _entries((r * c, 1) if p.get("form") == "column" else (r * c,), p.get("entries", "arange"))
    got = unvec(v, [r, c])
    exp = np.empty((r, c), dtype=v.dtype)
    for i in range(r):
        for j in range(c):
            exp[i, j] = v.ravel()[i + r * j]
    _eq(got, exp, "unvec")
    _eq(vec(got).ravel(), v.ravel(), "vec(unvec(v))")
    M = _entries((r, c), p.get("entries", "arange"))
    _eq(unvec(vec(M), [r, c]), M, "unvec(vec(M))")


# ------------------------------------------------------------------------------------------ permute_systems
def ps_index(p):
    from toqito.perms import permute_systems

    rd, cd = p["rdims"], p.get("cdims") or p["rdims"]
    kind = p["kind"]
    Rn, Cn = int(np.prod(rd)), int(np.prod(cd))
    ent = p.get("entries", "arange")
    if kind == "vector":
        X = _entries((Rn,), ent)
    elif kind == "column":
        X = _entries((Rn, 1), ent)
    else:
        X = _entries((Rn, Cn), ent)
    if p.get("sparse"):
        import scipy.sparse as sps

        Xin = sps.csr_matrix(X.reshape(1, -1) if kind == "vector" else X)  # a 1-D vector as a 1 x N sparse row
    else:
        Xin = _layout(X, p)
    dim = _dim_arg(p, rd, cd)
    args = [Xin, _intseq(p["perm"], p.get("permform")), dim]
    if not p.get("defaults"):
        args += [_flag(p["row_only"], p.get("flagform")), _flag(p["inv"], p.get("flagform"))]
    got = permute_systems(*args)
    if hasattr(got, "toarray"):
        got = got.toarray()
    if kind == "column" or (kind == "vector" and p.get("sparse")):
        exp = R.ref_permute(X.ravel(), p["perm"], rd, rd, False, False if p.get("defaults") else p["inv"])
        if p.get("sparse") and (not isinstance(got, np.ndarray) or got.size != exp.size):
            raise Violation("permute_systems(sparse vector): returned %s of shape %s for a vector of length %d" % (type(got).__name__, getattr(got, "shape", None), exp.size))
        got = np.asarray(got).ravel()
    else:
        exp = R.ref_permute(X, p["perm"], rd, cd, False if p.get("defaults") else p["row_only"], False if p.get("defaults") else p["inv"])
    _eq(got, exp, "permute_systems")
    if ent in ("arange", "float", "complex") and not p.get("sparse"):
        if np.asarray(got).dtype != X.dtype:
            raise Violation("permute_systems: dtype %s changed to %s" % (X.dtype, np.asarray(got).dtype))


def ps_kron(p):
    """A_0 (x) ... (x) A_{n-1}  ->  A_{p[0]} (x) ... (x) A_{p[n-1]}  (and the inverse option undoes it)"""
    from toqito.perms import permute_systems

    rd, cd, perm = p["rdims"], p["cdims"], list(p["perm"])
    n = len(perm)
    mode = p.get("entries", "complex")
    fac = []
    for i in range(n):
        if mode == "sym":
            import sympy as sp

            A = np.empty((rd[i], cd[i]), dtype=object)
            for a in range(rd[i]):
                for b in range(cd[i]):
                    A[a, b] = sp.Symbol("a%d_%d_%d" % (i, a, b))
        else:
            A = _entries((rd[i], cd[i]), mode, seed=p.get("seed", 0) + i)
        fac.append(A)
    if p.get("vector"):
        fac = [f[:, 0] for f in fac]
        X = R.kron_all(fac)
        got = permute_systems(X, perm, list(rd))
        exp = R.kron_all([fac[perm[i]] for i in range(n)])
        _close(got, exp, "permute_systems(kron of vectors)")
        back = permute_systems(got, perm, [rd[perm[i]] for i in range(n)], False, True)
        _close(back, X, "inverse option undoes the forward call (vectors)")
        return
    X = R.kron_all(fac)
    got = permute_systems(X, perm, [list(rd), list(cd)])
    exp = R.kron_all([fac[perm[i]] for i in range(n)])
    _close(got, exp, "permute_systems(kron)")
    back = permute_systems(got, perm, [[rd[perm[i]] for i in range(n)], [cd[perm[i]] for i in range(n)]], False, True)
    _close(back, X, "inverse option undoes the forward call")


def _close(got, exp, what, tol=1e-9):
    got = np.asarray(got)
    exp = np.asarray(exp)
    if got.shape != exp.shape:
        raise Violation("%s: shape %s, required %s" % (what, got.shape, exp.shape))
    if got.dtype == object or exp.dtype == object:
        if not R.obj_equal(got, exp):
            raise Violation("%s: symbolic entries differ" % what)
        return
    if not np.allclose(got, exp, atol=tol, rtol=0):
        raise Violation("%s: max abs deviation %.3g" % (what, float(np.max(np.abs(got - exp)))))


def ps_rowonly_operator(p):
    """row_only == left multiplication by permutation_operator; operator is a permutation matrix (unitary)"""
    from toqito.perms import permutation_operator, permute_systems

    d, perm, inv = p["dims"], list(p["perm"]), bool(p["inv"])
    N = int(np.prod(d))
    P = permutation_operator(d, perm, inv, bool(p.get("sparse")))
    if hasattr(P, "toarray"):
        P = P.toarray()
    P = np.asarray(P)
    exp = R.ref_permutation_operator(d, perm, inv)
    _close(P, exp, "permutation_operator")
    _close(P @ P.conj().T, np.eye(N), "permutation_operator unitary")
    X = _entries((N, p.get("cols", N)), "complex", seed=p.get("seed", 0))
    got = permute_systems(X, perm, list(d), True, inv)
    _close(got, P @ X, "row_only == P @ X")
    v = _entries((N,), "complex", seed=1 + p.get("seed", 0))
    _close(permute_systems(v, perm, list(d), False, inv), P @ v, "P implements the vector action")
    Y = _entries((N, N), "complex", seed=2 + p.get("seed", 0))
    _close(permute_systems(Y, perm, list(d), False, inv), P @ Y @ P.T, "P X P^T == permute_systems(X)")


def permop_index(p):
    from toqito.perms import permutation_operator

    d = p["dims"]
    arg = int(d[0]) if p.get("scalar") else list(d)
    P = permutation_operator(arg, list(p["perm"]), bool(p["inv"]), bool(p.get("sparse")))
    if hasattr(P, "toarray"):
        P = P.toarray()
    _close(np.asarray(P), R.ref_permutation_operator(d, p["perm"], p["inv"]), "permutation_operator")


def swapop_index(p):
    from toqito.perms import swap_operator

    d = p["dims"]
    arg = int(d[0]) if p.get("scalar") else list(d)
    P = swap_operator(arg, bool(p.get("sparse")))
    if hasattr(P, "toarray"):
        P = P.toarray()
    _close(np.asarray(P), R.ref_permutation_operator(d, [1, 0], False), "swap_operator")


def swap_index(p):
    from toqito.perms import swap

    rd, cd = p["rdims"], p.get("cdims") or p["rdims"]
    X = _entries((int(np.prod(rd)), int(np.prod(cd))), p.get("entries", "arange"))
    form = p.get("dimform", "list")
    if form == "list":
        dim = list(rd)
    elif form == "2row":
        dim = [list(rd), list(cd)]
    elif form == "array":
        dim = np.array(rd)
    elif form == "scalar":
        dim = int(rd[0])
    else:
        dim = None
    if p.get("vector"):
        X = X[:, 0] if X.ndim == 2 else X
        X = _entries((int(np.prod(rd)),), p.get("entries", "arange"))
        got = swap(X, list(p["sys"]), dim)
        _eq(got, R.ref_swap(X, p["sys"], rd, rd, False), "swap(vector)")
        return
    if p.get("all_omitted"):  # swap(X, row_only=True) with sys and dim omitted: two equal row subsystems, any number of columns
        ncols = int(p.get("ncols", X.shape[1]))
        X = _entries((X.shape[0], ncols), p.get("entries", "arange"))
        got = swap(X, row_only=True) if p["row_only"] else swap(X)
        d = int(rd[0])
        W = np.zeros((d * d, d * d), dtype=int)
        for i in range(d):
            for j in range(d):
                W[i * d + j, j * d + i] = 1
        _eq(got, (W @ X) if p["row_only"] else (W @ X @ W.T), "swap(X%s) with sys and dim omitted" % (", row_only=True" if p["row_only"] else ""))
        return
    if p.get("sys_omitted"):  # `sys` omitted while `dim` is given: the first two subsystems are exchanged, whatever their number
        got = swap(X, dim=dim)
        _eq(got, R.ref_swap(X, [1, 2], rd, cd, False), "swap(X, dim=...) with sys omitted")
        return
    got = swap(X, list(p["sys"]), dim, _flag(p["row_only"], p.get("flagform")))
    _eq(got, R.ref_swap(X, p["sys"], rd, cd, p["row_only"]), "swap")


def ps_float_prelude(p):
    """S-float-dims: omitted dim means n equal subsystems of dimension round(N ** (1/n))"""
    from toqito.perms import permute_systems

    d, n, perm = p["d"], p["n"], list(p["perm"])
    X = np.arange(d**n)
    got = permute_systems(X, perm)
    _eq(got, R.ref_permute(X, perm, [d] * n), "permute_systems(dim omitted, d=%d, n=%d)" % (d, n))
    if d**n <= 64:
        M = np.arange(d ** (2 * n)).reshape(d**n, d**n)
        _eq(permute_systems(M, perm), R.ref_permute(M, perm, [d] * n, [d] * n), "permute_systems(matrix, dim omitted)")


# ------------------------------------------------------------------------------------------ partial_trace
def ptrace_index(p):
    from toqito.channels import partial_trace

    d = p["dims"]
    N = int(np.prod(d))
    X = _entries((N, N), p.get("entries", "arange"))
    scale = p.get("scale")
    if scale is not None:  # homogeneity: an operator of tiny (or huge) magnitude is an operator like any other; compared relative to its scale
        X = X * float(scale)
    S = list(p["sys"])
    sys_arg = int(S[0]) if p.get("sysform") == "int" else (np.int64(S[0]) if p.get("sysform") == "npint-scalar" else _intseq(S, p.get("sysform")))
    form = p.get("dimform", "list")
    if form == "list":
        dim = list(d)
    elif form == "tuple":
        dim = tuple(int(x) for x in d)
    elif form == "npint":
        dim = [np.int64(x) for x in d]
    elif form == "array":
        dim = np.array(d)
    elif form == "scalar":
        dim = int(d[0])
    else:
        dim = None
    Xin = _layout(X, p)
    if form == "omitted":
        got = partial_trace(Xin) if p.get("sys_omitted") else partial_trace(Xin, sys_arg)
    elif p.get("sys_omitted"):  # `sys` omitted, `dim` given: the second subsystem is traced out
        got = partial_trace(Xin, dim=dim)
    else:
        got = partial_trace(Xin, sys_arg, dim)
    exp = R.ref_partial_trace(X, S, d)
    if scale is not None:
        got = np.asarray(got)
        if got.dtype != np.asarray(exp).dtype:
            raise Violation("partial_trace of a %s operator of magnitude %g has dtype %s" % (np.asarray(exp).dtype, float(scale), got.dtype))
        _eq(got / float(scale), np.asarray(exp) / float(scale), "partial_trace (operator of magnitude %g, compared relative to it)" % float(scale))
        return
    _eq(got, exp, "partial_trace")


def ptrace_corollaries(p):
    """linearity, Tr o Tr_S = Tr, Tr_B(A (x) B) = Tr(B) A, Tr_S o Tr_T = Tr_{S u T}"""
    from toqito.channels import partial_trace

    d = p["dims"]
    n = len(d)
    N = int(np.prod(d))
    seed = p.get("seed", 0)
    X = _entries((N, N), "complex", seed)
    Y = _entries((N, N), "complex", seed + 1)
    S = list(p["sys"])
    a, b = 0.7 - 0.2j, -1.3 + 0.5j
    _close(partial_trace(a * X + b * Y, S, list(d)), a * partial_trace(X, S, list(d)) + b * partial_trace(Y, S, list(d)), "linearity")
    if len(S) < n:
        _close(np.trace(partial_trace(X, S, list(d))), np.trace(X), "trace preserved")
    # composition: trace S then T (T re-indexed in the remaining systems)
    rest = [i for i in range(n) if i not in S]
    if len(rest) >= 2:
        T_local = [0]
        T_global = [rest[0]]
        first = partial_trace(X, S, list(d))
        second = partial_trace(first, T_local, [d[i] for i in rest])
        _close(second, partial_trace(X, sorted(S + T_global), list(d)), "Tr_T o Tr_S == Tr_{S u T}")
    if n == 2:
        A = _entries((d[0], d[0]), "complex", seed + 2)
        B = _entries((d[1], d[1]), "complex", seed + 3)
        _close(partial_trace(np.kron(A, B), [1], list(d)), np.trace(B) * A, "Tr_B(A (x) B) == Tr(B) A")
        _close(partial_trace(np.kron(A, B), [0], list(d)), np.trace(A) * B, "Tr_A(A (x) B) == Tr(A) B")


def ptrace_cvxpy(p):
    import cvxpy

    from toqito.channels import partial_trace

    d = p["dims"]
    N = int(np.prod(d))
    kind = p.get("var", "complex")
    rng = np.random.default_rng(p.get("seed", 0))
    if kind == "real":
        V = cvxpy.Variable((N, N))
        val = rng.standard_normal((N, N))
    elif kind == "hermitian":
        V = cvxpy.Variable((N, N), hermitian=True)
        A = rng.standard_normal((N, N)) + 1j * rng.standard_normal((N, N))
        val = (A + A.conj().T) / 2
    else:
        V = cvxpy.Variable((N, N), complex=True)
        val = rng.standard_normal((N, N)) + 1j * rng.standard_normal((N, N))
    V.value = val
    S = list(p["sys"])
    sys_arg = int(S[0]) if p.get("sysform") == "int" else S
    got = partial_trace(V, sys_arg, list(d))
    if not hasattr(got, "value"):
        raise Violation("partial_trace(Variable) did not return a cvxpy expression")
    _close(np.asarray(got.value), R.ref_partial_trace(val, S, d), "partial_trace(cvxpy Variable)", 1e-10)
    _close(np.asarray(got.value), partial_trace(val, sys_arg, list(d)), "variable path == numeric path", 1e-12)
    # the same Variable object again, with a different factorisation of the same size: the result must follow the arguments of THIS call
    alts = [list(reversed(d))] + ([[d[0] * d[1]] + list(d[2:])] if len(d) >= 3 else []) + [[N]]
    for d2 in alts:
        if list(d2) == list(d) or max(S) >= len(d2):
            continue
        again = partial_trace(V, sys_arg if max(S) < len(d2) else [0], list(d2))
        _close(np.asarray(again.value), R.ref_partial_trace(val, S, d2), "partial_trace(same Variable, other dim %s after %s)" % (d2, d), 1e-10)


# ------------------------------------------------------------------------------------------ partial_transpose
def ptranspose_index(p):
    from toqito.channels import partial_transpose

    rd, cd = p["rdims"], p.get("cdims") or p["rdims"]
    X = _entries((int(np.prod(rd)), int(np.prod(cd))), p.get("entries", "arange"))
    S = list(p["sys"])
    sf = p.get("sysform", "list")
    sys_arg = int(S[0]) if sf == "int" else (np.array(S) if sf == "array" else S)
    form = p.get("dimform", "list")
    if form == "list":
        dim = list(rd)
    elif form == "array":
        dim = np.array(rd)
    elif form == "2row":
        dim = [list(rd), list(cd)]
    elif form == "2row-array":
        dim = np.array([list(rd), list(cd)])
    else:
        dim = None
    Xin = _layout(X, p)
    if p.get("sys_omitted"):  # `sys` not passed: the second subsystem is transposed
        got = partial_transpose(Xin, dim=dim) if dim is not None else partial_transpose(Xin)
    else:
        got = partial_transpose(Xin, sys_arg, dim) if dim is not None else partial_transpose(Xin, sys_arg)
    _eq(got, R.ref_partial_transpose(X, S, rd, cd), "partial_transpose")


def ptranspose_corollaries(p):
    from toqito.channels import partial_transpose

    rd, cd = p["rdims"], p.get("cdims") or p["rdims"]
    n = len(rd)
    X = _entries((int(np.prod(rd)), int(np.prod(cd))), "complex", p.get("seed", 0))
    S = list(p["sys"])
    dim = [list(rd), list(cd)]
    once = partial_transpose(X, S, dim)
    r2 = [cd[s] if s in S else rd[s] for s in range(n)]
    c2 = [rd[s] if s in S else cd[s] for s in range(n)]
    _close(partial_transpose(once, S, [r2, c2]), X, "involution")
    _close(partial_transpose(X, list(range(n)), dim), X.T, "all subsystems == ordinary transpose")
    comp = [s for s in range(n) if s not in S]
    if comp:
        _close(partial_transpose(X, comp, dim), once.T, "transposing S and transposing its complement differ by a full transpose")
    _close(np.linalg.norm(once), np.linalg.norm(X), "Frobenius norm preserved")


def ptranspose_cvxpy(p):
    import cvxpy

    from toqito.channels import partial_transpose

    d = p["dims"]
    N = int(np.prod(d))
    rng = np.random.default_rng(p.get("seed", 0))
    kind = p.get("var", "complex")
    if p.get("cdims"):  # a rectangular variable: row dimensions `dims`, column dimensions `cdims` (two-row dim argument)
        cd = p["cdims"]
        M = int(np.prod(cd))
        A = rng.standard_normal((N, M)) + 1j * rng.standard_normal((N, M))
        V = cvxpy.Variable((N, M), complex=(kind != "real"))
        val = A.real if kind == "real" else A
        V.value = val
        S = list(p["sys"])
        got = partial_transpose(V, S, [list(d), list(cd)])
        if not hasattr(got, "value"):
            raise Violation("partial_transpose(cvxpy expression) did not return a cvxpy expression")
        exp = R.ref_partial_transpose(val, S, d, cd)
        _close(np.asarray(got.value), exp, "partial_transpose(rectangular cvxpy %s variable, rows %s, columns %s)" % (kind, list(d), list(cd)), 1e-10)
        _close(np.asarray(got.value), partial_transpose(val, S, [list(d), list(cd)]), "variable path == numeric path (rectangular %s)" % kind, 1e-12)
        return
    A = rng.standard_normal((N, N)) + 1j * rng.standard_normal((N, N))
    if kind == "real":
        V = cvxpy.Variable((N, N))
        val = A.real
    elif kind == "hermitian":  # a complex Hermitian variable: its lower triangle is the conjugate of the upper one
        V = cvxpy.Variable((N, N), hermitian=True)
        val = (A + A.conj().T) / 2
    elif kind == "symmetric":
        V = cvxpy.Variable((N, N), symmetric=True)
        val = (A.real + A.real.T) / 2
    elif kind == "expression":  # an affine expression of a Hermitian variable, not a bare Variable
        W = cvxpy.Variable((N, N), hermitian=True)
        W.value = (A + A.conj().T) / 2
        V = 2 * W + np.eye(N)
        val = 2 * W.value + np.eye(N)
    else:
        V = cvxpy.Variable((N, N), complex=True)
        val = A
    if kind != "expression":
        V.value = val
    S = list(p["sys"])
    sf = p.get("sysform", "list")
    sys_arg = int(S[0]) if sf == "int" else (np.array(S) if sf == "array" else S)
    got = partial_transpose(V, sys_arg, list(d))
    if not hasattr(got, "value"):
        raise Violation("partial_transpose(cvxpy expression) did not return a cvxpy expression")
    _close(np.asarray(got.value), R.ref_partial_transpose(val, S, d, d), "partial_transpose(cvxpy %s, sys given as %s)" % (kind, sf), 1e-10)
    _close(np.asarray(got.value), partial_transpose(val, sys_arg, list(d)), "variable path == numeric path (%s, sys as %s)" % (kind, sf), 1e-12)


def realign_index(p):
    from toqito.channels import realignment

    rd, cd = p["rdims"], p.get("cdims") or p["rdims"]
    X = _entries((int(np.prod(rd)), int(np.prod(cd))), p.get("entries", "arange"))
    form = p.get("dimform", "list")
    if form == "list":
        dim = list(rd)
    elif form == "2row":
        dim = [list(rd), list(cd)]
    elif form == "scalar":
        dim = int(rd[0])
    else:
        dim = None
    Xin = _layout(X, p)
    if p.get("sparse"):
        import scipy.sparse as sps

        Xin = {"csr": sps.csr_matrix, "coo": sps.coo_matrix, "csc": sps.csc_matrix, "csr_array": sps.csr_array}[p["sparse"]](X)
    got = realignment(Xin, dim) if dim is not None else realignment(Xin)
    if hasattr(got, "toarray"):
        got = got.toarray()
    _eq(got, R.ref_realignment(X, rd, cd), "realignment")


def realign_rank_one(p):
    from toqito.channels import realignment

    rd, cd = p["rdims"], p["cdims"]
    A = _entries((rd[0], cd[0]), "complex", p.get("seed", 0))
    B = _entries((rd[1], cd[1]), "complex", p.get("seed", 0) + 1)
    got = realignment(np.kron(A, B), [list(rd), list(cd)])
    exp = np.outer(A.reshape(-1), B.reshape(-1))
    _close(got, exp, "realignment(A (x) B) == vec_row(A) vec_row(B)^T")
    _close(np.linalg.norm(got), np.linalg.norm(np.kron(A, B)), "Frobenius norm preserved")


CLAUSES = {
    "vec.index": vec_index,
    "unvec.index": unvec_index,
    "ps.index": ps_index,
    "ps.kron": ps_kron,
    "ps.rowonly_operator": ps_rowonly_operator,
    "ps.float_prelude": ps_float_prelude,
    "permop.index": permop_index,
    "swapop.index": swapop_index,
    "swap.index": swap_index,
    "ptrace.index": ptrace_index,
    "ptrace.corollaries": ptrace_corollaries,
    "ptrace.cvxpy": ptrace_cvxpy,
    "ptranspose.index": ptranspose_index,
    "ptranspose.corollaries": ptranspose_corollaries,
    "ptranspose.cvxpy": ptranspose_cvxpy,
    "realign.index": realign_index,
    "realign.rank_one": realign_rank_one,
}
for _k, _f in CLAUSES.items():
    _f.function = {"ps": "permute_systems", "vec": "vec", "unvec": "unvec", "permop": "permutation_operator", "swapop": "swap_operator", "swap": "swap", "ptrace": "partial_trace", "ptranspose": "partial_transpose", "realign": "realignment"}[_k.split(".")[0]]


# ------------------------------------------------------------------------------------------ frame / dtype clauses
def frame_args(p):
    """the call writes through none of its arguments (array and dimension arguments are bit-identical afterwards) and a second
    call with the very same argument objects returns the same result"""
    import copy

    import toqito.channels as ch
    import toqito.perms as pm

    fn = p["fn"]
    rd, cd = p["rdims"], p.get("cdims") or p["rdims"]
    X = _entries((int(np.prod(rd)), int(np.prod(cd))), "arange").astype(float)
    two_row = np.array([list(rd), list(cd)])
    one_row = np.array(list(rd))
    dimarg = two_row if p.get("dimform", "2row-array") == "2row-array" else one_row
    if p.get("dimdtype") == "float":  # a dimension table computed with floating-point arithmetic (sqrt, division): no dtype conversion makes a hidden copy of it
        dimarg = dimarg.astype(float)
    if fn == "partial_transpose":
        args = [X, np.array(p.get("sys", [0])), dimarg]
        f = ch.partial_transpose
    elif fn == "partial_trace":
        args = [X, np.array(p.get("sys", [0])) if p.get("sys_array") else list(p.get("sys", [0])), one_row]
        f = ch.partial_trace
    elif fn == "realignment":
        args = [X, dimarg]
        f = ch.realignment
    elif fn == "permute_systems":
        args = [X, np.array(p["perm"]), dimarg]
        f = pm.permute_systems
    elif fn == "swap":
        args = [X, np.array(p.get("sys", [1, 2])) if p.get("sys_array", True) else list(p.get("sys", [1, 2])), dimarg]
        f = pm.swap
    else:
        raise ValueError(fn)
    before = copy.deepcopy(args)
    r1 = f(*args)
    for i, (a, b) in enumerate(zip(args, before)):
        if not (np.array_equal(np.asarray(a), np.asarray(b)) and np.asarray(a).shape == np.asarray(b).shape):
            raise Violation("%s modified its argument #%d: %s -> %s" % (fn, i, np.asarray(b).tolist(), np.asarray(a).tolist()))
    r2 = f(*args)
    if np.asarray(r1).shape != np.asarray(r2).shape or not np.array_equal(np.asarray(r1), np.asarray(r2)):
        raise Violation("%s: a second call with the same argument objects returned a different result" % fn)
    r3 = f(*copy.deepcopy(before))
    if np.asarray(r1).shape != np.asarray(r3).shape or not np.array_equal(np.asarray(r1), np.asarray(r3)):
        raise Violation("%s: result depends on earlier calls" % fn)


def int_dtype(p):
    """integer dtypes: entries are gathered exactly and sums are the exact integer sums (no wrap-around in a narrow dtype)"""
    from toqito.channels import partial_trace, partial_transpose
    from toqito.perms import permute_systems

    dt = np.dtype(p["dtype"])
    d = p["dims"]
    N = int(np.prod(d))
    hi = 1 if dt == np.bool_ else int(np.iinfo(dt).max)
    X = np.full((N, N), hi, dtype=dt)
    X[0, 0] = 0 if dt == np.bool_ else hi - 1
    S = list(p["sys"])
    only = p.get("only", "partial_trace")  # each property judges its own function only
    if only == "partial_trace":
        got = np.asarray(partial_trace(X, S, list(d)))
        exp = R.ref_partial_trace(X.astype(object), S, d)
        if got.shape != exp.shape or any(int(got[i]) != int(exp[i]) for i in np.ndindex(*exp.shape)):
            raise Violation("partial_trace on dtype %s: got %s, exact integer sums are %s" % (dt, got.tolist(), exp.tolist()))
    if only == "permute_systems":
        perm = list(range(1, len(d))) + [0]
        g2 = np.asarray(permute_systems(X, perm, list(d)))
        if not np.array_equal(g2.astype(object), R.ref_permute(X.astype(object), perm, d, d)):
            raise Violation("permute_systems on dtype %s changes entries" % dt)
        if g2.dtype != dt:
            raise Violation("permute_systems changed dtype %s to %s" % (dt, g2.dtype))
    if only == "partial_transpose":
        g3 = np.asarray(partial_transpose(X, [0], list(d)))
        if not np.array_equal(g3.astype(object), R.ref_partial_transpose(X.astype(object), [0], d, d)):
            raise Violation("partial_transpose on dtype %s changes entries" % dt)


CLAUSES["frame.args"] = frame_args
CLAUSES["int_dtype"] = int_dtype
frame_args.function = "index-layer frame"
int_dtype.function = "partial_trace"


def e1_crosscheck(p):
    """self-check of the prover, not of the code: the E1 symbolic executor's prediction on concrete dimensions (which input entries each
    output entry reads) must be what CPython computes with the real function on an arange array"""
    from toqito.channels import partial_trace, partial_transpose
    from toqito.perms import permute_systems

    if "engine_error" in p:
        raise Undecided("E1 engine could not execute this concrete instance: %s" % p["engine_error"])
    fn = p["fn"]
    if fn == "permute_systems":
        rd, cd = p["rdims"], p["cdims"]
        if p["kind"] == "vector":
            A = np.arange(int(np.prod(rd))) + 1
            got = permute_systems(A, p["perm"], list(rd), False, p["inv"])
        else:
            A = (np.arange(int(np.prod(rd)) * int(np.prod(cd))) + 1).reshape(int(np.prod(rd)), int(np.prod(cd)))
            got = permute_systems(A, p["perm"], [list(rd), list(cd)], p["row_only"], p["inv"])
    elif fn == "partial_trace":
        N = int(np.prod(p["dims"]))
        A = (np.arange(N * N) + 1).reshape(N, N)
        got = partial_trace(A, list(p["sys"]), list(p["dims"]))
    else:
        N = int(np.prod(p["dims"]))
        A = (np.arange(N * N) + 1).reshape(N, N)
        got = partial_transpose(A, list(p["sys"]), list(p["dims"]))
    got = np.asarray(got)
    if list(got.shape) != list(p["shape"]):
        raise Violation("E1 predicted shape %s, CPython gives %s (%s)" % (p["shape"], got.shape, fn))
    flat = got.reshape(-1)
    for i, terms in enumerate(p["pred"]):
        exp = sum(A[tuple(t)] for t in terms)
        if flat[i] != exp:
            raise Violation("E1 predicts output entry %d = sum of input entries %s = %s, CPython gives %s (%s)" % (i, terms, exp, flat[i], fn))


e1_crosscheck.function = "E1 engine"
CLAUSES["e1.crosscheck"] = e1_crosscheck
