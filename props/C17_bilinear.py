"""E1-array/bilinear for C17 and C16.

C17 (states with a symbolic local dimension d and a real parameter a), all d, all a:
  max_entangled(d)            psi[(i, j)] = [i == j] / sqrt(d)  (or unnormalised)            + lemma: both marginals of |psi><psi| are I / d
  isotropic(d, a)             (1 - a) I / d^2 + a |psi><psi| / d  (psi unnormalised)          + lemma: trace one
  werner(d, a)   (scalar a)   (I - a SWAP) / (d (d - a))                                      + lemma: trace one
  werner(d, [a]) (list form)  equals the scalar form                                          (the statement's "one-parameter list form")
C16 (helpers), all dimensions, number of vectors 1..3:
  vectors_to_gram_matrix      G[i, j] = sum_k conj(v_i[k]) v_j[k]       (1-D and column-vector inputs)
  to_density_matrix           |v><v| for 1-D / column / row input, the matrix itself for a square input
  lemmas over the contracts of vec and tensor:  vec(A X B) = (B^T (x) A) vec(X);  (A (x) B) (x) C = A (x) (B (x) C)
"""
from __future__ import annotations

REL = {
    "max_entangled": "toqito/states/max_entangled.py",
    "isotropic": "toqito/states/isotropic.py",
    "werner": "toqito/states/werner.py",
    "vectors_to_gram_matrix": "toqito/matrix_ops/vectors_to_gram_matrix.py",
    "to_density_matrix": "toqito/matrix_ops/to_density_matrix.py",
}
ASSUMED = [
    "numpy semantics assumed by the bilinear calculus (np.identity, np.reshape, np.outer, np.column_stack, np.dot, np.trace, @, .conj(), .T, .flatten(), scalar * array, array / scalar, +, -) as textbook index formulas; exact arithmetic (sqrt(d) is the real square root)",
    "the parameter is a real number (isinstance(alpha, float) holds for it) and the dimension a positive integer; werner's denominators d (d - a) and Tr(rho) are non-zero",
    "swap_operator / permutation_operator are used through their contracts (proved in C01)",
]


def _sym():
    import sympy as sp

    from vt.pyvc import index_proofs as IP

    d, e = IP.atoms("d", 2)
    return d, e, sp.Symbol("a", real=True)


def _delta(a, b):
    from vt.pyvc import bilinear as BL

    return BL.Poly([BL.Term(1, [], [(a, b)])])


def _c(v):
    from vt.pyvc import bilinear as BL

    return BL.Poly([BL.Term(v)])


def spec_maxent(d, normalised):
    import sympy as sp

    from vt.pyvc import bilinear as BL
    from vt.pyvc import sym

    def g(idx):
        j, i = sym.unflatten(sym.as_num(idx[0], d * d), [d, d], "F")
        return BL.p_mul(_c(1 / sp.sqrt(d) if normalised else 1), _delta(i, j))

    return sym.SymArray((d * d, sp.Integer(1)), g, "poly")


def _two(idx, d):
    from vt.pyvc import sym

    i1, i0 = sym.unflatten(sym.as_num(idx[0], d * d), [d, d], "F")
    j1, j0 = sym.unflatten(sym.as_num(idx[1], d * d), [d, d], "F")
    return i0, i1, j0, j1


def spec_isotropic(d, a):
    from vt.pyvc import bilinear as BL
    from vt.pyvc import sym

    def g(idx):
        i0, i1, j0, j1 = _two(idx, d)
        return BL.p_add(BL.p_mul(_c((1 - a) / d**2), BL.p_mul(_delta(i0, j0), _delta(i1, j1))), BL.p_mul(_c(a / d), BL.p_mul(_delta(i0, i1), _delta(j0, j1))))

    return sym.SymArray((d * d, d * d), g, "poly")


def spec_werner(d, a):
    from vt.pyvc import bilinear as BL
    from vt.pyvc import sym

    def g(idx):
        i0, i1, j0, j1 = _two(idx, d)
        k = 1 / (d * (d - a))
        return BL.p_add(BL.p_mul(_c(k), BL.p_mul(_delta(i0, j0), _delta(i1, j1))), BL.p_mul(_c(-a * k), BL.p_mul(_delta(i0, j1), _delta(i1, j0))))

    return sym.SymArray((d * d, d * d), g, "poly")


def _permop_value(interp, args, kw):
    from props.C18_bilinear import _permop_value as f

    return f(interp, args, kw)


def _swapop_value(interp, args, kw):
    from contracts import index_layer as IL

    dim = args[0]
    IL.pre(interp, "swap_operator: local dimension >= 1", True)
    return IL.spec_permutation_operator([dim, dim], [1, 0], False)


def jobs(S):
    import sympy as sp

    from contracts import index_layer as IL
    from vt.pyvc import bilinear as BL
    from vt.pyvc import index_proofs as IP
    from vt.pyvc import sym

    d, e, a = _sym()
    out = []
    me = {"max_entangled": S["max_entangled"].function("max_entangled")}
    for norm in (True, False):
        out.append(("C17", "max_entangled", "max_entangled(d, False, %s): psi[(i,j)] = [i == j]%s; all d" % (norm, " / sqrt(d)" if norm else ""), me, {}, (lambda norm=norm: ([d, False, norm], {}, [])), (lambda A, k, norm=norm: spec_maxent(d, norm)), (lambda A, k: [[d, d], []]), [d]))
    out.append(("C17", "isotropic", "isotropic(d, a) == (1 - a) I / d^2 + a |psi><psi| / d entrywise; all d, all a", dict(me, isotropic=S["isotropic"].function("isotropic")), {}, (lambda: ([d, a], {}, [])), (lambda A, k: spec_isotropic(d, a)), (lambda A, k: [[d, d], [d, d]]), [d]))
    wf = {"werner": S["werner"].function("werner")}
    con = {"swap_operator": _swapop_value, "permutation_operator": _permop_value}
    out.append(("C17", "werner", "werner(d, a) (scalar form) == (I - a SWAP) / (d (d - a)) entrywise; all d, all a", wf, con, (lambda: ([d, a], {}, [])), (lambda A, k: spec_werner(d, a)), (lambda A, k: [[d, d], [d, d]]), [d]))
    out.append(("C17", "werner", "werner(d, [a]) (one-parameter list form) equals the scalar form entrywise; all d, all a", wf, con, (lambda: ([d, [a]], {}, [])), (lambda A, k: spec_werner(d, a)), (lambda A, k: [[d, d], [d, d]]), [d]))
    # ---- C16 helpers
    gf = {"vectors_to_gram_matrix": S["vectors_to_gram_matrix"].function("vectors_to_gram_matrix")}

    def spec_gram(vs):
        n = len(vs)
        flat = [v if v.ndim == 1 else v.reshape((v.size(),), "C") for v in vs]

        def g(idx):
            W = sym.world()
            outp = None
            for i0 in range(n):
                for j0 in range(n):
                    k_ = W.fresh_digit("k", d)
                    kn = sym.Num([(k_, d)])
                    body = BL.p_mul(BL.p_conj(flat[i0].get((kn,))), flat[j0].get((kn,)))
                    if n > 1:
                        sel = BL.Poly([BL.Term(1, [], [(sym.as_num(idx[0], sp.Integer(n)), sym.Num([(sp.Integer(i0), sp.Integer(n))])), (sym.as_num(idx[1], sp.Integer(n)), sym.Num([(sp.Integer(j0), sp.Integer(n))]))])])
                        body = BL.p_mul(sel, body)
                    t = BL.Poly([BL.Term(t.coef, t.factors, t.deltas, list(t.bound) + [(k_, d)]) for t in body.terms])
                    outp = t if outp is None else BL.p_add(outp, t)
            return outp

        return sym.SymArray((sp.Integer(n), sp.Integer(n)), g, "poly")

    for n in (1, 2, 3):
        for form in ("1d", "col"):
            shape = (d,) if form == "1d" else (d, sp.Integer(1))
            out.append(("C16", "vectors_to_gram_matrix", "vectors_to_gram_matrix(%d %s vectors): G[i,j] = <v_i, v_j>; all lengths" % (n, "1-D" if form == "1d" else "column"), gf, {}, (lambda n=n, shape=shape: ([[IP.X_of(shape, "v%d" % i) for i in range(n)]], {}, [])), (lambda A, k: spec_gram(A[0])), (lambda A, k, n=n: [[sp.Integer(n)], [sp.Integer(n)]]), [d]))
    tf = {"to_density_matrix": S["to_density_matrix"].function("to_density_matrix")}

    def spec_outer(v):
        f = v if v.ndim == 1 else v.reshape((v.size(),), "C")
        return BL.outer(f, f.conj())

    for form, shape, hyp in (("1-D", (d,), []), ("column", (d, sp.Integer(1)), [sp.Ge(d, 2)]), ("row", (sp.Integer(1), d), [sp.Ge(d, 2)])):
        out.append(("C16", "to_density_matrix", "to_density_matrix(%s vector) == |v><v|; all lengths" % form, tf, {}, (lambda shape=shape, hyp=hyp: ([IP.X_of(shape, "v")], {}, hyp)), (lambda A, k: spec_outer(A[0])), (lambda A, k: [[d], [d]]), [d]))
    out.append(("C16", "to_density_matrix", "to_density_matrix(square matrix) returns the matrix; all sizes >= 2", tf, {}, (lambda: ([IP.X_of((d, d), "rho")], {}, [sp.Ge(d, 2)])), (lambda A, k: A[0]), (lambda A, k: [[d], [d]]), [d]))
    return out


def _run(job):
    from vt.pyvc.driver import verify_instance

    prop, f, lab, fns, con, mk, spec, axes, atoms = job
    recs, ms = verify_instance(f, lab, fns, con, mk, spec, axes, atoms=atoms)
    for x in recs:
        x["clean"] = False
        x["engine"] = "E1-array/bilinear"
        x["_prop"] = prop
    return recs


def records(prop, over=None):
    from vt import extract

    S = {k: extract.Source(v) for k, v in REL.items()}
    S.update(over or {})
    out = []
    for j in jobs(S):
        if j[0] == prop:
            out += _run(j)
    for i, x in enumerate(out):
        x["_id"] = "bil.%s.%d" % (prop.lower(), i)
    return out


def lemmas(prop):
    import sympy as sp

    from contracts import index_layer as IL
    from vt.pyvc import bilinear as BL
    from vt.pyvc import index_proofs as IP
    from vt.pyvc import sym
    from vt.pyvc.driver import fine_index
    from vt.pyvc.interp import Ctx
    from vt.pyvc.prove import entries_equal

    d, e, a = _sym()
    out = []

    def check(name, text, build, axes):
        sym.reset_world()
        ctx = Ctx([], ())
        try:
            lhs, rhs = build()
            idx = [fine_index(rad, "kx"[i])[0] for i, rad in enumerate(axes)]
            res = BL.polys_equal(ctx, lhs.get(tuple(idx)), rhs.get(tuple(idx)))
        except Exception as ex:
            res = dict(status="undecided", backend="-", model=None, detail="%s: %s" % (type(ex).__name__, str(ex)[:200]), ms=0.0)
        out.append(dict(function="(lemma over contracts)", instance=name, kind="lemma", text=text, claim=True, clean=False, engine="E1-array/bilinear", path=0, **res))

    def const(v):
        return sym.SymArray((sp.Integer(1), sp.Integer(1)), lambda idx: BL.Poly([BL.Term(v)]), "poly")

    def trace(A, n):
        def g(idx):
            t = sym.world().fresh_digit("t", n)
            tn = sym.Num([(t, n)])
            return BL.Poly([BL.Term(x.coef, x.factors, x.deltas, list(x.bound) + [(t, n)]) for x in BL.to_poly(A.get((tn, tn))).terms])

        return sym.SymArray((sp.Integer(1), sp.Integer(1)), g, "poly")

    if prop == "C17":
        for s in (0, 1):

            def b(s=s):
                psi = spec_maxent(d, True)
                rho = BL.matmul(psi, psi.conj().T)
                eye = sym.SymArray((d, d), lambda idx: BL.p_mul(_c(1 / d), _delta(sym.as_num(idx[0], d), sym.as_num(idx[1], d))), "poly")
                return IL.spec_partial_trace(rho, [s], [d, d]), eye

            check("L-marginal sys=%d" % s, "partial trace over subsystem %d of |psi><psi| (psi = max_entangled(d)) is I / d: postconditions of max_entangled and partial_trace composed; all d" % s, b, [[d], [d]])
        check("L-trace isotropic", "Tr isotropic(d, a) == 1 for all d, a", (lambda: (trace(spec_isotropic(d, a), d * d), const(1))), [[], []])
        check("L-trace werner", "Tr werner(d, a) == 1 for all d, a (d != a)", (lambda: (trace(spec_werner(d, a), d * d), const(1))), [[], []])
    else:
        d2, e2 = IP.atoms("f", 2)

        def b():
            A, X, B = IP.X_of((d, e), "A"), IP.X_of((e, d2), "X"), IP.X_of((d2, e2), "B")
            lhs = IL.spec_vec(BL.matmul(BL.matmul(A, X), B))
            rhs = BL.matmul(BL.kron(B.T, A), IL.spec_vec(X))
            return lhs, rhs

        check("L-vec-AXB", "vec(A X B) == (B^T (x) A) vec(X) for all (rectangular) shapes: vec's postcondition composed with kron and @", b, [[e2, d], []])

        def b2():
            A, B, C = IP.X_of((d, e), "A"), IP.X_of((d2, e2), "B"), IP.X_of((e, d), "C")
            return BL.kron(BL.kron(A, B), C), BL.kron(A, BL.kron(B, C))

        check("L-kron-assoc", "(A (x) B) (x) C == A (x) (B (x) C) for all shapes (tensor's two-operand postcondition is np.kron)", b2, [[d, d2, e], [e, e2, d]])
    for i, x in enumerate(out):
        x["_id"] = "bil.%s.lemma.%d" % (prop.lower(), i)
    return out


MUTANTS = {
    "C17": [
        ("max_entangled", "psi = psi / np.sqrt(dim)", "psi = psi / dim"),
        ("isotropic", "np.identity(dim**2) / dim**2", "np.identity(dim**2) / dim"),
        ("werner", "(dim * (dim - alpha))", "(dim * (dim + alpha))"),
        ("werner", "rho -= alpha[i - 1] * permutation_operator", "rho += alpha[i - 1] * permutation_operator"),
    ],
    "C16": [
        ("vectors_to_gram_matrix", "np.dot(stacked_vectors.conj().T, stacked_vectors)", "np.dot(stacked_vectors.T, stacked_vectors)"),
        ("to_density_matrix", "density_matrix = np.outer(input_array, np.conjugate(input_array))", "density_matrix = np.outer(np.conjugate(input_array), input_array)"),
    ],
}


def planted(prop):
    from vt import extract

    out = {"tried": 0, "refuted": 0, "survivors": [], "anchors_missing": [], "detail": []}
    for key, old, new in MUTANTS[prop]:
        try:
            m = extract.Source(REL[key]).mutated(old, new)
        except KeyError:
            out["anchors_missing"].append("%s: %s" % (key, old[:50]))
            continue
        bad = [x for x in records(prop, {key: m}) if x["status"] != "discharged"]
        out["tried"] += 1
        if bad:
            out["refuted"] += 1
            out["detail"].append({"mutant": "%s: %s -> %s" % (key, old[:50], new[:50]), "not_discharged": len(bad), "first": (bad[0]["instance"] + ": " + bad[0]["text"])[:140]})
        else:
            out["survivors"].append("%s: %s" % (key, old[:60]))
    return out


def replay_cases(prop, function, seed=0, limit=40):
    """bounded cases of the property that exercise `function` (matched on clause name / input class); attached to undischarged obligations"""
    import importlib

    mod = importlib.import_module("props." + prop)
    gen = getattr(mod, "_cases_before_frames", None) or mod.cases
    key = {"vectors_to_gram_matrix": "gram", "to_density_matrix": "density"}.get(function, function)
    out = []
    for c in gen("quick", seed):
        if key in c.get("clause", "") or key in c.get("input_class", ""):
            c = dict(c)
            c.setdefault("function", function)
            out.append(c)
            if len(out) >= limit:
                break
    return out


def prove_part(prop):
    """prove()-shaped result for the bilinear obligations of `prop` (C16 or C17)"""
    from vt import extract

    recs = records(prop) + lemmas(prop)
    cache = {}
    for x in recs:
        if x["status"] != "discharged" and x["function"] in REL:
            if x["function"] not in cache:
                cache[x["function"]] = replay_cases(prop, x["function"])
            x["replay"] = cache[x["function"]]
    pl = planted(prop)
    per = {}
    for x in recs:
        if x.get("claim"):
            per[x["function"]] = per.get(x["function"], 0) + 1
    fns = sorted({x["function"] for x in recs if x["function"] in REL})
    sc = {"planted_bugs_all_refuted": {"ok": pl["tried"] == pl["refuted"], "detail": pl}, "bilinear_nonzero_claim_obligations": {"ok": all(per.get(g, 0) > 0 for g in fns) and per.get("(lemma over contracts)", 0) > 0, "detail": per}}
    from vt.pyvc import bilinear as BL

    cc = BL.crosscheck(30, 1)
    sc["bilinear_numpy_crosscheck"] = {"ok": cc["ok"], "detail": cc}
    return dict(records=recs, functions=[extract.Source(REL[g]).info(g) for g in fns], instances=len({x["instance"] for x in recs}), planted=pl, selfchecks=sc)
