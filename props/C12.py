"""C12 -- PPT / symmetric-extension discrimination values: ordered, dual-consistent; callers' lists unchanged (bounded run-time contracts)."""
from __future__ import annotations

ID = "C12"
TITLE = "PPT / symmetric-extension discrimination values: ordered, dual-consistent"
LEVEL = "exploration"
BUDGET = {"quick": 80, "thorough": 1200}
ENGINES = ["E4-rtc"]
TECHNIQUE = "run-time-checked contracts on the real functions over a bounded domain (bounded stand-in)"
LEVEL_TEXT = (
    "Bounded only in this module (the frame clause `modifies nothing` is additionally an E2 obligation elsewhere; here it is checked at run time by a deep snapshot of the "
    "caller's lists before and after each call). Every clause calls the real ppt_distinguishability / symmetric_extension_hierarchy on bipartite ensembles on 2x2 and 2x3 "
    "systems and compares with oracles that do not re-run the same SDP: an explicit dual-feasible operator of the unrestricted problem (PPT <= global optimum), the success "
    "probability of explicit product and one-way LOCC measurements built in the harness (PPT, hierarchy >= LOCC), known values (1/2, 2/3, 1 for four, three, two Bell states; "
    "1 for members of a product basis), metamorphic relations (local unitaries, transposed party, representation, form of the `dim` argument, primal vs dual) and the "
    "relations between the two functions (level 1 == PPT value, non-increasing in the level). Tolerances 1e-5 (cvxopt through picos) and 5e-4 (cvxpy default solver)."
)
RULE = (
    "Deterministic grid over systems {2x2, 2x3} x (2..4 states) x {real, complex} x {1-D, column, density matrix} (hierarchy: column and density matrix, its documented input) x "
    "{primal, dual} x transposed party {0, 1} x priors {uniform, omitted, random, skewed} x every installed SDP solver picos accepts; hierarchy levels 1 and 2 (level 2 on 2x3 "
    "takes 3-7 s per solve: 2 states only, 3 instances in the quick tier). VERIF_SEED seeds the random instances; thorough adds seeds. non-trivial = at least two distinct states; "
    "distinct = distinct (clause, parameters)."
)
EXPLANATION = LEVEL_TEXT
TRUSTED = [
    "numpy.linalg.eigvalsh / eigh on Hermitian matrices of size <= 6 are accurate to 1e-12 (feasibility of the global dual certificate, optimal post-processing of product measurements)",
    "product and one-way LOCC measurements are separable, hence admit symmetric extensions of every level and are PPT: their success probability bounds all three values from below",
    "every PPT POVM is a POVM: the trace of a dual-feasible operator of the unrestricted min-error problem bounds the PPT value from above",
    "PPT success probability for k Bell states with uniform prior is min(1, 2/k) (Yu-Duan-Ying bound d/k, attained by LOCC)",
    "tolerance 1e-5 on picos/cvxopt values, 5e-4 on cvxpy default-solver values; an exception whose innermost frames are in the solver or its glue is a solver breakdown (undecided)",
    "symmetric_extension_hierarchy is only called with column vectors or density matrices (it unpacks states[0].shape into two values); 1-D vectors are outside its documented use",
]
ASSUMPTIONS = TRUSTED


# =============================================================================================
# executor side
# =============================================================================================
def _dc():
    from props import disc_common as dc

    return dc


def _dims(p):
    return int(p.get("da", 2)), int(p.get("db", 2))


def _build(p):
    dc = _dc()
    da, db = _dims(p)
    q = dict(p)
    q["d"] = da * db
    ens = dc.build(q)
    ens["da"], ens["db"] = da, db
    if p.get("local_rotate"):
        ens = _local_unitary(dict(p, seed=int(p.get("seed", 0)) + 5), ens)
    return ens


def _ppt(p, ens, soft=True, form=None, sub=None):
    from toqito.state_opt import ppt_distinguishability

    dc = _dc()
    kw = dict(subsystems=[int(p.get("sub", 0))] if sub is None else [sub], dimensions=[ens["da"], ens["db"]], solver=p.get("solver", "cvxopt"), primal_dual=form or p.get("form", "dual"))
    if ens["probs"] is not None:
        kw["probs"] = list(ens["probs"])
    c = dc.call_soft if soft else dc.call
    r = c(ppt_distinguishability, ens["states"], **kw)
    val = r[0] if isinstance(r, tuple) else r
    return dc.fval(val)


def _dimarg(p, ens):
    form = p.get("dimform", "list")
    if form == "list":
        return [ens["da"], ens["db"]]
    if form == "int":
        return int(ens["da"])
    if form == "omitted":
        return None
    raise ValueError(form)


def _sym(p, ens, level=None, soft=True, dimform=None):
    from toqito.state_opt import symmetric_extension_hierarchy

    dc = _dc()
    kw = dict(level=int(level or p.get("level", 1)))
    d = _dimarg(dict(p, dimform=dimform or p.get("dimform", "list")), ens)
    if d is not None:
        kw["dim"] = d
    if ens["probs"] is not None:
        kw["probs"] = list(ens["probs"])
    c = dc.call_soft if soft else dc.call
    if p.get("callform") == "positional":  # the documented order: (states, probs, level, dim)
        pos = [kw.get("probs"), kw["level"]] + ([kw["dim"]] if "dim" in kw else [])
        return dc.fval(c(symmetric_extension_hierarchy, ens["states"], *pos))
    return dc.fval(c(symmetric_extension_hierarchy, ens["states"], **kw))


def _locc(p, ens):
    import numpy as np

    dc = _dc()
    rng = np.random.default_rng([int(p.get("seed", 0)), 31])
    return dc.locc_value(ens["rhos"], ens["pvec"], ens["da"], ens["db"], rng, tries=int(p.get("tries", 16)))


def _global_upper(ens):
    dc = _dc()
    lo, hi = dc.bracket(ens["rhos"], ens["pvec"], [], "max")
    return hi


# ------------------------------------------------------------------------------------------ ppt_distinguishability
def ppt_returns_normally(p):
    """admissible bipartite ensemble => returns a finite value"""
    _ppt(p, _build(p), soft=False)


def ppt_le_global(p):
    """PPT value <= global optimum (bounded by the trace of an explicit dual-feasible operator of the unrestricted problem)"""
    from vt.contract import Violation

    dc = _dc()
    ens = _build(p)
    v = _ppt(p, ens)
    hi = _global_upper(ens)
    if v > hi + dc.TOL:
        raise Violation("PPT value %.7f exceeds a certified upper bound %.7f on the unrestricted optimum" % (v, hi))


def ppt_ge_locc(p):
    """PPT value >= success probability of an explicit product / one-way LOCC measurement"""
    from vt.contract import Violation

    dc = _dc()
    ens = _build(p)
    v = _ppt(p, ens)
    lo = _locc(p, ens)
    if v < lo - dc.TOL:
        raise Violation("PPT value %.7f is below the success probability %.7f of an explicit LOCC measurement" % (v, lo))
    return {"ppt": v, "locc": lo}


def ppt_product_basis_one(p):
    """members of a (locally rotated) product basis are distinguished perfectly by a product measurement: PPT value >= 1 - tol"""
    from vt.contract import Violation

    dc = _dc()
    ens = _build(p)
    v = _ppt(p, ens)
    if v < 1 - dc.TOL or v > 1 + dc.TOL:
        raise Violation("orthogonal product states: PPT value %.7f != 1" % v)


def ppt_primal_eq_dual(p):
    """primal and dual formulations report the same value"""
    from vt.contract import Violation

    dc = _dc()
    ens = _build(p)
    v1 = _ppt(p, ens, form="primal")
    v2 = _ppt(p, ens, form="dual")
    if abs(v1 - v2) > 2 * dc.TOL:
        raise Violation("PPT primal %.7f != dual %.7f" % (v1, v2))


def _bell_expected(ens):
    return min(1.0, 2.0 / ens["n"])


def ppt_bell_le(p):
    """k Bell states, uniform prior: PPT value <= min(1, 2/k)  (1/2 for all four)"""
    from vt.contract import Violation

    dc = _dc()
    ens = _build(p)
    v = _ppt(p, ens)
    if v > _bell_expected(ens) + dc.TOL:
        raise Violation("%d Bell states: PPT value %.7f > %.7f" % (ens["n"], v, _bell_expected(ens)))


def ppt_bell_ge(p):
    """k Bell states, uniform prior: PPT value >= min(1, 2/k)  (1/2 for all four)"""
    from vt.contract import Violation

    dc = _dc()
    ens = _build(p)
    v = _ppt(p, ens)
    if v < _bell_expected(ens) - dc.TOL:
        raise Violation("%d Bell states: PPT value %.7f < %.7f" % (ens["n"], v, _bell_expected(ens)))


def _local_unitary(p, ens):
    import numpy as np

    dc = _dc()
    rng = np.random.default_rng([int(p.get("seed", 0)), 97])
    u = np.kron(dc.haar(ens["da"], rng, ens["field"]), dc.haar(ens["db"], rng, ens["field"]))
    e2 = dc.transformed(ens, u=u, field=ens["field"])
    e2["da"], e2["db"] = ens["da"], ens["db"]
    return e2


def ppt_local_unitary_invariance(p):
    """value is invariant under U_A (x) U_B applied to every state"""
    from vt.contract import Violation

    dc = _dc()
    ens = _build(p)
    v1 = _ppt(p, ens)
    v2 = _ppt(p, _local_unitary(p, ens))
    if abs(v1 - v2) > 2 * dc.TOL:
        raise Violation("PPT value %.7f, after local unitaries %.7f" % (v1, v2))


def ppt_party_invariance(p):
    """transposing party 0 or party 1 gives the same value"""
    from vt.contract import Violation

    dc = _dc()
    ens = _build(p)
    v0 = _ppt(p, ens, sub=0)
    v1 = _ppt(p, ens, sub=1)
    if abs(v0 - v1) > 2 * dc.TOL:
        raise Violation("PPT value with party 0 transposed %.7f, with party 1 transposed %.7f" % (v0, v1))


def ppt_representation_invariance(p):
    """1-D vectors, column vectors and density matrices of the same pure states give the same value"""
    from vt.contract import Violation

    dc = _dc()
    ens = _build(p)
    vals = {}
    for rep in ("1d", "col", "dm"):
        e2 = dc.transformed(ens, field=ens["field"], rep=rep)
        e2["da"], e2["db"] = ens["da"], ens["db"]
        vals[rep] = _ppt(p, e2)
    if max(vals.values()) - min(vals.values()) > 2 * dc.TOL:
        raise Violation("PPT value depends on the representation: %s" % vals)


def ppt_frame(p):
    """the call does not modify the caller's list of states, probabilities, subsystems or dimensions"""
    from toqito.state_opt import ppt_distinguishability
    from vt.contract import Violation

    dc = _dc()
    ens = _build(p)
    states = ens["states"]
    probs = None if ens["probs"] is None else list(ens["probs"])
    subs, dims = [int(p.get("sub", 0))], [ens["da"], ens["db"]]
    snap = dc.snapshot(states, probs)
    kw = dict(subsystems=subs, dimensions=dims, primal_dual=p.get("form", "dual"))
    if probs is not None:
        kw["probs"] = probs
    try:
        dc.call(ppt_distinguishability, states, **kw)
    finally:
        dc.compare_snapshot(snap, states, probs, "ppt_distinguishability")
        if subs != [int(p.get("sub", 0))] or dims != [ens["da"], ens["db"]]:
            raise Violation("ppt_distinguishability modified its subsystems/dimensions arguments: %s %s" % (subs, dims))


# ------------------------------------------------------------------------------------------ symmetric_extension_hierarchy
def sym_returns_normally(p):
    """admissible ensemble of column vectors / density matrices => returns a finite value"""
    _sym(p, _build(p), soft=False)


def sym_level1_le_ppt(p):
    """hierarchy value at level 1 <= PPT value"""
    from vt.contract import Violation

    dc = _dc()
    ens = _build(p)
    v1 = _sym(p, ens, level=1)
    vp = _ppt(p, ens, form="dual")
    if v1 > vp + dc.TOL_CVXPY:
        raise Violation("level-1 value %.6f > PPT value %.6f" % (v1, vp))


def sym_level1_ge_ppt(p):
    """hierarchy value at level 1 >= PPT value"""
    from vt.contract import Violation

    dc = _dc()
    ens = _build(p)
    v1 = _sym(p, ens, level=1)
    vp = _ppt(p, ens, form="dual")
    if v1 < vp - dc.TOL_CVXPY:
        raise Violation("level-1 value %.6f < PPT value %.6f" % (v1, vp))


def sym_nonincreasing(p):
    """value(level 2) <= value(level 1)"""
    from vt.contract import Violation

    dc = _dc()
    ens = _build(p)
    v1 = _sym(p, ens, level=1)
    v2 = _sym(p, ens, level=2)
    if v2 > v1 + dc.TOL_CVXPY:
        raise Violation("level-2 value %.6f > level-1 value %.6f" % (v2, v1))
    return {"l1": v1, "l2": v2}


def sym_ge_locc(p):
    """hierarchy value (any level) >= success probability of an explicit separable (product / one-way LOCC) measurement"""
    from vt.contract import Violation

    dc = _dc()
    ens = _build(p)
    v = _sym(p, ens)
    lo = _locc(p, ens)
    if v < lo - dc.TOL_CVXPY:
        raise Violation("level-%s value %.6f is below the success probability %.6f of an explicit separable measurement" % (p.get("level", 1), v, lo))
    return {"sym": v, "locc": lo}


def sym_le_global(p):
    """hierarchy value <= global optimum (trace of an explicit dual-feasible operator of the unrestricted problem)"""
    from vt.contract import Violation

    dc = _dc()
    ens = _build(p)
    v = _sym(p, ens)
    hi = _global_upper(ens)
    if v > hi + dc.TOL_CVXPY:
        raise Violation("level-%s value %.6f exceeds a certified upper bound %.6f on the unrestricted optimum" % (p.get("level", 1), v, hi))


def sym_bell_le(p):
    """k Bell states: hierarchy value <= min(1, 2/k) at level 1 and 2 (on two qubits PPT = separable)"""
    from vt.contract import Violation

    dc = _dc()
    ens = _build(p)
    v = _sym(p, ens)
    if v > _bell_expected(ens) + dc.TOL_CVXPY:
        raise Violation("%d Bell states, level %s: value %.6f > %.6f" % (ens["n"], p.get("level", 1), v, _bell_expected(ens)))


def sym_bell_ge(p):
    """k Bell states: hierarchy value >= min(1, 2/k)"""
    from vt.contract import Violation

    dc = _dc()
    ens = _build(p)
    v = _sym(p, ens)
    if v < _bell_expected(ens) - dc.TOL_CVXPY:
        raise Violation("%d Bell states, level %s: value %.6f < %.6f" % (ens["n"], p.get("level", 1), v, _bell_expected(ens)))


def sym_product_basis_one(p):
    """members of a product basis: value == 1"""
    from vt.contract import Violation

    dc = _dc()
    ens = _build(p)
    v = _sym(p, ens)
    if abs(v - 1) > dc.TOL_CVXPY:
        raise Violation("orthogonal product states, level %s: value %.6f != 1" % (p.get("level", 1), v))


def sym_split_sequence(p):
    """the value for a split (d_A, d_B) does not depend on an earlier call with the other split of the same total dimension.
    e0 +- e3, e1 +- e2 in C^6 are orthogonal PRODUCT states for the split 2 x 3 (value 1: an explicit product measurement tells them apart)
    and the four Bell states of a 2 x 2 corner for the split 3 x 2 (PPT value 1/2); both orders of the two calls are tried."""
    import numpy as np

    from toqito.state_opt import symmetric_extension_hierarchy
    from vt.contract import Violation

    dc = _dc()
    r = np.sqrt(0.5)
    kets = [np.array(v, dtype=float).reshape(-1, 1) * r for v in ([1, 0, 0, 1, 0, 0], [1, 0, 0, -1, 0, 0], [0, 1, 1, 0, 0, 0], [0, 1, -1, 0, 0, 0])]

    def states():
        if p.get("rep") == "dm":
            return [k @ k.T for k in kets]
        return [k.copy() for k in kets]

    order = p.get("order", ["3x2", "2x3"])
    vals = {}
    for which in order:
        dim = [3, 2] if which == "3x2" else [2, 3]
        vals[which] = dc.fval(dc.call_soft(symmetric_extension_hierarchy, states(), probs=[0.25] * 4, level=1, dim=dim))
    if abs(vals["2x3"] - 1) > dc.TOL_CVXPY:
        raise Violation("orthogonal product states of C^2 (x) C^3: level-1 value %.6f != 1 for dim=[2, 3] (calls in the order %s; dim=[3, 2] gave %.6f)" % (vals["2x3"], order, vals["3x2"]))
    if vals["3x2"] > 0.5 + dc.TOL_CVXPY:
        raise Violation("four Bell states in a corner of C^3 (x) C^2: level-1 value %.6f > 1/2 for dim=[3, 2] (calls in the order %s; dim=[2, 3] gave %.6f)" % (vals["3x2"], order, vals["2x3"]))


def sym_dim_argument_invariance(p):
    """dim given as [dA, dB], as the integer dA, or omitted (equal dimensions) describes the same system: same value"""
    from vt.contract import Violation

    dc = _dc()
    ens = _build(p)
    forms = ["list", "int"] + (["omitted"] if ens["da"] == ens["db"] else [])
    vals = {f: _sym(p, ens, dimform=f) for f in forms}
    if max(vals.values()) - min(vals.values()) > 2 * dc.TOL_CVXPY:
        raise Violation("value depends on how dim is given: %s" % vals)


def sym_local_unitary_invariance(p):
    """value is invariant under U_A (x) U_B applied to every state"""
    from vt.contract import Violation

    dc = _dc()
    ens = _build(p)
    v1 = _sym(p, ens)
    v2 = _sym(p, _local_unitary(p, ens))
    if abs(v1 - v2) > 2 * dc.TOL_CVXPY:
        raise Violation("level-%s value %.6f, after local unitaries %.6f" % (p.get("level", 1), v1, v2))


def sym_frame(p):
    """the call does not modify the caller's list of states (nor its elements) nor the list of probabilities"""
    from toqito.state_opt import symmetric_extension_hierarchy

    dc = _dc()
    ens = _build(p)
    states = ens["states"]
    probs = None if ens["probs"] is None else list(ens["probs"])
    snap = dc.snapshot(states, probs)
    kw = dict(level=int(p.get("level", 1)))
    d = _dimarg(p, ens)
    if d is not None:
        kw["dim"] = d
    if probs is not None:
        kw["probs"] = probs
    try:
        dc.call(symmetric_extension_hierarchy, states, **kw)
    finally:
        dc.compare_snapshot(snap, states, probs, "symmetric_extension_hierarchy")


CLAUSES = {
    "ppt.returns_normally": ppt_returns_normally,
    "ppt.le_global": ppt_le_global,
    "ppt.ge_locc": ppt_ge_locc,
    "ppt.product_basis_one": ppt_product_basis_one,
    "ppt.primal_eq_dual": ppt_primal_eq_dual,
    "ppt.bell_le": ppt_bell_le,
    "ppt.bell_ge": ppt_bell_ge,
    "ppt.local_unitary_invariance": ppt_local_unitary_invariance,
    "ppt.party_invariance": ppt_party_invariance,
    "ppt.representation_invariance": ppt_representation_invariance,
    "ppt.frame": ppt_frame,
    "sym.returns_normally": sym_returns_normally,
    "sym.level1_le_ppt": sym_level1_le_ppt,
    "sym.level1_ge_ppt": sym_level1_ge_ppt,
    "sym.nonincreasing": sym_nonincreasing,
    "sym.ge_locc": sym_ge_locc,
    "sym.le_global": sym_le_global,
    "sym.bell_le": sym_bell_le,
    "sym.bell_ge": sym_bell_ge,
    "sym.product_basis_one": sym_product_basis_one,
    "sym.split_sequence": sym_split_sequence,
    "sym.dim_argument_invariance": sym_dim_argument_invariance,
    "sym.local_unitary_invariance": sym_local_unitary_invariance,
    "sym.frame": sym_frame,
}
for _k, _f in CLAUSES.items():
    _f.function = "ppt_distinguishability" if _k.startswith("ppt.") else "symmetric_extension_hierarchy"
    _f.limit = 60

PPT_GENERIC = ["ppt.returns_normally", "ppt.le_global", "ppt.ge_locc"]
SYM_GENERIC = ["sym.returns_normally", "sym.ge_locc", "sym.le_global"]


def cases(tier, seed):
    from props.disc_common import pick, sdp_solvers

    thorough = tier == "thorough"
    seeds = [seed + 1000 * k for k in range(5 if thorough else 1)]
    solvers = sdp_solvers()
    out = []

    def add(clause, params, ic, nontrivial=True):
        out.append(dict(clause=clause, params=params, input_class=ic, nontrivial=nontrivial))

    def sysname(da, db):
        return "%dx%d" % (da, db)

    def icl(fn, da, db, field, kind, extra=""):
        return "%s/%s/%s/%s%s" % (fn, sysname(da, db), field, kind, extra)

    systems = [(2, 2), (2, 3)]
    fields = ["real", "complex"]
    reps3 = ["1d", "col", "dm"]
    reps2 = ["col", "dm"]
    priors = ["uniform", "omitted", "random", "skewed"]
    forms = ["primal", "dual"]
    bells = ["named:bell", "named:bell-3", "named:bell-2"]
    # picos/cvxopt's primal form ends in a solver breakdown (ArithmeticError inside cvxopt, after 1-5 s) on every instance of
    # these (dA, dB, number of states) seen so far: one returns_normally case each in the quick tier, everything in thorough
    bad_primal = {(2, 2, 2), (2, 2, 3), (2, 3, 3)}

    def skip(form, da, db, n):
        return form == "primal" and (da, db, n) in bad_primal and not thorough
    for sd in seeds:
        i = 0
        # ================================================================ ppt_distinguishability
        for solver in solvers:
            sx = "" if solver == "cvxopt" else "/" + solver
            for (da, db) in systems:
                for field in fields:
                    for n in (2, 3, 4):
                        for form in forms:
                            for sub in (0, 1):
                                for k in range(2):
                                    i += 1
                                    rep = pick(reps3, i, k)
                                    kind = pick(["pure", "pure", "pure", "mixed"], i, k)
                                    base = dict(da=da, db=db, n=n, field=field, form=form, sub=sub, solver=solver, rep=rep, prior=pick(priors, i, k), kind=kind, rank=pick([1, 2, 3], i), seed=sd + i, phases=True)
                                    ic = icl("ppt/" + form, da, db, field, "dm" if (kind == "mixed" or rep == "dm") else "vec", sx)
                                    if skip(form, da, db, n):
                                        if k == 0 and sub == 0:
                                            add("ppt.returns_normally", base, ic)
                                        continue
                                    for cl in PPT_GENERIC:
                                        add(cl, base, ic)
                                    if k == 0 and sub == 0:
                                        add("ppt.frame", base, icl("ppt/" + form, da, db, field, "frame", sx))
                        if n in (3, 4) and (da, db) == (2, 2) and sd == seeds[0] and field == "complex":
                            # one list, three numpy dtypes (an integer product ket first, then a real, then complex ones)
                            for form in forms:
                                for rep in reps3:
                                    i += 1
                                    base = dict(da=da, db=db, n=n, field="complex", form=form, sub=pick([0, 1], i), solver=solver, rep=rep, prior="uniform", kind="mixed-dtype", seed=sd + i)
                                    if skip(form, da, db, n):
                                        continue
                                    for cl in PPT_GENERIC:
                                        add(cl, base, icl("ppt/" + form, da, db, "complex", "mixed-dtype-list", sx))
                        if n == 3 and (da, db) == (2, 2) and sd == seeds[0]:
                            # a state that is never prepared (exact zero prior, not last): the value is that of the remaining ensemble (dual form;
                            # the primal form breaks down in cvxopt when a prior is exactly zero)
                            for pk in ("zero-first", "zero-middle"):
                                i += 1
                                base = dict(da=da, db=db, n=n, field=field, form="dual", sub=pick([0, 1], i), solver=solver, rep=pick(reps3, i), prior=pk, kind="pure", rank=1, seed=sd + i, phases=True)
                                for cl in PPT_GENERIC:
                                    add(cl, base, icl("ppt/dual", da, db, field, "zero-prior", sx))
                        i += 1
                        base = dict(da=da, db=db, n=n, field=field, solver=solver, rep=pick(reps3, i), prior=pick(priors, i), kind=pick(["pure", "pure", "mixed"], i), rank=2, seed=sd + i, phases=True, sub=pick([0, 1], i))
                        if not skip("primal", da, db, n):
                            add("ppt.primal_eq_dual", base, icl("ppt/both", da, db, field, "any", sx))
                        for form in forms:
                            i += 1
                            if skip(form, da, db, n):
                                continue
                            base = dict(da=da, db=db, n=n, field=field, form=form, solver=solver, rep=pick(reps3, i), prior=pick(priors, i), kind=pick(["pure", "pure", "mixed"], i), rank=2, seed=sd + i, phases=True)
                            add("ppt.party_invariance", base, icl("ppt/" + form, da, db, field, "any", sx))
                            add("ppt.local_unitary_invariance", dict(base, sub=pick([0, 1], i)), icl("ppt/" + form, da, db, field, "any", sx))
                            add("ppt.representation_invariance", dict(base, kind="pure", sub=pick([0, 1], i)), icl("ppt/" + form, da, db, field, "vec", sx))
                            base = dict(da=da, db=db, n=n, field=field, form=form, solver=solver, rep=pick(reps3, i), prior=pick(priors, i), kind="product-basis", seed=sd + i, sub=pick([0, 1], i))
                            add("ppt.product_basis_one", base, icl("ppt/" + form, da, db, field, "product-basis", sx))
            for field in fields:
                for form in forms:
                    for sub in (0, 1):
                        for bk in bells:
                            for rot in (False, True):
                                i += 1
                                if skip(form, 2, 2, {"named:bell": 4, "named:bell-3": 3, "named:bell-2": 2}[bk]):
                                    continue
                                base = dict(da=2, db=2, kind=bk, field=field, form=form, sub=sub, solver=solver, rep=pick(reps3, i), prior=pick(["uniform", "omitted"], i), seed=sd + i)
                                if rot:
                                    base["local_rotate"] = True
                                add("ppt.bell_le", base, icl("ppt/" + form, 2, 2, field, bk.split(":")[1], sx))
                                add("ppt.bell_ge", base, icl("ppt/" + form, 2, 2, field, bk.split(":")[1], sx))
        # ================================================================ symmetric_extension_hierarchy (cvxpy, default solver)
        for (da, db) in systems:
            for field in fields:
                for n in (2, 3, 4):
                    for k in range(2):
                        i += 1
                        rep = reps2[k % 2]
                        kind = pick(["pure", "mixed"], i) if rep == "dm" else "pure"
                        base = dict(da=da, db=db, n=n, field=field, rep=rep, prior=pick(priors, i, k), kind=kind, rank=pick([1, 2, 3], i), seed=sd + i, phases=True, level=1, dimform="list")
                        ic = icl("sym/level1", da, db, field, "dm" if rep == "dm" else "col")
                        for cl in SYM_GENERIC:
                            add(cl, base, ic)
                        add("sym.level1_le_ppt", base, ic)
                        add("sym.level1_ge_ppt", base, ic)
                        add("sym.frame", base, icl("sym/level1", da, db, field, "frame-" + rep))
                        if k == 0:
                            add("sym.dim_argument_invariance", base, icl("sym/level1", da, db, field, "any"))
                            add("sym.local_unitary_invariance", base, icl("sym/level1", da, db, field, "any"))
                            add("sym.product_basis_one", dict(base, kind="product-basis"), icl("sym/level1", da, db, field, "product-basis"))
                        # level 2
                        if (da, db) == (2, 2):
                            if k == n % 2 or thorough:
                                b2 = dict(base, level=2)
                                ic2 = icl("sym/level2", da, db, field, "dm" if rep == "dm" else "col")
                                add("sym.nonincreasing", b2, ic2)
                                add("sym.ge_locc", b2, ic2)
                                add("sym.frame", b2, icl("sym/level2", da, db, field, "frame-" + rep))
                                if n == 3:
                                    add("sym.product_basis_one", dict(b2, kind="product-basis"), icl("sym/level2", da, db, field, "product-basis"))
        # a state that is never prepared (exact zero prior): an admissible ensemble, for either representation
        for rep in reps2:
            for pk in ("zero-first", "zero-middle"):
                i += 1
                base = dict(da=2, db=2, n=3, field=pick(fields, i), rep=rep, prior=pk, kind="pure", rank=1, seed=sd + i, phases=True, level=1, dimform="list")
                ic = icl("sym/level1", 2, 2, base["field"], "zero-prior-" + rep)
                for cl in ("sym.returns_normally", "sym.level1_le_ppt", "sym.level1_ge_ppt", "sym.ge_locc"):
                    add(cl, base, ic)
                add("sym.frame", base, icl("sym/level1", 2, 2, base["field"], "frame-zero-prior-" + rep))
        # two splits of the same total dimension, one after the other (a model kept between calls must not leak from one split to the other)
        for rep_ in ("col", "dm"):
            for order_ in (["3x2", "2x3"], ["2x3", "3x2"]):
                add("sym.split_sequence", dict(rep=rep_, order=order_), "sym/level1/two-splits-in-sequence/%s" % rep_)
        # arguments passed by position, in the documented order (states, probs, level, dim)
        for bk in bells[:2]:
            for dimform in ("omitted", "list"):
                i += 1
                base = dict(da=2, db=2, kind=bk, field="real", rep=pick(reps2, i), prior="uniform", seed=sd + i, level=1, dimform=dimform, callform="positional")
                add("sym.bell_le", base, icl("sym/level1", 2, 2, "real", "positional-" + dimform))
                add("sym.bell_ge", base, icl("sym/level1", 2, 2, "real", "positional-" + dimform))
        for field in fields:
            for bk in bells:
                for level in (1, 2):
                    i += 1
                    base = dict(da=2, db=2, kind=bk, field=field, rep=pick(reps2, i), prior=pick(["uniform", "omitted"], i), seed=sd + i, level=level, dimform=pick(["list", "int", "omitted"], i))
                    add("sym.bell_le", base, icl("sym/level%d" % level, 2, 2, field, bk.split(":")[1]))
                    add("sym.bell_ge", base, icl("sym/level%d" % level, 2, 2, field, bk.split(":")[1]))
        # level 2 on 2x3: 3-7 s per solve, two states only
        inst = [("real", "col", "pure", "random"), ("complex", "dm", "mixed", "uniform"), ("complex", "col", "pure", "skewed")]
        if thorough:
            inst = inst + [("real", "dm", "mixed", "omitted"), ("complex", "col", "pure", "random"), ("real", "col", "pure", "uniform")]
        for (field, rep, kind, pr) in inst:
            i += 1
            base = dict(da=2, db=3, n=2, field=field, rep=rep, prior=pr, kind=kind, rank=2, seed=sd + i, phases=True, level=2, dimform="list")
            ic2 = icl("sym/level2", 2, 3, field, "dm" if rep == "dm" else "col")
            add("sym.nonincreasing", base, ic2)
            if thorough:
                add("sym.ge_locc", base, ic2)
                add("sym.frame", base, icl("sym/level2", 2, 3, field, "frame-" + rep))
    return out


# =============================================================================================
# deductive part (prover side, E2 frame obligations) -- main agent
# =============================================================================================
from props.C12_prove import prove  # noqa: E402,F401

LEVEL = "other"
ENGINES = ["E2-frame", "E3-E4-rtc"]
LEVEL_TEXT = ("Mixed. Proved (E2): symmetric_extension_hierarchy and ppt_distinguishability write through no reference reachable from their arguments (the caller's "
              "list of states is not modified). The value relations (PPT <= global, >= LOCC, primal = dual, Bell states, invariances, level 1 = PPT, monotone in the level) "
              "are bounded run-time contract checks with exact feasibility certificates. Proved (E1-prog, 2 and 3 states, all dimensions / priors / cuts): ppt_distinguishability "
              "hands the solver exactly the stated program (primal: max sum_i p_i <rho_i, M_i> s.t. M_i >= 0, sum M_i = I, PT(M_i) >= 0; dual: min Tr Y s.t. Y - p_i rho_i >= PT(Q_i), Q_i >= 0), "
              "solves it once with the caller's solver and returns its optimum; the entry point dispatches by primal_dual with probs or the uniform prior. "
              "symmetric_extension_hierarchy (density matrices, dim = [d_A, d_B] for d_A, d_B in 2..3, level 1..2 (3 thorough), 1..3 states) builds max sum_k p_k <rho_k, M_k> s.t. "
              "M_k = Tr_ext X_k, X_k >= 0, M_k >= 0, X_k invariant under I (x) P_sym, PT over the first party and over every extension copy >= 0, sum_k M_k = I, and returns its optimum.")
EXPLANATION = LEVEL_TEXT
TECHNIQUE = "frame clause by taint analysis of the real AST (E2) + program contracts of the picos builders (E1-prog, z3) + bounded run-time-checked contracts with certificates"
TRUSTED.append("E1-prog (program contracts): matrices and picos variables are uninterpreted terms; picos semantics assumed (>> / << Loewner order, | Hilbert-Schmidt inner product, picos.partial_transpose by its name and keyword arguments); linearity of the inner product and Tr(AB) = <A,B> for Hermitian A as z3 axioms; the solver returns the optimum of the program it is handed (certified only on the bounded tier); number of states enumerated (2, 3; 4 thorough)")
if "E1-pyvc" not in ENGINES:
    ENGINES = ["E1-pyvc"] + list(ENGINES)
