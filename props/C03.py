"""C03 -- partial transpose and realignment exchange exactly the stated indices."""
from __future__ import annotations

import itertools

ID = "C03"
TITLE = "partial transpose / realignment index exchange"
LEVEL = "proof"
BUDGET = {"quick": 70, "thorough": 900}
RULE = (
    "E1: one proof instance per (n, S, sys as list/ndarray/int, square or separate row/column dimension vectors), for ALL local dimensions and "
    "ALL entries; realignment verified only from the contracts of swap and partial_transpose for all dA,dB,dA',dB' >= 2. Bounded stand-in: real "
    "functions on arange / sympy / complex matrices for every configuration with row/column totals <= 36 (thorough 64), local dimensions {1,2,3} "
    "(square) or {2,3} (rectangular), the stated corollaries (involution, full transpose, complement, Frobenius norm, rank-one image), the cvxpy path; "
    "non-trivial = S non-empty and matrix larger than 1x1; distinct = distinct (clause, parameters)."
)
EXPLANATION = "proof tier: VCs from the real AST with permute_systems / swap / partial_transpose seen only through their contracts; bounded tier labelled bounded_*"
TRUSTED = [
    "mixed-radix rule (digit regrouping in reshape; re-proved in lean/MixedRadix.lean)",
    "numpy primitives under assumed contracts: np.reshape(order=F), np.transpose(axes), np.flipud on the 2xk dimension table, dim[:, sys] fancy store/load, .T.flatten()",
    "S-set-order (ascending set difference), S-float-dims (np.round(np.sqrt(.)), x / y, np.ones(k)*x/y, int(float)) exact on integral values",
    "callee contracts used (not bodies): permute_systems, swap (proved under C01), partial_transpose (for realignment)",
    "n = 1 with a two-row dim ([[r],[c]]) is outside requires: a 2x1 table is read by the code as a vector of two dimensions (ambiguous calling form, raises InvalidDim)",
    "cvxpy Variable branch only in the bounded tier",
    "z3, cvc5, sympy normal form, CPython ast; n and S enumerated (n<=3 quick, n<=4 thorough)",
]
ASSUMPTIONS = TRUSTED
TECHNIQUE = 'VC generation from the real AST of partial_transpose and realignment (callees by contract) + z3/normal-form discharge for all dimensions and entries; bounded run-time contracts for corollaries and the cvxpy path'
LEVEL_TEXT = "Proof per enumerated (n <= 3/4, S, sys form, square or rectangular dimension table) instance for ALL local dimensions and ALL entries; realignment proved for all dA,dB,dA',dB' >= 2 from the contracts of swap and partial_transpose. Corollaries, omitted dims and the cvxpy path are bounded."
ENGINES = ["E1-pyvc", "E3-E4-rtc"]
from props.index_clauses import CLAUSES  # noqa: E402,F401


def prove(tier, seed):
    from vt.pyvc import index_proofs as IP
    from vt.pyvc import selfcheck

    S = IP.Sources()
    tasks = IP.instances_C03(tier)
    records, wall = IP.run_instances(tasks, S)
    names = ["partial_transpose", "realignment"]
    records += IP.frame_records(["partial_transpose", "realignment"])
    planted = selfcheck.planted("C03", tier, S)
    sc = selfcheck.standard(records, names)
    sc["planted_bugs_all_refuted"] = {"ok": planted["tried"] == planted["refuted"], "detail": planted}
    aux = IP.crosscheck_cases(S, seed, 30 if tier == "thorough" else 12)
    return dict(aux_cases=aux, records=records, functions=S.info(names + ["permute_systems", "swap"]), instances=len(tasks), planted=planted, selfchecks=sc, wall=wall)


def cases(tier, seed):
    thorough = tier == "thorough"
    out = []

    def add(clause, params, ic, nontrivial=True):
        out.append(dict(clause=clause, params=params, input_class=ic, nontrivial=nontrivial))

    maxN = 64 if thorough else 36
    for n in (1, 2, 3, 4):
        for d in itertools.product([1, 2, 3] + ([4] if thorough else []), repeat=n):
            N = 1
            for x in d:
                N *= x
            if not (2 <= N <= maxN):
                continue
            d = list(d)
            for size in range(1, n + 1):
                for S in itertools.combinations(range(n), size):
                    add("ptranspose.index", dict(sys=list(S), rdims=d, cdims=d, sysform="list", dimform="list"), "partial_transpose/square")
                    if size == 1:
                        add("ptranspose.index", dict(sys=list(S), rdims=d, cdims=d, sysform="int", dimform="list"), "partial_transpose/int")
                    if size == 2:
                        add("ptranspose.index", dict(sys=list(S)[::-1], rdims=d, cdims=d, sysform="array", dimform="array"), "partial_transpose/array")
                    if N <= 12 and n <= 3:
                        add("ptranspose.index", dict(sys=list(S), rdims=d, cdims=d, sysform="list", dimform="list", entries="sym"), "partial_transpose/sym")
                    if N <= 16 and n >= 2:
                        add("ptranspose.cvxpy", dict(sys=list(S), dims=d, var="complex" if size % 2 else "real", seed=seed), "partial_transpose/cvxpy")
                        if N <= 8:
                            # other kinds of variable (a Hermitian variable's lower triangle is the conjugate of the upper one) and other forms of `sys`
                            for var in ("hermitian", "symmetric"):
                                add("ptranspose.cvxpy", dict(sys=list(S), dims=d, var=var, seed=seed), "partial_transpose/cvxpy-%s" % var)
                            if size == 1:
                                for var in ("complex", "hermitian"):
                                    add("ptranspose.cvxpy", dict(sys=list(S), dims=d, var=var, seed=seed, sysform="int"), "partial_transpose/cvxpy-int-sys")
                            else:
                                add("ptranspose.cvxpy", dict(sys=list(S), dims=d, var="complex", seed=seed, sysform="array"), "partial_transpose/cvxpy-array-sys")
    # rectangular: every local dimension at least 2
    for n in (2, 3):
        for rd in itertools.product([2, 3], repeat=n):
            for cd in itertools.product([2, 3], repeat=n):
                if rd == cd:
                    continue
                R = 1
                C = 1
                for x in rd:
                    R *= x
                for x in cd:
                    C *= x
                if R > maxN or C > maxN:
                    continue
                for size in range(1, n + 1):
                    for S in itertools.combinations(range(n), size):
                        add("ptranspose.index", dict(sys=list(S), rdims=list(rd), cdims=list(cd), sysform="list", dimform="2row"), "partial_transpose/rect")
                        if R * C <= 64:
                            add("ptranspose.corollaries", dict(sys=list(S), rdims=list(rd), cdims=list(cd), seed=seed), "partial_transpose/corollaries")
                        if R * C <= 36 and size == 1:
                            add("ptranspose.index", dict(sys=list(S), rdims=list(rd), cdims=list(cd), sysform="int", dimform="2row-array", entries="sym"), "partial_transpose/rect-sym")
    # rectangular cvxpy variables (the result has other numbers of rows and columns than the argument when the transposed block is not square)
    for rd, cd, S in (([2, 2], [2, 3], [1]), ([2, 3], [2, 2], [1]), ([2, 2], [3, 2], [0]), ([2, 2], [2, 3], [0, 1]), ([3, 2], [2, 2], [0])):
        for var in ("complex", "real"):
            add("ptranspose.cvxpy", dict(sys=S, dims=rd, cdims=cd, var=var, seed=seed), "partial_transpose/cvxpy-rectangular-%s" % var)
    for d in (2, 3, 4, 5):
        add("ptranspose.index", dict(sys=[1], rdims=[d, d], cdims=[d, d], sysform="list", dimform="omitted"), "partial_transpose/omitted")
        add("ptranspose.index", dict(sys=[0], rdims=[d, d], cdims=[d, d], sysform="int", dimform="omitted"), "partial_transpose/omitted")
    for S in ([0], [1], [0, 1]):
        add("frame.args", dict(fn="partial_transpose", sys=S, rdims=[2, 3], cdims=[3, 2]), "frame/partial_transpose")
        add("frame.args", dict(fn="partial_transpose", sys=S, rdims=[2, 3, 2], cdims=[3, 2, 2]), "frame/partial_transpose")
    add("frame.args", dict(fn="partial_transpose", sys=[1], rdims=[2, 3], cdims=[2, 3], dimform="1row-array"), "frame/partial_transpose")
    for S in ([0], [0, 1], [1]):
        add("frame.args", dict(fn="partial_transpose", sys=S, rdims=[2, 3, 2], cdims=[3, 2, 2], dimdtype="float"), "frame/partial_transpose/float-dim-table")
        add("frame.args", dict(fn="partial_transpose", sys=S, rdims=[2, 3], cdims=[2, 4], dimdtype="float"), "frame/partial_transpose/float-dim-table")
    add("frame.args", dict(fn="realignment", rdims=[2, 3], cdims=[3, 2], dimdtype="float"), "frame/realignment/float-dim-table")
    for rd, cd in (([2, 3], [3, 2]), ([2, 2], [2, 2]), ([3, 2], [2, 4])):
        add("frame.args", dict(fn="realignment", rdims=rd, cdims=cd), "frame/realignment")
    for dt in ("int8", "uint8", "int32", "bool"):
        add("int_dtype", dict(dtype=dt, dims=[2, 3], sys=[0], only="partial_transpose"), "int_dtype/%s" % dt)
    # realignment
    for dA, dB, dA2, dB2 in itertools.product([2, 3, 4], repeat=4):
        if dA * dB > 12 or dA2 * dB2 > 12:
            continue
        add("realign.index", dict(rdims=[dA, dB], cdims=[dA2, dB2], dimform="2row"), "realignment/2row")
        add("realign.rank_one", dict(rdims=[dA, dB], cdims=[dA2, dB2], seed=seed), "realignment/rank-one")
        if (dA, dB) == (dA2, dB2):
            add("realign.index", dict(rdims=[dA, dB], cdims=[dA2, dB2], dimform="list"), "realignment/list")
            add("realign.index", dict(rdims=[dA, dB], cdims=[dA2, dB2], dimform="list", entries="sym"), "realignment/sym")
            if dA == dB:
                add("realign.index", dict(rdims=[dA, dB], cdims=[dA2, dB2], dimform="omitted"), "realignment/omitted")
                add("realign.index", dict(rdims=[dA, dB], cdims=[dA2, dB2], dimform="scalar"), "realignment/scalar")
    # rectangular operators one of whose factors is a row or a column (dimension 1 on one side only)
    for rd, cd in (([1, 2], [3, 2]), ([2, 1], [2, 3]), ([3, 2], [1, 2]), ([2, 1, 2], [2, 3, 1])):
        n_ = len(rd)
        for size in range(1, n_ + 1):
            for S in itertools.combinations(range(n_), size):
                add("ptranspose.index", dict(sys=list(S), rdims=rd, cdims=cd, sysform="list", dimform="2row"), "partial_transpose/rect-with-dimension-1")
    # `dim` omitted for a rectangular operator whose row and column counts are perfect squares: two subsystems, row dims (r, r), column dims (c, c)
    for r_, c_ in ((2, 3), (3, 2), (2, 4)):
        for S in ([0], [1], [0, 1]):
            add("ptranspose.index", dict(sys=S, rdims=[r_, r_], cdims=[c_, c_], sysform="list", dimform="omitted"), "partial_transpose/rect-dim-omitted")
    # realignment of sparse operators (returned dense)
    for fmt in ("csr", "coo", "csc", "csr_array"):
        add("realign.index", dict(rdims=[2, 3], cdims=[2, 3], dimform="list", sparse=fmt), "realignment/sparse-input")
        add("realign.index", dict(rdims=[2, 2], cdims=[3, 2], dimform="2row", sparse=fmt), "realignment/sparse-input")
    # `sys` omitted: the second subsystem (index 1) is transposed, whatever the number of subsystems listed in `dim`
    for d in ([2, 2], [2, 3], [3, 2], [2, 3, 2], [3, 2, 2], [2, 2, 3, 2], [1, 3, 2]):
        add("ptranspose.index", dict(sys=[1], rdims=d, cdims=d, sysform="list", dimform="list", sys_omitted=True), "partial_transpose/sys-omitted-dim-given")
        add("ptranspose.index", dict(sys=[1], rdims=d, cdims=d, sysform="list", dimform="array", sys_omitted=True), "partial_transpose/sys-omitted-dim-given")
    add("ptranspose.index", dict(sys=[1], rdims=[2, 3], cdims=[3, 2], sysform="list", dimform="2row", sys_omitted=True), "partial_transpose/sys-omitted-dim-given")
    return out


# ---------------------------------------------------------------------------------------------
# memory-layout variants: the same values handed over Fortran-ordered and as a non-contiguous strided view
# ---------------------------------------------------------------------------------------------
_cases_c_layout = cases
_LAYOUT_CLAUSES = {"ps.index", "vec.index", "ptrace.index", "ptranspose.index", "realign.index"}


def cases(tier, seed):  # noqa: F811
    base = _cases_c_layout(tier, seed)
    extra = []
    k = 0
    for c in base:
        prm = c.get("params", {})
        if c["clause"] in _LAYOUT_CLAUSES and prm.get("entries", "arange") != "sym" and not prm.get("sparse"):
            k += 1
            if k % (3 if tier == "thorough" else 6) == 0:
                for lay in ("F", "view"):
                    extra.append(dict(c, params=dict(prm, layout=lay), input_class=c["input_class"] + "/layout-" + lay))
    return base + extra
