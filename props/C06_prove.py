"""Deductive part of C06 (E1-term) and the tolerance-semantics clause that replays it."""

PREDS = ["is_positive", "is_herm_preserving", "is_completely_positive", "is_trace_preserving", "is_quantum_channel"]
MUTS = [
    ("is_trace_preserving", "return is_identity(np.array(mat), rtol=rtol, atol=atol)", "return is_identity(np.array(mat), atol, rtol)"),
    ("is_completely_positive", "is_positive_semidefinite(phi, rtol, atol)", "is_positive_semidefinite(phi, atol, rtol)"),
    ("is_quantum_channel", "return is_completely_positive(phi, rtol, atol) and is_trace_preserving(phi, rtol, atol)", "return is_completely_positive(phi, rtol, atol) and is_trace_preserving(phi)"),
    ("is_trace_preserving", "mat = partial_trace(phi, [sys - 1], dim)", "mat = partial_trace(phi, [sys], dim)"),
    ("is_herm_preserving", "return is_hermitian(phi, rtol=rtol, atol=atol)", "return is_hermitian(phi)"),
]


def prove(tier, seed):
    from vt.pyvc.termproofs import merge, prove_terms

    return merge(prove_terms(PREDS, MUTS, tier, "c06", replay_clause="tol.semantics"), prove_constructors())


def prove_constructors():
    """E1-array/bilinear: depolarizing, dephasing, reduction return their textbook Choi matrices and act by their textbook formulas (all d, all p)"""
    from props import C06_bilinear as B
    from vt import extract

    recs = B.records() + B.lemmas()
    for x in recs:
        if x["status"] != "discharged" and x["function"] in B.REL:
            fn = x["function"]
            x["replay"] = [dict(clause=fn + ".formula", function=fn, input_class="%s/replay" % fn, params=(dict(d=dm, k=int(pv * 3) + 1, seed=0) if fn == "reduction" else dict(d=dm, p=pv, seed=0))) for dm in (2, 3) for pv in (0.3, 0.9)]
    pl = B.planted()
    per = {}
    for x in recs:
        if x.get("claim"):
            per[x["function"]] = per.get(x["function"], 0) + 1
    sc = {"planted_bugs_all_refuted": {"ok": pl["tried"] == pl["refuted"], "detail": pl}, "bilinear_nonzero_claim_obligations": {"ok": all(per.get(g, 0) > 0 for g in ("depolarizing", "dephasing", "reduction", "(lemma over contracts)")), "detail": per}}
    return dict(records=recs, functions=[extract.Source(B.REL[g]).info(g) for g in ("depolarizing", "dephasing", "reduction")], instances=6, planted=pl, selfchecks=sc)


def _perturbed(d, delta, seed):
    """Choi matrix of the identity channel on C^d plus delta * |v><v| with v = (|0> + |1>) (x) |0>: completely positive, and
    Tr_out J = I + delta * (|0> + |1>)(<0| + <1|): diagonal and off-diagonal defect delta."""
    import numpy as np

    J = np.zeros((d * d, d * d))
    for i in range(d):
        for j in range(d):
            J[i * d + i, j * d + j] = 1.0
    v = np.zeros(d * d)
    v[0 * d + 0] = 1.0
    v[1 * d + 0] = 1.0
    return J + delta * np.outer(v, v)


def _kraus_of(J, d):
    import numpy as np

    w, V = np.linalg.eigh(J)
    out = []
    for k in range(len(w)):
        if w[k] > 1e-14:
            # toqito convention J = sum_ij E_ij (x) Phi(E_ij): vec index (input, output)
            out.append(np.sqrt(w[k]) * V[:, k].reshape(d, d).T)
    return out


def tol_semantics(p):
    """rtol / atol of the channel predicates mean what is_identity / np.allclose document: an off-diagonal defect is compared with atol,
    a diagonal defect with atol + rtol.  Ground truth by construction (defect delta known exactly)."""
    import numpy as np

    import toqito.channel_props as cp
    from vt.contract import Violation

    fn = p.get("fn", "is_trace_preserving")
    names = [fn] if fn in ("is_trace_preserving", "is_quantum_channel") else ["is_trace_preserving", "is_quantum_channel"]
    rows = [
        # (delta, rtol, atol, expected)      off-diagonal defect delta, diagonal defect delta
        (0.0, 0.0, 1e-6, True),
        (1e-4, 0.0, 1e-3, True),      # within atol although rtol = 0
        (1e-4, 1e-3, 1e-9, False),    # off-diagonal defect exceeds atol even though rtol is generous
        (1e-6, None, None, False),    # default tolerances: 1e-6 off-diagonal is 100 x atol
        (1e-10, None, None, True),
        (1e-2, 0.1, 1e-6, False),
    ]
    for d in (2, 3):
        for delta, rtol, atol, exp in rows:
            J = _perturbed(d, delta, p.get("seed", 0))
            K = _kraus_of(J, d)
            for name in names:
                f = getattr(cp, name)
                kw = {} if rtol is None else dict(rtol=rtol, atol=atol)
                for form, arg in (("choi", J), ("kraus-flat", K), ("kraus-pairs", [[k, k] for k in K])):
                    got = bool(f(arg, **kw))
                    if got != exp:
                        raise Violation("%s(%s form, d=%d, defect %g, rtol=%s, atol=%s) = %s; by the documented tolerance semantics %s" % (name, form, d, delta, rtol, atol, got, exp))
                if rtol is not None:
                    got = bool(f(J, rtol, atol))
                    if got != exp:
                        raise Violation("%s(J, %g, %g) with positional tolerances = %s, expected %s" % (name, rtol, atol, got, exp))
    # Hermiticity / positivity predicates: a Hermiticity defect eps in one off-diagonal entry
    for name in ("is_herm_preserving", "is_completely_positive", "is_positive") if fn not in ("is_trace_preserving", "is_quantum_channel") or p.get("all") else ():
        f = getattr(cp, name)
        for eps, rtol, atol, exp in ((1e-4, 0.0, 1e-3, True), (1e-4, 1e-3, 1e-9, False), (1e-6, None, None, False)):
            J = _perturbed(2, 0.0, 0).astype(complex)
            J[0, 3] += eps  # J[0,3] = 1 + eps, J[3,0] = 1: |J - J^dagger| = eps at an entry of modulus 1 -> bound atol + rtol * 1
            kw = {} if rtol is None else dict(rtol=rtol, atol=atol)
            # entry has modulus ~1, so the allclose bound is atol + rtol: recompute the expectation accordingly
            bound = (1e-8 + 1e-5) if rtol is None else (atol + rtol * 1.0)
            expected = eps <= bound
            if abs(eps - bound) < 0.5 * bound:
                continue
            got = bool(f(J, **kw))
            if name == "is_herm_preserving" and got != expected:
                raise Violation("%s(J with Hermiticity defect %g, rtol=%s, atol=%s) = %s, expected %s" % (name, eps, rtol, atol, got, expected))


tol_semantics.function = "channel_props tolerances"
EXTRA_CLAUSES = {"tol.semantics": tol_semantics}


def extra_cases(tier, seed):
    out = []
    for fn in ("is_trace_preserving", "is_quantum_channel", "is_herm_preserving"):
        out.append(dict(clause="tol.semantics", params=dict(fn=fn, seed=seed), input_class="tolerances/%s" % fn, nontrivial=True))
    return out
